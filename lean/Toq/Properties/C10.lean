import Toq.Proofs.Discrim
import Toq.Proofs.Metrics
import Toq.Proofs.DiscrimStrong
import Toq.Proofs.DiscrimEldar
import Toq.Proofs.RandBK
import Toq.Proofs.RandPgm
import Toq.Proofs.DiscrimArgs
import Toq.Proofs.DiscrimTwo
import Toq.Proofs.DiscrimGram
import Toq.Proofs.DiscrimCall
/-!
# C10 — quantum state discrimination: weak duality and soundness of the certificate checkers

The optimisation problems are stated over `Matrix (Fin d) (Fin d) ℂ` with Mathlib's
`Matrix.PosSemidef`.  The executable checkers (`Toq.Model.Discrim`) work over exact Gaussian
rationals; `EMat.toM` is the denotation of an exact matrix, `Rat.cast` that of an exact number.

* minimum-error discrimination of `{(p_i, ρ_i)}`: maximise `successProb ρ p M = Σ_i p_i Re tr(ρ_i M_i)`
  over POVMs `M`; dual: minimise `Re tr Y` subject to `Y − p_i ρ_i ⪰ 0`;
* unambiguous discrimination in Gram form: maximise `Σ_i p_i q_i` subject to `q ≥ 0`,
  `G − diag q ⪰ 0`; dual: minimise `Re tr(G Z)` subject to `Z ⪰ 0`, `Re Z_ii ≥ p_i`.

First part: weak duality and soundness of the four certificate checkers.  Second part (after the checker
examples): the closed forms and laws the property states, for all dimensions and numbers of states –
value `≥` every prior and `≤ 1`, `= 1` for mutually orthogonal states, invariance under a common unitary and
under relabelling (as equality of the sets of attainable values `minErrValues`), the pretty good measurement is a
POVM below every dual bound, the Helstrom formula for two states (with the trace norm of C13), and for the
Gram-form unambiguous program: value `0` for linearly dependent states, `≤ Σ p_i`, and `1 − |⟨ψ|φ⟩|` for two
equiprobable pure states.

Third part (after the second group of examples): **strong duality with attainment on both sides** for minimum-error
discrimination (`minErr_strong_duality`, `minErr_primal_dual_agree`), the duality gap and complementary slackness, the
**Holevo–Yuen–Kennedy–Lax optimality conditions as an iff** (`minErr_hykl_iff`), Barnum–Knill `P_opt² ≤ P_pgm`
(`minErr_sq_le_pgm`, from `Toq.Rand.barnum_knill` of C19), **Eldar's reduction in both directions** – the Gram-form program
toqito solves has exactly the success probabilities of unambiguous measurements as its values, for arbitrary (also
linearly dependent) pure states (`unamb_values_eq_measurement_values`) – and with it **unambiguous `≤` minimum-error**
(`unamb_le_minErr`); gap formula / KKT conditions for the Gram program; **strong duality of the Gram-form program for
linearly independent states and positive priors** (`unamb_strong_duality`, `unamb_primal_dual_agree`); two pure states with
arbitrary priors (Jaeger–Shimony, three regimes); and **no duality gap for every PSD Gram matrix and every prior `≥ 0`**
(`unamb_no_gap`: the primal maximum is attained and equals the dual infimum; for dependent states the dual infimum need not be
attained); perfect discrimination iff mutual orthogonality (`minErr_eq_one_iff_orthogonal`).

Fourth part: the code around the solver call, mirrored in `Toq.Model.DiscrimArgs` – argument check and dispatch
(`sd_front_eq`, `sd_dispatch`), default prior, `to_density_matrix` / `vectors_to_gram_matrix` denote `|ψ_j⟩⟨ψ_j|` / `VᴴV`
(`sd_gram_and_density`), the certified form of "unambiguous `≤` minimum-error" on the code's own data
(`sd_unamb_le_minErr_certified`), and `is_distinguishable`'s `np.isclose(·, 1)` (`sd_dist_test_*`).
-/

open Matrix
open scoped ComplexOrder MatrixOrder

namespace Toq.C10
open Toq.Discrim

variable {d k : Nat}

/-! ## The mathematical problems -/

/-- `M` is a `k`-outcome measurement on `ℂ^d` -/
def IsPOVM (M : Fin k → Matrix (Fin d) (Fin d) ℂ) : Prop := (∀ i, (M i).PosSemidef) ∧ ∑ i, M i = 1

/-- `Σ_i p_i · Re tr(ρ_i M_i)`: probability of identifying the state correctly with measurement `M` -/
noncomputable def successProb (ρ : Fin k → Matrix (Fin d) (Fin d) ℂ) (p : Fin k → ℝ)
    (M : Fin k → Matrix (Fin d) (Fin d) ℂ) : ℝ :=
  ∑ i, p i * (ρ i * M i).trace.re

/-- `Y` is feasible for the dual of minimum-error discrimination -/
def MinErrDualFeasible (ρ : Fin k → Matrix (Fin d) (Fin d) ℂ) (p : Fin k → ℝ)
    (Y : Matrix (Fin d) (Fin d) ℂ) : Prop :=
  ∀ i, (Y - (p i : ℂ) • ρ i).PosSemidef

/-- `q` is feasible for unambiguous discrimination with Gram matrix `G` -/
def UnambFeasible (G : Matrix (Fin k) (Fin k) ℂ) (q : Fin k → ℝ) : Prop :=
  (∀ i, 0 ≤ q i) ∧ (G - Matrix.diagonal fun i => (q i : ℂ)).PosSemidef

/-- `Z` is feasible for the dual of unambiguous discrimination with priors `p` -/
def UnambDualFeasible (p : Fin k → ℝ) (Z : Matrix (Fin k) (Fin k) ℂ) : Prop :=
  Z.PosSemidef ∧ ∀ i, p i ≤ (Z i i).re

/-! ## Denotation of checker inputs -/

/-- the states of an exact ensemble as complex matrices -/
def ensStates (ens : Ensemble d) : Fin ens.size → Matrix (Fin d) (Fin d) ℂ := fun i => (ens.state i).toM
/-- the prior probabilities of an exact ensemble as reals -/
def ensProbs (ens : Ensemble d) : Fin ens.size → ℝ := fun i => ((ens.prob i : Rat) : ℝ)
/-- first `k` matrices of a list as complex matrices -/
def mats (k : Nat) (M : List (EMat d d)) : Fin k → Matrix (Fin d) (Fin d) ℂ := fun i => (matAt M i).toM
/-- first `k` rationals of a list as reals -/
def rats (k : Nat) (p : List Rat) : Fin k → ℝ := fun i => ((ratAt p i : Rat) : ℝ)

/-! ## Minimum-error discrimination -/

/-- Weak duality: every measurement succeeds with probability at most `Re tr Y` for dual-feasible `Y`.
(No assumption on `ρ`, `p` or Hermiticity of `Y` is needed beyond the constraints themselves.) -/
theorem minErr_weak_duality (ρ : Fin k → Matrix (Fin d) (Fin d) ℂ) (p : Fin k → ℝ)
    (M : Fin k → Matrix (Fin d) (Fin d) ℂ) (Y : Matrix (Fin d) (Fin d) ℂ)
    (hM : IsPOVM M) (hY : MinErrDualFeasible ρ p Y) :
    successProb ρ p M ≤ Y.trace.re :=
  minErr_weak_duality_gen ρ p M Y hM.1 hM.2 hY

/-- If the primal checker accepts with value `lo`, the candidate is a POVM (with one element per state)
whose success probability is exactly `lo`; hence `lo` is a lower bound of the optimum. -/
theorem checkMinErrPrimal_sound (ens : Ensemble d) (M LM : List (EMat d d)) (lo : Rat)
    (h : checkMinErrPrimal ens M LM = some lo) :
    ens.probs.length = ens.size ∧ M.length = ens.size ∧
      IsPOVM (mats ens.size M) ∧
      successProb (ensStates ens) (ensProbs ens) (mats ens.size M) = (lo : ℝ) := by
  unfold checkMinErrPrimal at h
  split at h
  · next hl =>
    obtain ⟨h1, h2, -⟩ := (lens3Ok_iff _ _ _ _).mp hl
    obtain ⟨hp, hs, hv⟩ := checkMinErrPrimalFn_sound _ _ _ _ _ _ h
    exact ⟨h1, h2, ⟨hp, hs⟩, hv⟩
  · exact absurd h (by simp)

/-- If the dual checker accepts with value `hi`, every measurement on the ensemble succeeds with
probability at most `hi`. -/
theorem checkMinErrDual_sound (ens : Ensemble d) (Y : EMat d d) (LY : List (EMat d d)) (hi : Rat)
    (h : checkMinErrDual ens Y LY = some hi) :
    ∀ M' : Fin ens.size → Matrix (Fin d) (Fin d) ℂ, IsPOVM M' →
      successProb (ensStates ens) (ensProbs ens) M' ≤ (hi : ℝ) := by
  unfold checkMinErrDual at h
  split at h
  · next hl =>
    obtain ⟨hf, hv⟩ := checkMinErrDualFn_sound _ _ _ _ _ _ h
    intro M' hM'
    rw [← hv]
    exact minErr_weak_duality (ensStates ens) (ensProbs ens) M' Y.toM hM' hf
  · exact absurd h (by simp)

/-- Accepted primal and dual certificates bracket the optimum. -/
theorem minErr_lo_le_hi (ens : Ensemble d) (M LM : List (EMat d d)) (Y : EMat d d)
    (LY : List (EMat d d)) (lo hi : Rat)
    (hlo : checkMinErrPrimal ens M LM = some lo) (hhi : checkMinErrDual ens Y LY = some hi) :
    (lo : ℝ) ≤ (hi : ℝ) := by
  obtain ⟨-, -, hM, hv⟩ := checkMinErrPrimal_sound ens M LM lo hlo
  rw [← hv]
  exact checkMinErrDual_sound ens Y LY hi hhi _ hM

/-! ## Unambiguous discrimination (Gram form) -/

/-- Weak duality: `Σ_i p_i q_i ≤ Re tr(G Z)` for primal-feasible `q` and dual-feasible `Z`.
(`G` is arbitrary; `G − diag q ⪰ 0` already forces it to be Hermitian.) -/
theorem unamb_weak_duality (G Z : Matrix (Fin k) (Fin k) ℂ) (p q : Fin k → ℝ)
    (hq : UnambFeasible G q) (hZ : UnambDualFeasible p Z) :
    ∑ i, p i * q i ≤ (G * Z).trace.re :=
  unamb_weak_duality_gen G Z p q hq.1 hq.2 hZ.1 hZ.2

/-- If the primal checker accepts with value `lo`, then `q` is feasible and has objective value `lo`. -/
theorem checkUnambPrimal_sound (G : EMat k k) (p q : List Rat) (L : EMat k k) (lo : Rat)
    (h : checkUnambPrimal G p q L = some lo) :
    p.length = k ∧ q.length = k ∧ UnambFeasible G.toM (rats k q) ∧
      ∑ i, rats k p i * rats k q i = (lo : ℝ) := by
  unfold checkUnambPrimal at h
  split at h
  · next hl =>
    obtain ⟨h1, h2, -⟩ := (lens3Ok_iff _ _ _ _).mp hl
    obtain ⟨hq, hG, hv⟩ := checkUnambPrimalFn_sound _ _ _ _ _ h
    exact ⟨h1, h2, ⟨hq, hG⟩, hv⟩
  · exact absurd h (by simp)

/-- If the dual checker accepts with value `hi`, every feasible `q` has `Σ_i p_i q_i ≤ hi`. -/
theorem checkUnambDual_sound (G : EMat k k) (p : List Rat) (Z LZ : EMat k k) (hi : Rat)
    (h : checkUnambDual G p Z LZ = some hi) :
    ∀ q : Fin k → ℝ, UnambFeasible G.toM q → ∑ i, rats k p i * q i ≤ (hi : ℝ) := by
  unfold checkUnambDual at h
  split at h
  · next hl =>
    obtain ⟨hZ, hp, hv⟩ := checkUnambDualFn_sound _ _ _ _ _ h
    intro q hq
    rw [← hv]
    exact unamb_weak_duality G.toM Z.toM (rats k p) q hq ⟨hZ, hp⟩
  · exact absurd h (by simp)

/-- Accepted primal and dual certificates bracket the optimum. -/
theorem unamb_lo_le_hi (G : EMat k k) (p q : List Rat) (L Z LZ : EMat k k) (lo hi : Rat)
    (hlo : checkUnambPrimal G p q L = some lo) (hhi : checkUnambDual G p Z LZ = some hi) :
    (lo : ℝ) ≤ (hi : ℝ) := by
  obtain ⟨-, -, hq, hv⟩ := checkUnambPrimal_sound G p q L lo hlo
  rw [← hv]
  exact checkUnambDual_sound G p Z LZ hi hhi _ hq

/-! ## The checkers accept concrete instances

`|0⟩⟨0|` and `|+⟩⟨+|` with equal priors (optimum `(1 + 1/√2)/2 ≈ 0.8536`): an explicit rational POVM
with value `17/20` and a dual point with value `87/100`; and a complex Gram matrix with overlap
`3i/5` (optimum `2/5`, attained by both certificates). -/

section Examples

private def c2 (a b c d : QI) : EMat 2 2 := EMat.ofRows #[#[a, b], #[c, d]] 2 2
private def r2 (a b c d : Rat) : EMat 2 2 := c2 ⟨a, 0⟩ ⟨b, 0⟩ ⟨c, 0⟩ ⟨d, 0⟩

private def exEns : Ensemble 2 := ⟨[r2 1 0 0 0, r2 (1/2) (1/2) (1/2) (1/2)], [1/2, 1/2]⟩

example : checkMinErrPrimal exEns
    [r2 (17/20) (-7/20) (-7/20) (3/20), r2 (3/20) (7/20) (7/20) (17/20)]
    [r2 (23/25) 0 (-35/92) 0, r2 0 (35/92) 0 (23/25)] = some (17/20) := by decide +kernel

example : checkMinErrDual exEns (r2 (14/25) (1/8) (1/8) (31/100))
    [r2 (6/25) 0 (25/48) 0, r2 0 (-25/48) 0 (6/25)] = some (87/100) := by decide +kernel

private def exG : EMat 2 2 := c2 ⟨1, 0⟩ ⟨0, 3/5⟩ ⟨0, -3/5⟩ ⟨1, 0⟩

example : checkUnambPrimal exG [1/2, 1/2] [2/5, 2/5] (c2 ⟨3/4, 0⟩ ⟨0, 0⟩ ⟨0, -3/4⟩ ⟨0, 0⟩)
    = some (2/5) := by decide +kernel

example : checkUnambDual exG [1/2, 1/2] (c2 ⟨1/2, 0⟩ ⟨0, -1/2⟩ ⟨0, 1/2⟩ ⟨1/2, 0⟩)
    (c2 ⟨7/10, 0⟩ ⟨0, 0⟩ ⟨0, 7/10⟩ ⟨0, 0⟩) = some (2/5) := by decide +kernel

end Examples

/-! ## Elementary bounds on the minimum-error value -/

/-- the set of success probabilities attained by measurements on the ensemble `(ρ, p)`; the
minimum-error discrimination value is its supremum -/
def minErrValues (ρ : Fin k → Matrix (Fin d) (Fin d) ℂ) (p : Fin k → ℝ) : Set ℝ :=
  {v | ∃ M : Fin k → Matrix (Fin d) (Fin d) ℂ, IsPOVM M ∧ successProb ρ p M = v}

/-- the set of objective values of feasible points of the unambiguous (Gram-form) program -/
def unambValues (G : Matrix (Fin k) (Fin k) ℂ) (p : Fin k → ℝ) : Set ℝ :=
  {v | ∃ q : Fin k → ℝ, UnambFeasible G q ∧ ∑ i, p i * q i = v}

/-- The success probability of every measurement is non-negative (states PSD, priors `≥ 0`). -/
theorem minErr_nonneg (ρ : Fin k → Matrix (Fin d) (Fin d) ℂ) (p : Fin k → ℝ)
    (M : Fin k → Matrix (Fin d) (Fin d) ℂ) (hρ : ∀ i, (ρ i).PosSemidef) (hp : ∀ i, 0 ≤ p i)
    (hM : IsPOVM M) : 0 ≤ successProb ρ p M :=
  me_nonneg ρ p M hρ hp hM.1

/-- **At least the largest prior.**  For a unit-trace state `ρ_j` the measurement "always answer `j`"
(`M_j = 1`, the others `0`) is a POVM with success probability exactly `p_j`; hence the optimum is at least
every prior, in particular the largest one. -/
theorem minErr_ge_prior (ρ : Fin k → Matrix (Fin d) (Fin d) ℂ) (p : Fin k → ℝ) (j : Fin k)
    (hj : (ρ j).trace = 1) :
    ∃ M : Fin k → Matrix (Fin d) (Fin d) ℂ, IsPOVM M ∧ successProb ρ p M = p j := by
  refine ⟨meConstPovm j, ⟨meConstPovm_psd j, meConstPovm_sum j⟩, ?_⟩
  unfold successProb
  rw [meConstPovm_value, hj]
  simp

/-- Consequently every dual-feasible `Y` – in particular every upper bound `hi` accepted by the dual checker –
has `Re tr Y ≥ p_j` for every unit-trace state `ρ_j`. -/
theorem minErr_dual_ge_prior (ρ : Fin k → Matrix (Fin d) (Fin d) ℂ) (p : Fin k → ℝ) (j : Fin k)
    (hj : (ρ j).trace = 1) (Y : Matrix (Fin d) (Fin d) ℂ) (hY : MinErrDualFeasible ρ p Y) :
    p j ≤ Y.trace.re := by
  obtain ⟨M, hM, hv⟩ := minErr_ge_prior ρ p j hj
  rw [← hv]
  exact minErr_weak_duality ρ p M Y hM hY

/-- For PSD states and non-negative priors the average state `Y = Σ_j p_j ρ_j` is dual feasible. -/
theorem minErr_sum_dual_feasible (ρ : Fin k → Matrix (Fin d) (Fin d) ℂ) (p : Fin k → ℝ)
    (hρ : ∀ i, (ρ i).PosSemidef) (hp : ∀ i, 0 ≤ p i) :
    MinErrDualFeasible ρ p (∑ j, (p j : ℂ) • ρ j) :=
  me_sum_dual_feasible ρ p hρ hp

/-- **At most one.**  For density operators (PSD, unit trace) and a probability vector `p`, every measurement
succeeds with probability at most `1` (dual certificate `Y = Σ_j p_j ρ_j`, `tr Y = 1`). -/
theorem minErr_le_one (ρ : Fin k → Matrix (Fin d) (Fin d) ℂ) (p : Fin k → ℝ)
    (M : Fin k → Matrix (Fin d) (Fin d) ℂ) (hρ : ∀ i, (ρ i).PosSemidef)
    (htr : ∀ i, (ρ i).trace = 1) (hp : ∀ i, 0 ≤ p i) (hsum : ∑ i, p i = 1) (hM : IsPOVM M) :
    successProb ρ p M ≤ 1 := by
  have := me_le_sum_trace ρ p M hρ hp hM.1 hM.2
  simpa [successProb, htr, hsum] using this

/-! ## Mutually orthogonal states are perfectly distinguishable -/

/-- **Perfect discrimination with orthogonal projectors.**  Given Hermitian idempotents `Π_i` with
`Π_i Π_j = 0` (`i ≠ j`) and `ρ_i Π_i = ρ_i`, the measurement `M_i = Π_i` (`i ≠ j₀`),
`M_{j₀} = Π_{j₀} + (1 − Σ_l Π_l)` is a POVM with `ρ_i M_i = ρ_i`, so its success probability is
`Σ_i p_i Re tr ρ_i` (`= 1` for normalised states and priors). -/
theorem minErr_orthogonal_projectors (ρ Pr : Fin k → Matrix (Fin d) (Fin d) ℂ) (p : Fin k → ℝ)
    (j0 : Fin k) (hH : ∀ i, (Pr i).IsHermitian) (hI : ∀ i, Pr i * Pr i = Pr i)
    (hO : ∀ i j, i ≠ j → Pr i * Pr j = 0) (hρ : ∀ i, ρ i * Pr i = ρ i) :
    ∃ M : Fin k → Matrix (Fin d) (Fin d) ℂ, IsPOVM M ∧ (∀ i, ρ i * M i = ρ i) ∧
      successProb ρ p M = ∑ i, p i * (ρ i).trace.re := by
  refine ⟨meProjPovm Pr j0, ⟨meProjPovm_psd Pr j0 hH hI hO, meProjPovm_sum Pr j0⟩,
    meProjPovm_mul ρ Pr j0 hO hρ, ?_⟩
  unfold successProb
  exact Finset.sum_congr rfl fun i _ => by rw [meProjPovm_mul ρ Pr j0 hO hρ i]

/-- **Mutually orthogonal states: value 1.**  For `k ≥ 1` Hermitian states with `ρ_i ρ_j = 0` for `i ≠ j`
(the projectors are the support projectors `ρ_i ρ_i⁺`, obtained from the functional calculus) some POVM
has `ρ_i M_i = ρ_i` for every `i` and success probability `Σ_i p_i Re tr ρ_i`. -/
theorem minErr_orthogonal_attained (ρ : Fin k → Matrix (Fin d) (Fin d) ℂ) (p : Fin k → ℝ)
    (j0 : Fin k) (hH : ∀ i, (ρ i).IsHermitian) (hO : ∀ i j, i ≠ j → ρ i * ρ j = 0) :
    ∃ M : Fin k → Matrix (Fin d) (Fin d) ℂ, IsPOVM M ∧ (∀ i, ρ i * M i = ρ i) ∧
      successProb ρ p M = ∑ i, p i * (ρ i).trace.re :=
  minErr_orthogonal_projectors ρ (fun i => meSupp (ρ i)) p j0
    (fun i => meSupp_isHermitian (hH i)) (fun i => meSupp_idem (hH i))
    (fun i j hij => meSupp_mul_meSupp (hH i) (hO i j hij)) (fun i => mul_meSupp (hH i))

/-- **Mutually orthogonal density operators with a probability vector: the optimum is exactly 1** (it is
attained, and no measurement exceeds it). -/
theorem minErr_orthogonal_eq_one (ρ : Fin k → Matrix (Fin d) (Fin d) ℂ) (p : Fin k → ℝ)
    (hρ : ∀ i, (ρ i).PosSemidef) (htr : ∀ i, (ρ i).trace = 1) (hp : ∀ i, 0 ≤ p i)
    (hsum : ∑ i, p i = 1) (hO : ∀ i j, i ≠ j → ρ i * ρ j = 0) :
    IsGreatest (minErrValues ρ p) 1 := by
  constructor
  · have hk : 0 < k := by
      rcases Nat.eq_zero_or_pos k with h | h
      · subst h; simp at hsum
      · exact h
    obtain ⟨M, hM, -, hv⟩ := minErr_orthogonal_attained ρ p ⟨0, hk⟩ (fun i => (hρ i).isHermitian) hO
    refine ⟨M, hM, ?_⟩
    rw [hv]
    simp [htr, hsum]
  · rintro v ⟨M, hM, rfl⟩
    exact minErr_le_one ρ p M hρ htr hp hsum hM

/-! ## Invariance under a common unitary and under relabelling -/

/-- the ensemble or the measurement rotated by a common `U` -/
def rot (U : Matrix (Fin d) (Fin d) ℂ) (A : Fin k → Matrix (Fin d) (Fin d) ℂ) :
    Fin k → Matrix (Fin d) (Fin d) ℂ := fun i => U * A i * Uᴴ

/-- Conjugating the states and the measurement by the same unitary `U` maps POVMs to POVMs and preserves
the success probability. -/
theorem minErr_unitary_invariant (U : Matrix (Fin d) (Fin d) ℂ)
    (hU : U ∈ Matrix.unitaryGroup (Fin d) ℂ) (ρ : Fin k → Matrix (Fin d) (Fin d) ℂ) (p : Fin k → ℝ)
    (M : Fin k → Matrix (Fin d) (Fin d) ℂ) (hM : IsPOVM M) :
    IsPOVM (rot U M) ∧ successProb (rot U ρ) p (rot U M) = successProb ρ p M := by
  have h1 : Uᴴ * U = 1 := by
    simpa [Matrix.star_eq_conjTranspose] using Matrix.mem_unitaryGroup_iff'.mp hU
  have h2 : U * Uᴴ = 1 := by
    simpa [Matrix.star_eq_conjTranspose] using Matrix.mem_unitaryGroup_iff.mp hU
  refine ⟨⟨fun i => me_conj_psd U (M i) (hM.1 i), ?_⟩, ?_⟩
  · unfold rot
    rw [me_conj_sum, hM.2, Matrix.mul_one, h2]
  · unfold successProb rot
    exact Finset.sum_congr rfl fun i _ => by rw [me_conj_trace_mul U (ρ i) (M i) h1]

/-- **Unitary invariance of the value.**  The set of success probabilities attained by POVMs is the same for
the rotated ensemble `U ρ_i Uᴴ` and for the original one (`M ↦ U M Uᴴ` is a bijection of the feasible
set); in particular the optima agree. -/
theorem minErr_values_unitary_invariant (U : Matrix (Fin d) (Fin d) ℂ)
    (hU : U ∈ Matrix.unitaryGroup (Fin d) ℂ) (ρ : Fin k → Matrix (Fin d) (Fin d) ℂ) (p : Fin k → ℝ) :
    minErrValues (rot U ρ) p = minErrValues ρ p := by
  have h1 : Uᴴ * U = 1 := by
    simpa [Matrix.star_eq_conjTranspose] using Matrix.mem_unitaryGroup_iff'.mp hU
  have hU' : Uᴴ ∈ Matrix.unitaryGroup (Fin d) ℂ := by
    have := Unitary.star_mem hU
    simpa [Matrix.star_eq_conjTranspose] using this
  have hback : rot Uᴴ (rot U ρ) = ρ := by
    funext i
    exact me_conj_conj U (ρ i) h1
  ext v
  constructor
  · rintro ⟨M, hM, hv⟩
    obtain ⟨hM', hv'⟩ := minErr_unitary_invariant Uᴴ hU' (rot U ρ) p M hM
    rw [hback] at hv'
    exact ⟨rot Uᴴ M, hM', hv'.trans hv⟩
  · rintro ⟨M, hM, hv⟩
    obtain ⟨hM', hv'⟩ := minErr_unitary_invariant U hU ρ p M hM
    exact ⟨rot U M, hM', hv'.trans hv⟩

/-- Relabelling states, priors and measurement operators by the same permutation `σ` maps POVMs to POVMs
and preserves the success probability. -/
theorem minErr_relabel_invariant (σ : Equiv.Perm (Fin k)) (ρ : Fin k → Matrix (Fin d) (Fin d) ℂ)
    (p : Fin k → ℝ) (M : Fin k → Matrix (Fin d) (Fin d) ℂ) (hM : IsPOVM M) :
    IsPOVM (M ∘ σ) ∧ successProb (ρ ∘ σ) (p ∘ σ) (M ∘ σ) = successProb ρ p M := by
  refine ⟨⟨fun i => hM.1 (σ i), ?_⟩, ?_⟩
  · rw [← hM.2]
    exact Equiv.sum_comp σ M
  · unfold successProb
    exact Equiv.sum_comp σ fun i => p i * (ρ i * M i).trace.re

/-- **Relabelling invariance of the value.**  The set of attained success probabilities of the relabelled
ensemble `(ρ ∘ σ, p ∘ σ)` equals that of `(ρ, p)`; in particular the optima agree. -/
theorem minErr_values_relabel_invariant (σ : Equiv.Perm (Fin k))
    (ρ : Fin k → Matrix (Fin d) (Fin d) ℂ) (p : Fin k → ℝ) :
    minErrValues (ρ ∘ σ) (p ∘ σ) = minErrValues ρ p := by
  ext v
  constructor
  · rintro ⟨M, hM, hv⟩
    obtain ⟨hM', hv'⟩ := minErr_relabel_invariant σ⁻¹ (ρ ∘ σ) (p ∘ σ) M hM
    have e1 : (ρ ∘ σ) ∘ ⇑σ⁻¹ = ρ := by funext i; simp
    have e2 : (p ∘ σ) ∘ ⇑σ⁻¹ = p := by funext i; simp
    rw [e1, e2] at hv'
    exact ⟨M ∘ ⇑σ⁻¹, hM', hv'.trans hv⟩
  · rintro ⟨M, hM, hv⟩
    obtain ⟨hM', hv'⟩ := minErr_relabel_invariant σ ρ p M hM
    exact ⟨M ∘ σ, hM', hv'.trans hv⟩

/-! ## Pretty good measurement -/

/-- **The pretty good measurement is a POVM, so its success probability is below every dual bound.**  For PSD
states, priors `≥ 0` and a Hermitian `S` with `S (Σ_i p_i ρ_i) S = 1` (`S = (Σ_i p_i ρ_i)^{-1/2}`), the
operators `S (p_i ρ_i) S` form a POVM; its success probability is therefore a member of `minErrValues` and is
at most `Re tr Y` for every dual-feasible `Y` (in particular at most every accepted `hi`). -/
theorem pgm_le_dual (ρ : Fin k → Matrix (Fin d) (Fin d) ℂ) (p : Fin k → ℝ)
    (S : Matrix (Fin d) (Fin d) ℂ) (hρ : ∀ i, (ρ i).PosSemidef) (hp : ∀ i, 0 ≤ p i) (hS : Sᴴ = S)
    (hSPS : S * (∑ i, (p i : ℂ) • ρ i) * S = 1) :
    IsPOVM (fun i => S * ((p i : ℂ) • ρ i) * S) ∧
      ∀ Y, MinErrDualFeasible ρ p Y →
        successProb ρ p (fun i => S * ((p i : ℂ) • ρ i) * S) ≤ Y.trace.re := by
  have hP : IsPOVM (fun i => S * ((p i : ℂ) • ρ i) * S) :=
    ⟨fun i => me_pgm_psd ρ p S hρ hp hS i, by rw [me_pgm_sum, hSPS]⟩
  exact ⟨hP, fun Y hY => minErr_weak_duality ρ p _ Y hP hY⟩

/-! ## Two states: the Helstrom bound -/

/-- **Helstrom, upper half.**  For two states and any decomposition `p₀ρ₀ − p₁ρ₁ = P − Q` with `P, Q ⪰ 0`
the operator `Y = p₁ρ₁ + P` (`= p₀ρ₀ + Q`) is dual feasible; hence every measurement succeeds with
probability at most `p₁ Re tr ρ₁ + Re tr P`. -/
theorem helstrom_upper (ρ : Fin 2 → Matrix (Fin d) (Fin d) ℂ) (p : Fin 2 → ℝ)
    (P Q : Matrix (Fin d) (Fin d) ℂ) (hP : P.PosSemidef) (hQ : Q.PosSemidef)
    (hPQ : (p 0 : ℂ) • ρ 0 - (p 1 : ℂ) • ρ 1 = P - Q)
    (M : Fin 2 → Matrix (Fin d) (Fin d) ℂ) (hM : IsPOVM M) :
    successProb ρ p M ≤ p 1 * (ρ 1).trace.re + P.trace.re := by
  have hY : MinErrDualFeasible ρ p ((p 1 : ℂ) • ρ 1 + P) := by
    refine Fin.forall_fin_two.mpr ⟨?_, ?_⟩
    · have e : (p 1 : ℂ) • ρ 1 + P - (p 0 : ℂ) • ρ 0 = Q := by
        have : (p 0 : ℂ) • ρ 0 = (p 1 : ℂ) • ρ 1 + (P - Q) := by rw [← hPQ]; abel
        rw [this]; abel
      rw [e]; exact hQ
    · have e : (p 1 : ℂ) • ρ 1 + P - (p 1 : ℂ) • ρ 1 = P := by abel
      rw [e]; exact hP
  have := minErr_weak_duality ρ p M _ hM hY
  rwa [Matrix.trace_add, Complex.add_re, Matrix.trace_smul, smul_eq_mul, Complex.re_ofReal_mul] at this

/-- **Helstrom, lower half.**  For every test `0 ⪯ E ⪯ 1` the pair `(E, 1 − E)` is a POVM with success
probability `p₁ Re tr ρ₁ + Re tr((p₀ρ₀ − p₁ρ₁) E)`.  (With `E` the projector on the positive part `P` of
`p₀ρ₀ − p₁ρ₁` this is the bound of `helstrom_upper`.) -/
theorem helstrom_lower (ρ : Fin 2 → Matrix (Fin d) (Fin d) ℂ) (p : Fin 2 → ℝ)
    (E : Matrix (Fin d) (Fin d) ℂ) (hE : E.PosSemidef) (hE' : (1 - E).PosSemidef) :
    IsPOVM ![E, 1 - E] ∧
      successProb ρ p ![E, 1 - E]
        = p 1 * (ρ 1).trace.re + (((p 0 : ℂ) • ρ 0 - (p 1 : ℂ) • ρ 1) * E).trace.re := by
  refine ⟨⟨fun i => ?_, ?_⟩, ?_⟩
  · fin_cases i
    · exact hE
    · exact hE'
  · rw [Fin.sum_univ_two]; simp
  · unfold successProb
    rw [Fin.sum_univ_two]
    exact me_two_value (ρ 0) (ρ 1) E (p 0) (p 1)

/-- **Helstrom formula.**  For two Hermitian states the attainable success probabilities are exactly the
numbers `½(p₀ tr ρ₀ + p₁ tr ρ₁) + ½ Re tr(W (p₀ρ₀ − p₁ρ₁))` with `W` a contraction (`−1 ⪯ W ⪯ 1`; the
measurement is `((1+W)/2, (1−W)/2)`), so their least upper bound – the minimum-error value – is
`½(p₀ tr ρ₀ + p₁ tr ρ₁) + ½ ‖p₀ρ₀ − p₁ρ₁‖₁`, with the trace norm in the max form of C13
(`Toq.C13.traceNorm = Toq.Metrics.traceNormV`); for normalised states and priors: `½ + ½ ‖p₀ρ₀ − p₁ρ₁‖₁`. -/
theorem helstrom_isLUB (ρ : Fin 2 → Matrix (Fin d) (Fin d) ℂ) (p : Fin 2 → ℝ)
    (hρ : ∀ i, (ρ i).IsHermitian) :
    IsLUB (minErrValues ρ p)
      ((p 0 * (ρ 0).trace.re + p 1 * (ρ 1).trace.re) / 2
        + Toq.Metrics.traceNormV ((p 0 : ℂ) • ρ 0 - (p 1 : ℂ) • ρ 1) / 2) := by
  have hH : ((p 0 : ℂ) • ρ 0 - (p 1 : ℂ) • ρ 1).IsHermitian := by
    refine Matrix.IsHermitian.sub ?_ ?_
    · exact IsSelfAdjoint.smul (by simp [IsSelfAdjoint]) (hρ 0)
    · exact IsSelfAdjoint.smul (by simp [IsSelfAdjoint]) (hρ 1)
  constructor
  · rintro v ⟨M, hM, rfl⟩
    have hs : M 0 + M 1 = 1 := by rw [← hM.2, Fin.sum_univ_two]
    obtain ⟨e0, e1⟩ := me_two_povm_eq (M 0) (M 1) hs
    have hW : Toq.Metrics.IsContraction (M 0 - M 1) := me_two_contraction _ _ (hM.1 0) (hM.1 1) hs
    have hv : successProb ρ p M = (p 0 * (ρ 0).trace.re + p 1 * (ρ 1).trace.re) / 2
        + ((M 0 - M 1) * ((p 0 : ℂ) • ρ 0 - (p 1 : ℂ) • ρ 1)).trace.re / 2 := by
      have := me_two_value_contraction (ρ 0) (ρ 1) (M 0 - M 1) (p 0) (p 1)
      rw [← e0, ← e1] at this
      unfold successProb
      rw [Fin.sum_univ_two]
      exact this
    rw [hv]
    have := Toq.Metrics.le_traceNormV_gen hH hW
    linarith
  · intro b hb
    have h1 : ∀ x ∈ Toq.Metrics.tnSet ((p 0 : ℂ) • ρ 0 - (p 1 : ℂ) • ρ 1),
        x ≤ 2 * (b - (p 0 * (ρ 0).trace.re + p 1 * (ρ 1).trace.re) / 2) := by
      rintro x ⟨W, hW, rfl⟩
      have hmem : (p 0 * (ρ 0).trace.re + p 1 * (ρ 1).trace.re) / 2
          + (W * ((p 0 : ℂ) • ρ 0 - (p 1 : ℂ) • ρ 1)).trace.re / 2 ∈ minErrValues ρ p := by
        refine ⟨![(1 / 2 : ℂ) • (1 + W), (1 / 2 : ℂ) • (1 - W)], ⟨fun i => ?_, ?_⟩, ?_⟩
        · fin_cases i
          · exact me_half_psd hW.2
          · exact me_half_psd hW.1
        · rw [Fin.sum_univ_two]; exact me_half_sum W
        · unfold successProb
          rw [Fin.sum_univ_two]
          exact me_two_value_contraction (ρ 0) (ρ 1) W (p 0) (p 1)
      have := hb hmem
      linarith
    have := csSup_le (Toq.Metrics.tnSet_nonempty _) h1
    unfold Toq.Metrics.traceNormV
    linarith

/-- **Helstrom formula, normalised.**  For two unit-trace Hermitian states and priors `p₀ + p₁ = 1` the
minimum-error value (least upper bound of the attainable success probabilities) is `½ + ½ ‖p₀ρ₀ − p₁ρ₁‖₁`. -/
theorem helstrom_isLUB_normalised (ρ : Fin 2 → Matrix (Fin d) (Fin d) ℂ) (p : Fin 2 → ℝ)
    (hρ : ∀ i, (ρ i).IsHermitian) (htr : ∀ i, (ρ i).trace = 1) (hp : p 0 + p 1 = 1) :
    IsLUB (minErrValues ρ p)
      (1 / 2 + Toq.Metrics.traceNormV ((p 0 : ℂ) • ρ 0 - (p 1 : ℂ) • ρ 1) / 2) := by
  have := helstrom_isLUB ρ p hρ
  rwa [htr, htr, Complex.one_re, mul_one, mul_one, hp] at this

/-! ## Unambiguous discrimination (Gram form): dependent states, trivial bounds, two states -/

/-- `q = 0` is feasible for a PSD Gram matrix: the unambiguous value is `≥ 0`. -/
theorem unamb_zero_feasible (G : Matrix (Fin k) (Fin k) ℂ) (hG : G.PosSemidef) :
    UnambFeasible G (fun _ => 0) :=
  ⟨fun _ => le_refl _, by simpa using hG⟩

/-- For priors `≥ 0` the dual point `Z = diag p` shows `Σ_i p_i q_i ≤ Σ_i p_i Re G_ii` for every feasible `q`
(`= Σ_i p_i ≤ 1` for unit vectors). -/
theorem unamb_le_sum_prior (G : Matrix (Fin k) (Fin k) ℂ) (p q : Fin k → ℝ) (hp : ∀ i, 0 ≤ p i)
    (hq : UnambFeasible G q) : ∑ i, p i * q i ≤ ∑ i, p i * (G i i).re := by
  rw [← ua_trace_mul_diagonal]
  exact unamb_weak_duality G _ p q hq ⟨ua_diagonal_psd p hp, fun i => by simp⟩

/-- **Linearly dependent states cannot be identified unambiguously.**  If the Gram matrix has a kernel vector
`c` (`G c = 0`, i.e. `Σ_i c_i |ψ_i⟩ = 0`) with `c_j ≠ 0` – state `j` lies in the span of the others – then every
feasible `q` has `q_j = 0`. -/
theorem unamb_zero_of_dependent (G : Matrix (Fin k) (Fin k) ℂ) (q : Fin k → ℝ) (c : Fin k → ℂ)
    (hq : UnambFeasible G q) (hc : G *ᵥ c = 0) (j : Fin k) (hj : c j ≠ 0) : q j = 0 :=
  ua_zero_of_kernel G q c hq.1 hq.2 hc j hj

/-- The same for the Gram matrix `VᴴV` of the columns of `V`: a linear relation `V c = 0` with `c_j ≠ 0`
forces `q_j = 0`. -/
theorem unamb_zero_of_dependent_vectors (V : Matrix (Fin d) (Fin k) ℂ) (q : Fin k → ℝ)
    (c : Fin k → ℂ) (hq : UnambFeasible (Vᴴ * V) q) (hc : V *ᵥ c = 0) (j : Fin k) (hj : c j ≠ 0) :
    q j = 0 := by
  refine unamb_zero_of_dependent (Vᴴ * V) q c hq ?_ j hj
  rw [← Matrix.mulVec_mulVec, hc, Matrix.mulVec_zero]

/-- If every state is dependent on the others (for every `j` some kernel vector has `c_j ≠ 0`), the
unambiguous value vanishes: every feasible point has objective `0`. -/
theorem unamb_value_zero_of_all_dependent (G : Matrix (Fin k) (Fin k) ℂ) (p q : Fin k → ℝ)
    (hq : UnambFeasible G q) (hdep : ∀ j, ∃ c : Fin k → ℂ, G *ᵥ c = 0 ∧ c j ≠ 0) :
    ∑ i, p i * q i = 0 := by
  refine Finset.sum_eq_zero fun j _ => ?_
  obtain ⟨c, hc, hj⟩ := hdep j
  rw [unamb_zero_of_dependent G q c hq hc j hj, mul_zero]

/-- Gram matrix of two unit vectors with overlap `s = ⟨ψ|φ⟩` -/
def gram2 (s : ℂ) : Matrix (Fin 2) (Fin 2) ℂ := !![1, s; (starRingEnd ℂ) s, 1]

/-- **Two equiprobable pure states: value `1 − |⟨ψ|φ⟩|`.**  For the Gram matrix of two unit vectors with
overlap `s` (`|s| ≤ 1`) and priors `(½, ½)`: `q = (1 − |s|, 1 − |s|)` is feasible with objective `1 − |s|`, and the
dual point `Z = ½ [[1, −u], [−ū, 1]]`, `u = s/|s|`, shows that no feasible point does better. -/
theorem unamb_two_states (s : ℂ) (hs : ‖s‖ ≤ 1) :
    IsGreatest (unambValues (gram2 s) fun _ => 1 / 2) (1 - ‖s‖) := by
  constructor
  · refine ⟨fun _ => 1 - ‖s‖, ⟨fun _ => by linarith, ?_⟩, ?_⟩
    · have h := ua_psd_two ‖s‖ s (le_refl _)
      have e : gram2 s - Matrix.diagonal (fun _ : Fin 2 => (((1 - ‖s‖ : ℝ)) : ℂ))
          = !![(‖s‖ : ℂ), s; (starRingEnd ℂ) s, (‖s‖ : ℂ)] := by
        ext i j
        fin_cases i <;> fin_cases j <;> simp [gram2]
      rw [e]; exact h
    · rw [Fin.sum_univ_two]; ring
  · rintro v ⟨q, hq, rfl⟩
    have hb : ‖-(s / (‖s‖ : ℂ)) / 2‖ ≤ 1 / 2 := by
      have h2 : ‖(2 : ℂ)‖ = 2 := by simp
      rw [norm_div, norm_neg, h2]
      have := ua_norm_phase_le s
      linarith
    have hZ := ua_psd_two (1 / 2) (-(s / (‖s‖ : ℂ)) / 2) hb
    have hd : UnambDualFeasible (fun _ : Fin 2 => (1 / 2 : ℝ))
        !![((1 / 2 : ℝ) : ℂ), -(s / (‖s‖ : ℂ)) / 2;
          (starRingEnd ℂ) (-(s / (‖s‖ : ℂ)) / 2), ((1 / 2 : ℝ) : ℂ)] := by
      refine ⟨hZ, fun i => ?_⟩
      fin_cases i <;> simp
    have h := unamb_weak_duality (gram2 s) _ _ q hq hd
    refine h.trans (le_of_eq ?_)
    have h1 := ua_mul_conj_phase s
    have h2 : (starRingEnd ℂ) s * (s / (‖s‖ : ℂ)) = (‖s‖ : ℂ) := by
      have := congrArg (starRingEnd ℂ) h1
      simpa [mul_comm] using this
    have ht : ∀ u : ℂ, (gram2 s * !![((1 / 2 : ℝ) : ℂ), -u / 2;
        (starRingEnd ℂ) (-u / 2), ((1 / 2 : ℝ) : ℂ)]).trace
        = 1 - (s * (starRingEnd ℂ) u + (starRingEnd ℂ) s * u) / 2 := by
      intro u
      simp [gram2, Matrix.trace_fin_two, Complex.conj_ofNat]
      ring
    rw [ht, h1, h2]
    simp

/-- The same for two unit vectors given as the columns of `V` (Gram matrix `VᴴV`, overlap
`s = (VᴴV)₀₁ = ⟨ψ|φ⟩`; `|s| ≤ 1` is Cauchy–Schwarz): the unambiguous value for equal priors is `1 − |⟨ψ|φ⟩|`. -/
theorem unamb_two_unit_vectors (V : Matrix (Fin d) (Fin 2) ℂ) (h0 : (Vᴴ * V) 0 0 = 1)
    (h1 : (Vᴴ * V) 1 1 = 1) :
    IsGreatest (unambValues (Vᴴ * V) fun _ => 1 / 2) (1 - ‖(Vᴴ * V) 0 1‖) := by
  have hG : (Vᴴ * V).PosSemidef := Matrix.posSemidef_conjTranspose_mul_self V
  have e : Vᴴ * V = gram2 ((Vᴴ * V) 0 1) := ua_gram2_eq _ hG.isHermitian h0 h1
  have hs := ua_offdiag_le_one _ hG h0 h1
  have := unamb_two_states ((Vᴴ * V) 0 1) hs
  rwa [← e] at this

/-! ## The hypotheses are satisfiable -/

section Examples2

/-- hypotheses of `minErr_orthogonal_eq_one` / `helstrom_upper`: `|0⟩⟨0|`, `|1⟩⟨1|` with priors `(1/4, 3/4)`;
`p₀ρ₀ − p₁ρ₁ = P − Q` with `P = diag(1/4, 0)`, `Q = diag(0, 3/4)` -/
example : let ρ : Fin 2 → Matrix (Fin 2) (Fin 2) ℂ := fun i => Matrix.diagonal fun j => if j = i then 1 else 0
    let p : Fin 2 → ℝ := ![1 / 4, 3 / 4]
    (∀ i, (ρ i).PosSemidef) ∧ (∀ i, (ρ i).trace = 1) ∧ (∀ i, 0 ≤ p i) ∧ ∑ i, p i = 1 ∧
      (∀ i j, i ≠ j → ρ i * ρ j = 0) ∧
      (p 0 : ℂ) • ρ 0 - (p 1 : ℂ) • ρ 1
        = Matrix.diagonal ![(1 / 4 : ℂ), 0] - Matrix.diagonal ![(0 : ℂ), 3 / 4] := by
  intro ρ p
  refine ⟨fun i => Matrix.PosSemidef.diagonal fun j => ?_, fun i => ?_, fun i => ?_, ?_, ?_, ?_⟩
  · show (0 : ℂ) ≤ if j = i then 1 else 0
    split_ifs
    · exact zero_le_one
    · exact le_refl _
  · fin_cases i <;> simp [ρ, Matrix.trace]
  · fin_cases i <;> norm_num [p]
  · simp [p, Fin.sum_univ_two]; norm_num
  · intro i j hij
    fin_cases i <;> fin_cases j <;> simp_all [ρ, Matrix.diagonal_mul_diagonal]
  · ext a b
    fin_cases a <;> fin_cases b <;> simp [ρ, p]

/-- hypotheses of `unamb_value_zero_of_all_dependent`: `ψ₀ = ψ₁` (Gram matrix all ones, kernel vector `(1, −1)`) -/
example : let G : Matrix (Fin 2) (Fin 2) ℂ := !![1, 1; 1, 1]
    UnambFeasible G (fun _ => 0) ∧ ∀ j, ∃ c : Fin 2 → ℂ, G *ᵥ c = 0 ∧ c j ≠ 0 := by
  intro G
  constructor
  · refine unamb_zero_feasible G ?_
    have := ua_psd_two 1 1 (by simp)
    simpa [G] using this
  · intro j
    refine ⟨![1, -1], ?_, ?_⟩
    · ext i; fin_cases i <;> simp [G, Matrix.mulVec, dotProduct, Fin.sum_univ_two]
    · fin_cases j <;> simp

/-- hypothesis of `unamb_two_states`: overlap `3i/5` (value `2/5`, cf. the checker example above) -/
example : ‖(⟨0, 3 / 5⟩ : ℂ)‖ ≤ 1 := by
  have : (⟨0, 3 / 5⟩ : ℂ) = ((3 / 5 : ℝ) : ℂ) * Complex.I := by
    apply Complex.ext <;> simp
  rw [this, norm_mul, Complex.norm_I, Complex.norm_real]
  norm_num

end Examples2

/-! # Third part: the optimum is attained, primal = dual, optimality conditions, Eldar's reduction -/

/-! ## Minimum-error discrimination: attainment, strong duality, Holevo–Yuen–Kennedy–Lax -/

/-- the set of objective values `Re tr Y` of dual-feasible operators -/
def minErrDualValues (ρ : Fin k → Matrix (Fin d) (Fin d) ℂ) (p : Fin k → ℝ) : Set ℝ :=
  {v | ∃ Y : Matrix (Fin d) (Fin d) ℂ, MinErrDualFeasible ρ p Y ∧ Y.trace.re = v}

/-- `Γ = Σ_i p_i ρ_i M_i`, the Lagrange operator of a measurement -/
def lagrangeOp (ρ : Fin k → Matrix (Fin d) (Fin d) ℂ) (p : Fin k → ℝ)
    (M : Fin k → Matrix (Fin d) (Fin d) ℂ) : Matrix (Fin d) (Fin d) ℂ :=
  ∑ i, ((p i : ℂ) • ρ i) * M i

/-- `M` attains the minimum-error value: no measurement succeeds more often -/
def IsOptimalMeasurement (ρ : Fin k → Matrix (Fin d) (Fin d) ℂ) (p : Fin k → ℝ)
    (M : Fin k → Matrix (Fin d) (Fin d) ℂ) : Prop :=
  IsPOVM M ∧ ∀ M', IsPOVM M' → successProb ρ p M' ≤ successProb ρ p M

/-- The success probability is the generic linear functional `Σ_i Re tr(A_i M_i)` of `Toq.Proofs.DiscrimStrong` at the weighted
states `A_i = p_i ρ_i` (the bridge through which the index-type generic results – also usable for state exclusion with
`A_i = −p_i ρ_i` – are applied here). -/
theorem successProb_eq_meVal (ρ : Fin k → Matrix (Fin d) (Fin d) ℂ) (p : Fin k → ℝ)
    (M : Fin k → Matrix (Fin d) (Fin d) ℂ) :
    successProb ρ p M = meVal (fun i => (p i : ℂ) • ρ i) M := by
  unfold successProb meVal
  exact Finset.sum_congr rfl fun i _ => (re_trace_smul_mul (p i) (ρ i) (M i)).symm

/-- Real multiples of Hermitian states are Hermitian (the only property of `p_i ρ_i` the duality theorems use). -/
theorem weighted_hermitian (ρ : Fin k → Matrix (Fin d) (Fin d) ℂ) (p : Fin k → ℝ)
    (hρ : ∀ i, (ρ i).IsHermitian) (i : Fin k) : ((p i : ℂ) • ρ i)ᴴ = (p i : ℂ) • ρ i := by
  rw [conjTranspose_smul, (hρ i).eq]
  simp

/-- **The optimum is attained.**  For `k ≥ 1` states (no assumption on `ρ`, `p`) some measurement succeeds at least as
often as every other one: the minimum-error value is a maximum, not only a supremum. -/
theorem minErr_max_attained (ρ : Fin k → Matrix (Fin d) (Fin d) ℂ) (p : Fin k → ℝ) (hk : 0 < k) :
    ∃ M, IsOptimalMeasurement ρ p M := by
  have : Nonempty (Fin k) := ⟨⟨0, hk⟩⟩
  obtain ⟨M, hM, hopt⟩ := me_max_attained (fun i => (p i : ℂ) • ρ i)
  refine ⟨M, hM, fun M' hM' => ?_⟩
  rw [successProb_eq_meVal, successProb_eq_meVal]
  exact hopt M' hM'.1 hM'.2

/-- … hence the set of attainable success probabilities has a greatest element. -/
theorem minErr_values_has_greatest (ρ : Fin k → Matrix (Fin d) (Fin d) ℂ) (p : Fin k → ℝ) (hk : 0 < k) :
    ∃ v, IsGreatest (minErrValues ρ p) v := by
  obtain ⟨M, hM, hopt⟩ := minErr_max_attained ρ p hk
  refine ⟨successProb ρ p M, ⟨M, hM, rfl⟩, ?_⟩
  rintro v ⟨M', hM', rfl⟩
  exact hopt M' hM'

/-- **The duality gap.**  For operators `M_i` summing to the identity and any `Y`:
`Re tr Y − Σ_i p_i Re tr(ρ_i M_i) = Σ_i Re tr((Y − p_i ρ_i) M_i)`; for a measurement and a dual-feasible `Y` every term on the
right is non-negative. -/
theorem minErr_gap_eq (ρ : Fin k → Matrix (Fin d) (Fin d) ℂ) (p : Fin k → ℝ)
    (M : Fin k → Matrix (Fin d) (Fin d) ℂ) (Y : Matrix (Fin d) (Fin d) ℂ) (hsum : ∑ i, M i = 1) :
    Y.trace.re - successProb ρ p M = ∑ i, ((Y - (p i : ℂ) • ρ i) * M i).trace.re := by
  rw [successProb_eq_meVal]
  exact me_gap_eq _ M Y hsum

/-- **Primal and dual agree exactly under complementary slackness.**  For a measurement `M` and a dual-feasible `Y`: the
success probability of `M` equals `Re tr Y` iff `(Y − p_i ρ_i) M_i = 0` for every `i`. -/
theorem minErr_primal_eq_dual_iff (ρ : Fin k → Matrix (Fin d) (Fin d) ℂ) (p : Fin k → ℝ)
    (M : Fin k → Matrix (Fin d) (Fin d) ℂ) (Y : Matrix (Fin d) (Fin d) ℂ) (hM : IsPOVM M)
    (hY : MinErrDualFeasible ρ p Y) :
    successProb ρ p M = Y.trace.re ↔ ∀ i, (Y - (p i : ℂ) • ρ i) * M i = 0 := by
  rw [successProb_eq_meVal]
  exact me_zero_gap_iff _ M Y hM.1 hM.2 hY

/-- **Optimality certificate.**  If a measurement `M` and a dual-feasible `Y` satisfy complementary slackness, `Re tr Y` is
the greatest attainable success probability (attained by `M`) and the least dual value (attained by `Y`). -/
theorem minErr_optimal_of_slackness (ρ : Fin k → Matrix (Fin d) (Fin d) ℂ) (p : Fin k → ℝ)
    (M : Fin k → Matrix (Fin d) (Fin d) ℂ) (Y : Matrix (Fin d) (Fin d) ℂ) (hM : IsPOVM M)
    (hY : MinErrDualFeasible ρ p Y) (hs : ∀ i, (Y - (p i : ℂ) • ρ i) * M i = 0) :
    IsGreatest (minErrValues ρ p) Y.trace.re ∧ IsLeast (minErrDualValues ρ p) Y.trace.re := by
  have hv := (minErr_primal_eq_dual_iff ρ p M Y hM hY).mpr hs
  refine ⟨⟨⟨M, hM, hv⟩, ?_⟩, ⟨⟨Y, hY, rfl⟩, ?_⟩⟩
  · rintro v ⟨M', hM', rfl⟩
    exact minErr_weak_duality ρ p M' Y hM' hY
  · rintro v ⟨Y', hY', rfl⟩
    rw [← hv]
    exact minErr_weak_duality ρ p M Y' hM hY'

/-- **Strong duality with attainment on both sides.**  For `k ≥ 1` Hermitian states and real priors there are a measurement
`M` and a Hermitian dual-feasible operator `Y` (`Y ⪰ p_i ρ_i` for all `i`) with `Σ_i p_i Re tr(ρ_i M_i) = Re tr Y`.  (`Y` is the
Hermitian part of `Σ_i p_i ρ_i M_i` at a maximiser `M`; were `Y − p_j ρ_j` not PSD, moving `M` by
`M_i ↦ (1 − t xx†) M_i (1 − t xx†) + δ_ij t(2 − t‖x‖²) xx†` along a negative direction `x` would increase the value.) -/
theorem minErr_strong_duality (ρ : Fin k → Matrix (Fin d) (Fin d) ℂ) (p : Fin k → ℝ)
    (hρ : ∀ i, (ρ i).IsHermitian) (hk : 0 < k) :
    ∃ (M : Fin k → Matrix (Fin d) (Fin d) ℂ) (Y : Matrix (Fin d) (Fin d) ℂ),
      IsPOVM M ∧ Y.IsHermitian ∧ MinErrDualFeasible ρ p Y ∧ successProb ρ p M = Y.trace.re := by
  have : Nonempty (Fin k) := ⟨⟨0, hk⟩⟩
  obtain ⟨M, Y, hM, hYh, hY, hv⟩ := me_strong_duality_gen (fun i => (p i : ℂ) • ρ i) (weighted_hermitian ρ p hρ)
  exact ⟨M, Y, hM, hYh, hY, by rw [successProb_eq_meVal]; exact hv⟩

/-- **Primal and dual formulations agree.**  For `k ≥ 1` Hermitian states: one number `v` is at the same time the greatest
success probability attained by a measurement and the least value `Re tr Y` of a dual-feasible operator. -/
theorem minErr_primal_dual_agree (ρ : Fin k → Matrix (Fin d) (Fin d) ℂ) (p : Fin k → ℝ)
    (hρ : ∀ i, (ρ i).IsHermitian) (hk : 0 < k) :
    ∃ v, IsGreatest (minErrValues ρ p) v ∧ IsLeast (minErrDualValues ρ p) v := by
  obtain ⟨M, Y, hM, -, hY, hv⟩ := minErr_strong_duality ρ p hρ hk
  exact ⟨Y.trace.re, minErr_optimal_of_slackness ρ p M Y hM hY
    ((minErr_primal_eq_dual_iff ρ p M Y hM hY).mp hv)⟩

/-- Consequently the certified intervals can be arbitrarily tight: the supremum of the lower bounds `successProb ρ p M`
equals the infimum of the upper bounds `Re tr Y`. -/
theorem minErr_sSup_eq_sInf (ρ : Fin k → Matrix (Fin d) (Fin d) ℂ) (p : Fin k → ℝ)
    (hρ : ∀ i, (ρ i).IsHermitian) (hk : 0 < k) :
    sSup (minErrValues ρ p) = sInf (minErrDualValues ρ p) := by
  obtain ⟨v, h1, h2⟩ := minErr_primal_dual_agree ρ p hρ hk
  rw [h1.csSup_eq, h2.csInf_eq]

/-- **Holevo–Yuen–Kennedy–Lax conditions.**  For Hermitian states, a measurement `M` attains the minimum-error value **iff**
its Lagrange operator `Γ = Σ_i p_i ρ_i M_i` is Hermitian and `Γ ⪰ p_j ρ_j` for every `j`.  (Then `Γ` is the optimal dual
operator and `Re tr Γ` the value.) -/
theorem minErr_hykl_iff (ρ : Fin k → Matrix (Fin d) (Fin d) ℂ) (p : Fin k → ℝ)
    (hρ : ∀ i, (ρ i).IsHermitian) (M : Fin k → Matrix (Fin d) (Fin d) ℂ) (hM : IsPOVM M) :
    IsOptimalMeasurement ρ p M ↔
      (lagrangeOp ρ p M).IsHermitian ∧ MinErrDualFeasible ρ p (lagrangeOp ρ p M) := by
  have h := me_hykl_iff_gen (fun i => (p i : ℂ) • ρ i) M (weighted_hermitian ρ p hρ) hM.1 hM.2
  constructor
  · rintro ⟨-, hopt⟩
    refine h.mp fun M' h1 h2 => ?_
    rw [← successProb_eq_meVal, ← successProb_eq_meVal]
    exact hopt M' ⟨h1, h2⟩
  · intro hG
    refine ⟨hM, fun M' hM' => ?_⟩
    rw [successProb_eq_meVal, successProb_eq_meVal]
    exact h.mpr hG M' hM'.1 hM'.2

/-- At an optimal measurement the Lagrange operator is the optimal dual operator: `Re tr Γ` is the value and
`(Γ − p_i ρ_i) M_i = 0` for every `i`. -/
theorem minErr_lagrange_value (ρ : Fin k → Matrix (Fin d) (Fin d) ℂ) (p : Fin k → ℝ)
    (M : Fin k → Matrix (Fin d) (Fin d) ℂ) : (lagrangeOp ρ p M).trace.re = successProb ρ p M := by
  rw [successProb_eq_meVal, meVal_eq_trace_gamma]
  rfl

/-- **Barnum–Knill: the pretty good measurement is nearly optimal.**  For PSD states, priors `≥ 0` and PSD `S` with
`S (Σ_i p_i ρ_i) S = 1`: every measurement `M` has `P(M)² ≤ P_pgm · Re tr(Σ_i p_i ρ_i)` (`= P_pgm` for normalised ensembles),
where `P_pgm` is the success probability of `S (p_i ρ_i) S`.  With `pgm_le_dual`: `P_opt² ≤ P_pgm ≤ P_opt`. -/
theorem minErr_sq_le_pgm (ρ : Fin k → Matrix (Fin d) (Fin d) ℂ) (p : Fin k → ℝ)
    (S : Matrix (Fin d) (Fin d) ℂ) (hρ : ∀ i, (ρ i).PosSemidef) (hp : ∀ i, 0 ≤ p i) (hS : S.PosSemidef)
    (hSPS : S * (∑ i, (p i : ℂ) • ρ i) * S = 1) (M : Fin k → Matrix (Fin d) (Fin d) ℂ) (hM : IsPOVM M) :
    successProb ρ p M ^ 2
      ≤ successProb ρ p (fun i => S * ((p i : ℂ) • ρ i) * S) * (∑ i, p i * (ρ i).trace.re) := by
  have h := Toq.Rand.barnum_knill (fun i => (p i : ℂ) • ρ i) M S (fun i => me_psd_smul (hρ i) (hp i)) hS hSPS hM
  rw [successProb_eq_meVal, successProb_eq_meVal, ← me_trace_sum_smul]
  exact h

/-- Normalised form: for density operators and a probability vector, `P(M)² ≤ P_pgm` for every measurement `M`. -/
theorem minErr_sq_le_pgm_normalised (ρ : Fin k → Matrix (Fin d) (Fin d) ℂ) (p : Fin k → ℝ)
    (S : Matrix (Fin d) (Fin d) ℂ) (hρ : ∀ i, (ρ i).PosSemidef) (htr : ∀ i, (ρ i).trace = 1)
    (hp : ∀ i, 0 ≤ p i) (hsum : ∑ i, p i = 1) (hS : S.PosSemidef)
    (hSPS : S * (∑ i, (p i : ℂ) • ρ i) * S = 1) (M : Fin k → Matrix (Fin d) (Fin d) ℂ) (hM : IsPOVM M) :
    successProb ρ p M ^ 2 ≤ successProb ρ p (fun i => S * ((p i : ℂ) • ρ i) * S) := by
  have h := minErr_sq_le_pgm ρ p S hρ hp hS hSPS M hM
  have e : ∑ i, p i * (ρ i).trace.re = 1 := by simp [htr, hsum]
  rwa [e, mul_one] at h

/-- **The pretty good measurement exists and is nearly optimal.**  For density operators whose average state
`Σ_i p_i ρ_i` is positive definite (the states span the space) and a probability vector: the normaliser
`S = (Σ_i p_i ρ_i)^{-1/2}` exists, `S (p_i ρ_i) S` is a measurement, and with `v` the minimum-error value (greatest attained
success probability) `v² ≤ P_pgm ≤ v`. -/
theorem minErr_pgm_sandwich (ρ : Fin k → Matrix (Fin d) (Fin d) ℂ) (p : Fin k → ℝ)
    (hρ : ∀ i, (ρ i).PosSemidef) (htr : ∀ i, (ρ i).trace = 1) (hp : ∀ i, 0 ≤ p i) (hsum : ∑ i, p i = 1)
    (hP : (∑ i, (p i : ℂ) • ρ i).PosDef) (v : ℝ) (hv : IsGreatest (minErrValues ρ p) v) :
    ∃ S : Matrix (Fin d) (Fin d) ℂ, S.PosSemidef ∧ S * (∑ i, (p i : ℂ) • ρ i) * S = 1 ∧
      IsPOVM (fun i => S * ((p i : ℂ) • ρ i) * S) ∧
      v ^ 2 ≤ successProb ρ p (fun i => S * ((p i : ℂ) • ρ i) * S) ∧
      successProb ρ p (fun i => S * ((p i : ℂ) • ρ i) * S) ≤ v := by
  obtain ⟨S, hS, hSPS⟩ := Toq.Rand.inv_sqrt_exists _ hP
  obtain ⟨hpovm, -⟩ := pgm_le_dual ρ p S hρ hp hS.isHermitian.eq hSPS
  obtain ⟨M, hM, hMv⟩ := hv.1
  refine ⟨S, hS, hSPS, hpovm, ?_, hv.2 ⟨_, hpovm, rfl⟩⟩
  rw [← hMv]
  exact minErr_sq_le_pgm_normalised ρ p S hρ htr hp hsum hS hSPS M hM

/-- **Helstrom's bound is attained.**  For two Hermitian states the minimum-error value
`½(p₀ tr ρ₀ + p₁ tr ρ₁) + ½ ‖p₀ρ₀ − p₁ρ₁‖₁` is the success probability of some measurement (a greatest element, not only a
least upper bound). -/
theorem helstrom_isGreatest (ρ : Fin 2 → Matrix (Fin d) (Fin d) ℂ) (p : Fin 2 → ℝ)
    (hρ : ∀ i, (ρ i).IsHermitian) :
    IsGreatest (minErrValues ρ p)
      ((p 0 * (ρ 0).trace.re + p 1 * (ρ 1).trace.re) / 2
        + Toq.Metrics.traceNormV ((p 0 : ℂ) • ρ 0 - (p 1 : ℂ) • ρ 1) / 2) := by
  obtain ⟨v, hv⟩ := minErr_values_has_greatest ρ p (by norm_num : 0 < 2)
  have := (helstrom_isLUB ρ p hρ).unique hv.isLUB
  rwa [← this] at hv

/-- **Perfect discrimination iff mutual orthogonality.**  For density operators with strictly positive priors summing to
one: the minimum-error value is `1` (some measurement always identifies the state) **iff** `ρ_i ρ_j = 0` for all `i ≠ j`.
This is what `is_distinguishable` decides (up to its tolerance). -/
theorem minErr_eq_one_iff_orthogonal (ρ : Fin k → Matrix (Fin d) (Fin d) ℂ) (p : Fin k → ℝ)
    (hρ : ∀ i, (ρ i).PosSemidef) (htr : ∀ i, (ρ i).trace = 1) (hp : ∀ i, 0 < p i) (hsum : ∑ i, p i = 1) :
    IsGreatest (minErrValues ρ p) 1 ↔ ∀ i j, i ≠ j → ρ i * ρ j = 0 := by
  constructor
  · rintro ⟨⟨M, hM, hv⟩, -⟩ i j hij
    have hcomp : ∀ i, 1 - M i = ∑ l ∈ Finset.univ.erase i, M l := fun i => by
      rw [← hM.2]; exact me_sum_sub_eq_erase M i
    have hcpsd : ∀ i, (1 - M i).PosSemidef := fun i => by
      rw [hcomp i]; exact Matrix.posSemidef_sum _ fun l _ => hM.1 l
    -- Σ p_i tr(ρ_i (1 − M_i)) = 0
    have hterm : ∀ i, (ρ i * (1 - M i)).trace.re = 1 - (ρ i * M i).trace.re := fun i => by
      rw [Matrix.mul_sub, Matrix.mul_one, Matrix.trace_sub, Complex.sub_re, htr i, Complex.one_re]
    have hsum0 : ∑ i, p i * (ρ i * (1 - M i)).trace.re = 0 := by
      have h1 : ∀ i ∈ Finset.univ, p i * (ρ i * (1 - M i)).trace.re = p i - p i * (ρ i * M i).trace.re :=
        fun i _ => by rw [hterm i]; ring
      rw [Finset.sum_congr rfl h1, Finset.sum_sub_distrib, hsum]
      unfold successProb at hv
      linarith
    have hnn : ∀ i ∈ Finset.univ, 0 ≤ p i * (ρ i * (1 - M i)).trace.re :=
      fun i _ => mul_nonneg (hp i).le (psd_trace_mul_nonneg (hρ i) (hcpsd i))
    have hz : ∀ i, (ρ i * (1 - M i)).trace.re = 0 := fun i => by
      have := (Finset.sum_eq_zero_iff_of_nonneg hnn).mp hsum0 i (Finset.mem_univ i)
      rcases mul_eq_zero.mp this with h | h
      · exact absurd h (hp i).ne'
      · exact h
    have hkeep : ∀ i, ρ i * M i = ρ i := fun i => by
      have := me_psd_mul_eq_zero (hρ i) (hcpsd i) (hz i)
      rw [Matrix.mul_sub, Matrix.mul_one, sub_eq_zero] at this
      exact this.symm
    -- ρ_i M_j = 0 for j ≠ i
    have hoff : ρ i * M j = 0 := by
      have h1 : ∑ l ∈ Finset.univ.erase i, (ρ i * M l).trace.re = 0 := by
        have := hz i
        rwa [hcomp i, Finset.mul_sum, Matrix.trace_sum, Complex.re_sum] at this
      have h2 : ∀ l ∈ Finset.univ.erase i, 0 ≤ (ρ i * M l).trace.re :=
        fun l _ => psd_trace_mul_nonneg (hρ i) (hM.1 l)
      have h3 := (Finset.sum_eq_zero_iff_of_nonneg h2).mp h1 j
        (Finset.mem_erase.mpr ⟨Ne.symm hij, Finset.mem_univ j⟩)
      exact me_psd_mul_eq_zero (hρ i) (hM.1 j) h3
    have hj : M j * ρ j = ρ j := by
      have := congrArg Matrix.conjTranspose (hkeep j)
      rwa [Matrix.conjTranspose_mul, (hM.1 j).isHermitian.eq, (hρ j).isHermitian.eq] at this
    calc ρ i * ρ j = ρ i * (M j * ρ j) := by rw [hj]
      _ = (ρ i * M j) * ρ j := by rw [Matrix.mul_assoc]
      _ = 0 := by rw [hoff, Matrix.zero_mul]
  · intro hO
    exact minErr_orthogonal_eq_one ρ p hρ htr (fun i => (hp i).le) hsum hO

/-! ## Unambiguous discrimination: the Gram-form program is the measurement problem (Eldar's reduction) -/

/-- the pure state `|ψ_j⟩⟨ψ_j|` of the `j`-th column of `V` -/
def pureState (V : Matrix (Fin d) (Fin k) ℂ) (j : Fin k) : Matrix (Fin d) (Fin d) ℂ := uaPure V j

/-- `(M₀; M_1 … M_k)` is an unambiguous measurement for the columns `ψ_j` of `V`: PSD operators summing to the identity
(`M₀` = "inconclusive") such that outcome `i` never occurs on a state `ψ_j`, `j ≠ i` -/
def IsUnambMeasurement (V : Matrix (Fin d) (Fin k) ℂ) (M0 : Matrix (Fin d) (Fin d) ℂ)
    (M : Fin k → Matrix (Fin d) (Fin d) ℂ) : Prop :=
  M0.PosSemidef ∧ (∀ i, (M i).PosSemidef) ∧ M0 + ∑ i, M i = 1 ∧
    ∀ i j, j ≠ i → (pureState V j * M i).trace = 0

/-- success probabilities of unambiguous measurements: `Σ_i p_i ⟨ψ_i|M_i|ψ_i⟩` -/
def unambMeasurementValues (V : Matrix (Fin d) (Fin k) ℂ) (p : Fin k → ℝ) : Set ℝ :=
  {v | ∃ M0 M, IsUnambMeasurement V M0 M ∧ successProb (pureState V) p M = v}

/-- **Eldar's reduction, measurement ⇒ Gram program.**  The conclusive probabilities `q_i = ⟨ψ_i|M_i|ψ_i⟩` of an unambiguous
measurement form a feasible point of the Gram-form program (`q ≥ 0`, `VᴴV − diag q ⪰ 0`) with the same objective value. -/
theorem unamb_gram_of_measurement (V : Matrix (Fin d) (Fin k) ℂ) (M0 : Matrix (Fin d) (Fin d) ℂ)
    (M : Fin k → Matrix (Fin d) (Fin d) ℂ) (hM : IsUnambMeasurement V M0 M) :
    UnambFeasible (Vᴴ * V) (fun i => (pureState V i * M i).trace.re) ∧
      ∀ p : Fin k → ℝ, ∑ i, p i * (pureState V i * M i).trace.re = successProb (pureState V) p M := by
  obtain ⟨h0, hpsd, hsum, hz⟩ := hM
  have hrest : (1 - ∑ i, M i).PosSemidef := by
    have : 1 - ∑ i, M i = M0 := by rw [← hsum]; abel
    rw [this]; exact h0
  have hz' : ∀ i j, j ≠ i → (Vᴴ * M i * V) j j = 0 := fun i j hji => by
    rw [← ua_trace_pure_mul]; exact hz i j hji
  obtain ⟨h1, h2⟩ := ua_gram_of_povm V M hpsd hrest hz'
  have e : ∀ i, (pureState V i * M i).trace.re = ((Vᴴ * M i * V) i i).re := fun i => by
    unfold pureState; rw [ua_trace_pure_mul]
  refine ⟨⟨fun i => by show 0 ≤ (pureState V i * M i).trace.re; rw [e]; exact h1 i, ?_⟩, fun p => rfl⟩
  simp only [e]
  exact h2

/-- **Eldar's reduction, Gram program ⇒ measurement.**  Every feasible point `q` of the Gram-form program is realised by an
unambiguous measurement: with `W = V (VᴴV)⁺` (reciprocal states) and `M_i = q_i W e_i e_iᴴ Wᴴ`, `M₀ = 1 − Σ_i M_i`, one has
`⟨ψ_j|M_i|ψ_j⟩ = q_i δ_ij`.  No independence assumption: for dependent states feasibility forces the `q_i` to vanish where
needed. -/
theorem unamb_measurement_of_gram (V : Matrix (Fin d) (Fin k) ℂ) (q : Fin k → ℝ)
    (hq : UnambFeasible (Vᴴ * V) q) :
    ∃ M0 M, IsUnambMeasurement V M0 M ∧ ∀ i, (pureState V i * M i).trace = (q i : ℂ) := by
  refine ⟨1 - ∑ i, uaPovm V q i, uaPovm V q, ⟨uaPovm_rest_psd V q hq.2, uaPovm_psd V q hq.1, by abel, ?_⟩, ?_⟩
  · intro i j hji
    unfold pureState
    rw [ua_trace_pure_mul, uaPovm_sandwich V q hq.1 hq.2, if_neg (Ne.symm hji)]
  · intro i
    unfold pureState
    rw [ua_trace_pure_mul, uaPovm_sandwich V q hq.1 hq.2, if_pos rfl]

/-- **The Gram-form program toqito solves is unambiguous discrimination.**  For arbitrary state vectors (columns of `V`) and
priors, the objective values of feasible points of `max p·q, q ≥ 0, VᴴV − diag q ⪰ 0` are exactly the success probabilities of
unambiguous measurements. -/
theorem unamb_values_eq_measurement_values (V : Matrix (Fin d) (Fin k) ℂ) (p : Fin k → ℝ) :
    unambValues (Vᴴ * V) p = unambMeasurementValues V p := by
  ext v
  constructor
  · rintro ⟨q, hq, rfl⟩
    obtain ⟨M0, M, hM, hv⟩ := unamb_measurement_of_gram V q hq
    refine ⟨M0, M, hM, ?_⟩
    unfold successProb
    exact Finset.sum_congr rfl fun i _ => by rw [hv i, Complex.ofReal_re]
  · rintro ⟨M0, M, hM, rfl⟩
    obtain ⟨hf, hv⟩ := unamb_gram_of_measurement V M0 M hM
    exact ⟨_, hf, hv p⟩

/-- Merging the inconclusive outcome into outcome `j₀` turns an unambiguous measurement into an ordinary one that succeeds
at least as often (priors `≥ 0`). -/
theorem unamb_measurement_le_minErr (V : Matrix (Fin d) (Fin k) ℂ) (p : Fin k → ℝ) (hp : ∀ i, 0 ≤ p i)
    (j0 : Fin k) (M0 : Matrix (Fin d) (Fin d) ℂ) (M : Fin k → Matrix (Fin d) (Fin d) ℂ)
    (hM : IsUnambMeasurement V M0 M) :
    ∃ M', IsPOVM M' ∧ successProb (pureState V) p M ≤ successProb (pureState V) p M' := by
  obtain ⟨h0, hpsd, hsum, -⟩ := hM
  refine ⟨fun i => M i + if i = j0 then M0 else 0, ⟨fun i => ?_, ?_⟩, ?_⟩
  · show (M i + if i = j0 then M0 else 0).PosSemidef
    split
    · exact (hpsd i).add h0
    · simpa using hpsd i
  · rw [Finset.sum_add_distrib, Finset.sum_ite_eq' Finset.univ j0]
    simp only [Finset.mem_univ, if_true]
    rw [add_comm]; exact hsum
  · unfold successProb
    refine Finset.sum_le_sum fun i _ => mul_le_mul_of_nonneg_left ?_ (hp i)
    rw [Matrix.mul_add, Matrix.trace_add, Complex.add_re]
    have : 0 ≤ (pureState V i * if i = j0 then M0 else 0).trace.re := by
      split
      · exact psd_trace_mul_nonneg (uaPure_psd V i) h0
      · simp
    linarith

/-- **The unambiguous value never exceeds the minimum-error value.**  For `k ≥ 1` pure states with priors `≥ 0`, every
objective value of the Gram-form program is at most the success probability of some ordinary measurement on the states
`|ψ_i⟩⟨ψ_i|`. -/
theorem unamb_le_minErr (V : Matrix (Fin d) (Fin k) ℂ) (p : Fin k → ℝ) (hp : ∀ i, 0 ≤ p i) (hk : 0 < k)
    (u : ℝ) (hu : u ∈ unambValues (Vᴴ * V) p) : ∃ m ∈ minErrValues (pureState V) p, u ≤ m := by
  rw [unamb_values_eq_measurement_values] at hu
  obtain ⟨M0, M, hM, rfl⟩ := hu
  obtain ⟨M', hM', hle⟩ := unamb_measurement_le_minErr V p hp ⟨0, hk⟩ M0 M hM
  exact ⟨_, ⟨M', hM', rfl⟩, hle⟩

/-- Hence every minimum-error dual bound – in particular every `hi` accepted by `checkMinErrDual` – also bounds the
unambiguous program, and the greatest unambiguous value is at most the greatest minimum-error value. -/
theorem unamb_le_minErr_dual (V : Matrix (Fin d) (Fin k) ℂ) (p q : Fin k → ℝ) (hp : ∀ i, 0 ≤ p i) (hk : 0 < k)
    (hq : UnambFeasible (Vᴴ * V) q) (Y : Matrix (Fin d) (Fin d) ℂ)
    (hY : MinErrDualFeasible (pureState V) p Y) : ∑ i, p i * q i ≤ Y.trace.re := by
  obtain ⟨m, ⟨M, hM, rfl⟩, hle⟩ := unamb_le_minErr V p hp hk _ ⟨q, hq, rfl⟩
  exact hle.trans (minErr_weak_duality _ p M Y hM hY)

theorem unamb_greatest_le_minErr_greatest (V : Matrix (Fin d) (Fin k) ℂ) (p : Fin k → ℝ) (hp : ∀ i, 0 ≤ p i)
    (hk : 0 < k) (u m : ℝ) (hu : IsGreatest (unambValues (Vᴴ * V) p) u)
    (hm : IsGreatest (minErrValues (pureState V) p) m) : u ≤ m := by
  obtain ⟨m', hm', hle⟩ := unamb_le_minErr V p hp hk u hu.1
  exact hle.trans (hm.2 hm')

/-! ## The Gram-form program: gap formula and optimality conditions -/

/-- **The duality gap of the Gram-form program.**  `Re tr(G Z) − Σ_i p_i q_i = Re tr((G − diag q) Z) + Σ_i q_i (Re Z_ii − p_i)`;
for feasible `q`, `Z` both terms are non-negative. -/
theorem unamb_gap_eq (G Z : Matrix (Fin k) (Fin k) ℂ) (p q : Fin k → ℝ) :
    (G * Z).trace.re - ∑ i, p i * q i
      = ((G - Matrix.diagonal fun i => (q i : ℂ)) * Z).trace.re + ∑ i, q i * ((Z i i).re - p i) := by
  rw [Matrix.sub_mul, Matrix.trace_sub, Complex.sub_re, re_trace_diagonal_mul]
  simp only [mul_sub, Finset.sum_sub_distrib]
  have : ∑ i, q i * p i = ∑ i, p i * q i := Finset.sum_congr rfl fun i _ => mul_comm _ _
  rw [this]
  ring

/-- **Primal and dual of the Gram-form program agree exactly under the Karush–Kuhn–Tucker conditions**: for feasible `q` and
`Z`, `Σ_i p_i q_i = Re tr(G Z)` iff `(G − diag q) Z = 0` and `q_i (Re Z_ii − p_i) = 0` for every `i`; then `q` attains the
maximum and `Z` the minimum. -/
theorem unamb_primal_eq_dual_iff (G Z : Matrix (Fin k) (Fin k) ℂ) (p q : Fin k → ℝ)
    (hq : UnambFeasible G q) (hZ : UnambDualFeasible p Z) :
    ∑ i, p i * q i = (G * Z).trace.re ↔
      (G - Matrix.diagonal fun i => (q i : ℂ)) * Z = 0 ∧ ∀ i, q i * ((Z i i).re - p i) = 0 := by
  have hgap := unamb_gap_eq G Z p q
  have h1 : 0 ≤ ((G - Matrix.diagonal fun i => (q i : ℂ)) * Z).trace.re := psd_trace_mul_nonneg hq.2 hZ.1
  have h2 : ∀ i ∈ Finset.univ, 0 ≤ q i * ((Z i i).re - p i) :=
    fun i _ => mul_nonneg (hq.1 i) (by linarith [hZ.2 i])
  have h3 : 0 ≤ ∑ i, q i * ((Z i i).re - p i) := Finset.sum_nonneg h2
  constructor
  · intro h
    have ha : ((G - Matrix.diagonal fun i => (q i : ℂ)) * Z).trace.re = 0 := by linarith
    have hb : ∑ i, q i * ((Z i i).re - p i) = 0 := by linarith
    exact ⟨me_psd_mul_eq_zero hq.2 hZ.1 ha,
      fun i => (Finset.sum_eq_zero_iff_of_nonneg h2).mp hb i (Finset.mem_univ i)⟩
  · rintro ⟨ha, hb⟩
    rw [ha, Finset.sum_eq_zero fun i _ => hb i] at hgap
    simp at hgap
    linarith

/-- … and then both are optimal. -/
theorem unamb_optimal_of_kkt (G Z : Matrix (Fin k) (Fin k) ℂ) (p q : Fin k → ℝ)
    (hq : UnambFeasible G q) (hZ : UnambDualFeasible p Z)
    (h : (G - Matrix.diagonal fun i => (q i : ℂ)) * Z = 0 ∧ ∀ i, q i * ((Z i i).re - p i) = 0) :
    IsGreatest (unambValues G p) (G * Z).trace.re ∧
      ∀ Z', UnambDualFeasible p Z' → (G * Z).trace.re ≤ (G * Z').trace.re := by
  have hv := (unamb_primal_eq_dual_iff G Z p q hq hZ).mpr h
  refine ⟨⟨⟨q, hq, hv⟩, ?_⟩, fun Z' hZ' => ?_⟩
  · rintro v ⟨q', hq', rfl⟩
    exact unamb_weak_duality G Z p q' hq' hZ
  · rw [← hv]
    exact unamb_weak_duality G Z' p q hq hZ'

/-- **Orthonormal states are identified unambiguously with certainty**: for `G = 1` the greatest value of the Gram-form
program is `Σ_i p_i` (priors `≥ 0`). -/
theorem unamb_orthonormal (p : Fin k → ℝ) (hp : ∀ i, 0 ≤ p i) :
    IsGreatest (unambValues (1 : Matrix (Fin k) (Fin k) ℂ) p) (∑ i, p i) := by
  constructor
  · refine ⟨fun _ => 1, ⟨fun _ => zero_le_one, ?_⟩, by simp⟩
    have : (1 : Matrix (Fin k) (Fin k) ℂ) - Matrix.diagonal (fun _ : Fin k => ((1 : ℝ) : ℂ)) = 0 := by
      rw [Complex.ofReal_one, Matrix.diagonal_one, sub_self]
    rw [this]; exact Matrix.PosSemidef.zero
  · rintro v ⟨q, hq, rfl⟩
    have := unamb_le_sum_prior 1 p q hp hq
    simpa using this

/-! ## The Gram-form program: strong duality for linearly independent states -/

/-- the set of objective values `Re tr(G Z)` of dual-feasible points of the Gram-form program -/
def unambDualValues (G : Matrix (Fin k) (Fin k) ℂ) (p : Fin k → ℝ) : Set ℝ :=
  {v | ∃ Z : Matrix (Fin k) (Fin k) ℂ, UnambDualFeasible p Z ∧ (G * Z).trace.re = v}

/-- **Strong duality of the Gram-form program with attainment on both sides**, for a positive definite Gram matrix (linearly
independent states – the case in which unambiguous discrimination is possible at all) and strictly positive priors: some
primal-feasible `q` and some dual-feasible `Z` have `Σ_i p_i q_i = Re tr(G Z)`.  (`Z` is a minimiser of the dual – it exists because
`Re tr(G Z) ≥ λ_min(G) tr Z` makes the sublevel sets compact – and `q_i = Re (G Z)_ii / Re Z_ii`; `G − diag q ⪰ 0` is first-order
optimality of `Z` along `t ↦ (1 − tC)(Z + t xxᴴ)(1 − tC) + t²K` for suitable real diagonal `C`, `K`.) -/
theorem unamb_strong_duality (G : Matrix (Fin k) (Fin k) ℂ) (p : Fin k → ℝ) (hG : G.PosDef)
    (hp : ∀ i, 0 < p i) :
    ∃ (q : Fin k → ℝ) (Z : Matrix (Fin k) (Fin k) ℂ), UnambFeasible G q ∧ UnambDualFeasible p Z ∧
      ∑ i, p i * q i = (G * Z).trace.re := by
  obtain ⟨lam, hlam, hGl⟩ := ug_posDef_lower G hG
  obtain ⟨q, Z, h1, h2, h3, h4, h5⟩ := ug_strong_duality_gen G p lam hlam hGl hp
  exact ⟨q, Z, ⟨h1, h2⟩, ⟨h3, h4⟩, h5⟩

/-- The same with the hypothesis in the form `G ⪰ λ·1`, `λ > 0` (a lower bound on the smallest eigenvalue of the Gram matrix). -/
theorem unamb_strong_duality_of_lower (G : Matrix (Fin k) (Fin k) ℂ) (p : Fin k → ℝ) (lam : ℝ) (hlam : 0 < lam)
    (hGl : (G - (lam : ℂ) • (1 : Matrix (Fin k) (Fin k) ℂ)).PosSemidef) (hp : ∀ i, 0 < p i) :
    ∃ (q : Fin k → ℝ) (Z : Matrix (Fin k) (Fin k) ℂ), UnambFeasible G q ∧ UnambDualFeasible p Z ∧
      ∑ i, p i * q i = (G * Z).trace.re := by
  obtain ⟨q, Z, h1, h2, h3, h4, h5⟩ := ug_strong_duality_gen G p lam hlam hGl hp
  exact ⟨q, Z, ⟨h1, h2⟩, ⟨h3, h4⟩, h5⟩

/-- **Primal and dual of the unambiguous program agree**: for a positive definite Gram matrix and positive priors one number
is both the greatest primal value and the least dual value. -/
theorem unamb_primal_dual_agree (G : Matrix (Fin k) (Fin k) ℂ) (p : Fin k → ℝ) (hG : G.PosDef)
    (hp : ∀ i, 0 < p i) :
    ∃ v, IsGreatest (unambValues G p) v ∧ IsLeast (unambDualValues G p) v := by
  obtain ⟨q, Z, hq, hZ, hv⟩ := unamb_strong_duality G p hG hp
  refine ⟨(G * Z).trace.re, ⟨⟨q, hq, hv⟩, ?_⟩, ⟨⟨Z, hZ, rfl⟩, ?_⟩⟩
  · rintro v ⟨q', hq', rfl⟩
    exact unamb_weak_duality G Z p q' hq' hZ
  · rintro v ⟨Z', hZ', rfl⟩
    rw [← hv]
    exact unamb_weak_duality G Z' p q hq hZ'

/-- The same for the Gram matrix `VᴴV` of linearly independent state vectors (the columns of `V`: `V c = 0` only for
`c = 0`) – what `vectors_to_gram_matrix` builds (`sd_gram_and_density`). -/
theorem unamb_primal_dual_agree_vectors (V : Matrix (Fin d) (Fin k) ℂ) (p : Fin k → ℝ)
    (hV : Function.Injective V.mulVec) (hp : ∀ i, 0 < p i) :
    ∃ v, IsGreatest (unambValues (Vᴴ * V) p) v ∧ IsLeast (unambDualValues (Vᴴ * V) p) v :=
  unamb_primal_dual_agree _ p (Matrix.PosDef.conjTranspose_mul_self V hV) hp

/-- **No duality gap for any ensemble of pure states and any prior.**  For every PSD Gram matrix (linearly dependent states
included) and priors `≥ 0` (zeros included), the maximum of the primal Gram-form program is attained and equals the infimum of
the dual values `Re tr(G Z)`: primal and dual of the unambiguous program agree.  (Limit `ε → 0` of `unamb_strong_duality` for
`G + ε·1`, `p + ε`; the dual infimum need not be attained for dependent states.) -/
theorem unamb_no_gap (G : Matrix (Fin k) (Fin k) ℂ) (p : Fin k → ℝ) (hG : G.PosSemidef) (hp : ∀ i, 0 ≤ p i) :
    IsGreatest (unambValues G p) (sInf (unambDualValues G p)) ∧
      sSup (unambValues G p) = sInf (unambDualValues G p) := by
  have e : unambDualValues G p = ugDualValues G p := rfl
  obtain ⟨q, hq0, hq1, hv⟩ := ug_no_gap_gen G p hG hp
  have hgr : IsGreatest (unambValues G p) (sInf (unambDualValues G p)) := by
    rw [e]
    refine ⟨⟨q, ⟨hq0, hq1⟩, hv⟩, ?_⟩
    rintro v ⟨q', hq', rfl⟩
    refine le_csInf (ugDualValues_nonempty G p hp) ?_
    rintro w ⟨Z, hZ, rfl⟩
    exact unamb_weak_duality G Z p q' hq' hZ
  exact ⟨hgr, hgr.csSup_eq⟩

/-! ## Two pure states with arbitrary priors (Jaeger–Shimony) -/

/-- **Two pure states, one of them too unlikely to be worth identifying.**  For the Gram matrix of two unit vectors with
overlap `s` (`|s| ≤ 1`) and priors with `p₀ ≤ |s|² p₁`, the greatest value of the Gram-form program is `p₁ (1 − |s|²)`: it is
attained at `q = (0, 1 − |s|²)` (state 0 is never announced), and the dual point `Z = p₁ (−s, 1)(−s, 1)ᴴ` shows that no feasible
point does better. -/
theorem unamb_two_states_unbalanced (s : ℂ) (hs : ‖s‖ ≤ 1) (p : Fin 2 → ℝ) (hp1 : 0 ≤ p 1)
    (h : p 0 ≤ ‖s‖ ^ 2 * p 1) : IsGreatest (unambValues (gram2 s) p) (p 1 * (1 - ‖s‖ ^ 2)) := by
  have hs2 : ‖s‖ ^ 2 ≤ 1 := by nlinarith [norm_nonneg s]
  constructor
  · refine ⟨![0, 1 - ‖s‖ ^ 2], ⟨fun i => ?_, ?_⟩, ?_⟩
    · fin_cases i
      · simp
      · simpa using hs2
    · have e : gram2 s - Matrix.diagonal (fun i : Fin 2 => (((![0, 1 - ‖s‖ ^ 2] : Fin 2 → ℝ) i : ℝ) : ℂ))
          = !![1, s; (starRingEnd ℂ) s, ((‖s‖ ^ 2 : ℝ) : ℂ)] := by
        ext i j
        fin_cases i <;> fin_cases j <;> simp [gram2]
      rw [e]; exact ua_two_rank_one_a s
    · rw [Fin.sum_univ_two]; simp
  · rintro v ⟨q, hq, rfl⟩
    have hZ0 := ua_two_smul_psd (ua_two_rank_one_b (-s)) (p 1) hp1
    have hd : UnambDualFeasible p (((p 1 : ℝ) : ℂ) • !![((‖-s‖ ^ 2 : ℝ) : ℂ), -s; (starRingEnd ℂ) (-s), 1]) := by
      refine ⟨hZ0, fun i => ?_⟩
      fin_cases i
      · have e : ((‖s‖ : ℂ) ^ 2).re = ‖s‖ ^ 2 := by rw [← Complex.ofReal_pow, Complex.ofReal_re]
        simpa [e, mul_comm] using h
      · simp
    have hw := unamb_weak_duality (gram2 s) _ p q hq hd
    refine hw.trans (le_of_eq ?_)
    rw [Matrix.mul_smul, Matrix.trace_smul, smul_eq_mul, Complex.re_ofReal_mul]
    congr 1
    unfold gram2
    have hc : (starRingEnd ℂ) s * s = ((‖s‖ ^ 2 : ℝ) : ℂ) := by rw [mul_comm]; exact ua_two_mul_conj s
    rw [ua_two_trace]
    simp only [map_neg, mul_neg, ua_two_mul_conj, hc, norm_neg]
    have e : ∀ x : ℝ, ((x : ℂ) + 1 + (-(x : ℂ) + -(x : ℂ))) = ((1 - x : ℝ) : ℂ) := by
      intro x; push_cast; ring
    rw [e, Complex.ofReal_re]

/-- The mirror case `p₁ ≤ |s|² p₀`: the value is `p₀ (1 − |s|²)`. -/
theorem unamb_two_states_unbalanced_swap (s : ℂ) (hs : ‖s‖ ≤ 1) (p : Fin 2 → ℝ) (hp0 : 0 ≤ p 0)
    (h : p 1 ≤ ‖s‖ ^ 2 * p 0) : IsGreatest (unambValues (gram2 s) p) (p 0 * (1 - ‖s‖ ^ 2)) := by
  have hs2 : ‖s‖ ^ 2 ≤ 1 := by nlinarith [norm_nonneg s]
  constructor
  · refine ⟨![1 - ‖s‖ ^ 2, 0], ⟨fun i => ?_, ?_⟩, ?_⟩
    · fin_cases i
      · simpa using hs2
      · simp
    · have e : gram2 s - Matrix.diagonal (fun i : Fin 2 => (((![1 - ‖s‖ ^ 2, 0] : Fin 2 → ℝ) i : ℝ) : ℂ))
          = !![((‖s‖ ^ 2 : ℝ) : ℂ), s; (starRingEnd ℂ) s, 1] := by
        ext i j
        fin_cases i <;> fin_cases j <;> simp [gram2]
      rw [e]; exact ua_two_rank_one_b s
    · rw [Fin.sum_univ_two]; simp
  · rintro v ⟨q, hq, rfl⟩
    have hZ0 := ua_two_smul_psd (ua_two_rank_one_a (-s)) (p 0) hp0
    have hd : UnambDualFeasible p (((p 0 : ℝ) : ℂ) • !![1, -s; (starRingEnd ℂ) (-s), ((‖-s‖ ^ 2 : ℝ) : ℂ)]) := by
      refine ⟨hZ0, fun i => ?_⟩
      fin_cases i
      · simp
      · have e : ((‖s‖ : ℂ) ^ 2).re = ‖s‖ ^ 2 := by rw [← Complex.ofReal_pow, Complex.ofReal_re]
        simpa [e, mul_comm] using h
    have hw := unamb_weak_duality (gram2 s) _ p q hq hd
    refine hw.trans (le_of_eq ?_)
    rw [Matrix.mul_smul, Matrix.trace_smul, smul_eq_mul, Complex.re_ofReal_mul]
    congr 1
    unfold gram2
    have hc : (starRingEnd ℂ) s * s = ((‖s‖ ^ 2 : ℝ) : ℂ) := by rw [mul_comm]; exact ua_two_mul_conj s
    rw [ua_two_trace]
    simp only [map_neg, mul_neg, ua_two_mul_conj, hc, norm_neg]
    have e : ∀ x : ℝ, (1 + (x : ℂ) + (-(x : ℂ) + -(x : ℂ))) = ((1 - x : ℝ) : ℂ) := by
      intro x; push_cast; ring
    rw [e, Complex.ofReal_re]

/-- **Two pure states, both worth identifying (Jaeger–Shimony).**  For priors `p₀ = a²`, `p₁ = b²` (`a, b > 0`) and overlap `s`
with `|s| b ≤ a` and `|s| a ≤ b` (i.e. `|s| ≤ √(p₀/p₁)` and `|s| ≤ √(p₁/p₀)`), the greatest value of the Gram-form program is
`p₀ + p₁ − 2 |s| √(p₀ p₁) = a² + b² − 2|s|ab`, attained at `q = (1 − |s| b/a, 1 − |s| a/b)`; the dual point is
`Z = (a, −ūb)(a, −ūb)ᴴ`, `u = s/|s|`.  For `a = b` this is `unamb_two_states`. -/
theorem unamb_two_states_balanced (s : ℂ) (a b : ℝ) (ha : 0 < a) (hb : 0 < b) (h0 : ‖s‖ * b ≤ a)
    (h1 : ‖s‖ * a ≤ b) :
    IsGreatest (unambValues (gram2 s) ![a ^ 2, b ^ 2]) (a ^ 2 + b ^ 2 - 2 * ‖s‖ * a * b) := by
  have hab : 0 < a * b := mul_pos ha hb
  constructor
  · refine ⟨![1 - ‖s‖ * b / a, 1 - ‖s‖ * a / b], ⟨fun i => ?_, ?_⟩, ?_⟩
    · fin_cases i
      · show 0 ≤ 1 - ‖s‖ * b / a
        rw [sub_nonneg, div_le_one ha]; exact h0
      · show 0 ≤ 1 - ‖s‖ * a / b
        rw [sub_nonneg, div_le_one hb]; exact h1
    · have hbase := ua_two_congr (‖s‖ : ℂ) (‖s‖ : ℂ) s b a (by
        have := ua_psd_two ‖s‖ s (le_refl _)
        simpa using this)
      have hsc := ua_two_smul_psd hbase (1 / (a * b)) (by positivity)
      have e : gram2 s - Matrix.diagonal (fun i : Fin 2 => (((![1 - ‖s‖ * b / a, 1 - ‖s‖ * a / b] : Fin 2 → ℝ) i : ℝ) : ℂ))
          = (((1 / (a * b) : ℝ)) : ℂ) • !![(b : ℂ) * b * (‖s‖ : ℂ), (b : ℂ) * a * s;
              (starRingEnd ℂ) ((b : ℂ) * a * s), (a : ℂ) * a * (‖s‖ : ℂ)] := by
        have ha' : (a : ℂ) ≠ 0 := by exact_mod_cast ha.ne'
        have hb' : (b : ℂ) ≠ 0 := by exact_mod_cast hb.ne'
        ext i j
        fin_cases i <;> fin_cases j <;> simp [gram2] <;> field_simp
      rw [e]; exact hsc
    · rw [Fin.sum_univ_two]
      simp only [Matrix.cons_val_zero, Matrix.cons_val_one]
      field_simp
      ring
  · rintro v ⟨q, hq, rfl⟩
    have hu : ‖-(s / (‖s‖ : ℂ))‖ ≤ 1 := by rw [norm_neg]; exact ua_norm_phase_le s
    have hbase := ua_two_congr 1 1 (-(s / (‖s‖ : ℂ))) a b (by
      have := ua_psd_two 1 (-(s / (‖s‖ : ℂ))) hu
      simpa using this)
    have hd : UnambDualFeasible ![a ^ 2, b ^ 2]
        !![(a : ℂ) * a * 1, (a : ℂ) * b * -(s / (‖s‖ : ℂ));
          (starRingEnd ℂ) ((a : ℂ) * b * -(s / (‖s‖ : ℂ))), (b : ℂ) * b * 1] := by
      refine ⟨hbase, fun i => ?_⟩
      fin_cases i
      · simp [sq]
      · simp [sq]
    have hw := unamb_weak_duality (gram2 s) _ _ q hq hd
    refine hw.trans (le_of_eq ?_)
    have h1' := ua_mul_conj_phase s
    have h2' : (starRingEnd ℂ) s * (s / (‖s‖ : ℂ)) = (‖s‖ : ℂ) := by
      have := congrArg (starRingEnd ℂ) h1'
      simpa [mul_comm] using this
    unfold gram2
    rw [ua_two_trace]
    have e1 : s * (starRingEnd ℂ) ((a : ℂ) * b * -(s / (‖s‖ : ℂ))) = -((a : ℂ) * b * (‖s‖ : ℂ)) := by
      rw [map_mul, map_mul, map_neg, Complex.conj_ofReal, Complex.conj_ofReal]
      calc s * ((a : ℂ) * b * -(starRingEnd ℂ) (s / (‖s‖ : ℂ)))
          = -((a : ℂ) * b * (s * (starRingEnd ℂ) (s / (‖s‖ : ℂ)))) := by ring
        _ = _ := by rw [h1']
    have e2 : (starRingEnd ℂ) s * ((a : ℂ) * b * -(s / (‖s‖ : ℂ))) = -((a : ℂ) * b * (‖s‖ : ℂ)) := by
      calc (starRingEnd ℂ) s * ((a : ℂ) * b * -(s / (‖s‖ : ℂ)))
          = -((a : ℂ) * b * ((starRingEnd ℂ) s * (s / (‖s‖ : ℂ)))) := by ring
        _ = _ := by rw [h2']
    rw [e1, e2]
    simp
    ring

/-- The same in terms of the priors: for `p₀, p₁ > 0` with `|s|² p₁ ≤ p₀` and `|s|² p₀ ≤ p₁` the unambiguous value is
`p₀ + p₁ − 2 |s| √(p₀ p₁)`.  Together with `unamb_two_states_unbalanced` / `unamb_two_states_unbalanced_swap` this gives the value
for every pair of pure states and every prior, and in all three cases primal and dual optimum coincide. -/
theorem unamb_two_states_jaeger_shimony (s : ℂ) (p0 p1 : ℝ) (hp0 : 0 < p0) (hp1 : 0 < p1)
    (h0 : ‖s‖ ^ 2 * p1 ≤ p0) (h1 : ‖s‖ ^ 2 * p0 ≤ p1) :
    IsGreatest (unambValues (gram2 s) ![p0, p1]) (p0 + p1 - 2 * ‖s‖ * Real.sqrt (p0 * p1)) := by
  have ha : 0 < Real.sqrt p0 := Real.sqrt_pos.mpr hp0
  have hb : 0 < Real.sqrt p1 := Real.sqrt_pos.mpr hp1
  have ea : Real.sqrt p0 ^ 2 = p0 := Real.sq_sqrt hp0.le
  have eb : Real.sqrt p1 ^ 2 = p1 := Real.sq_sqrt hp1.le
  have hle : ∀ x y : ℝ, 0 < x → 0 < y → ‖s‖ ^ 2 * y ^ 2 ≤ x ^ 2 → ‖s‖ * y ≤ x := by
    intro x y hx hy hxy
    have : (‖s‖ * y) ^ 2 ≤ x ^ 2 := by rw [mul_pow]; exact hxy
    exact (pow_le_pow_iff_left₀ (by positivity) hx.le (by norm_num)).mp this
  have := unamb_two_states_balanced s (Real.sqrt p0) (Real.sqrt p1) ha hb
    (hle _ _ ha hb (by rw [ea, eb]; exact h0)) (hle _ _ hb ha (by rw [ea, eb]; exact h1))
  rw [ea, eb] at this
  rw [Real.sqrt_mul hp0.le]
  convert this using 2
  ring

/-! ## The hypotheses of the third part are satisfiable -/

section Examples3

/-- `minErr_hykl_iff` on a concrete non-trivial instance: for `|0⟩⟨0|`, `|1⟩⟨1|` with priors `(1/4, 3/4)` the projective
measurement `(|0⟩⟨0|, |1⟩⟨1|)` has Lagrange operator `diag(1/4, 3/4)`, which is Hermitian and dominates both `p_i ρ_i`. -/
example : let ρ : Fin 2 → Matrix (Fin 2) (Fin 2) ℂ := fun i => Matrix.diagonal fun j => if j = i then 1 else 0
    let p : Fin 2 → ℝ := ![1 / 4, 3 / 4]
    lagrangeOp ρ p ρ = Matrix.diagonal ![(1 / 4 : ℂ), 3 / 4] := by
  intro ρ p
  ext a b
  fin_cases a <;> fin_cases b <;> simp [lagrangeOp, ρ, p, Fin.sum_univ_two, Matrix.diagonal_mul_diagonal]

/-- hypotheses of `unamb_measurement_of_gram` / `unamb_le_minErr`: the unit vectors `(1, 0)`, `(3/5, 4/5)` (overlap `3/5`) with
`q = (2/5, 2/5)`: `VᴴV − diag q = [[3/5, 3/5], [3/5, 3/5]]` is PSD -/
example : let V : Matrix (Fin 2) (Fin 2) ℂ := !![1, 3 / 5; 0, 4 / 5]
    UnambFeasible (Vᴴ * V) (fun _ => 2 / 5) := by
  intro V
  refine ⟨fun _ => by norm_num, ?_⟩
  have e : Vᴴ * V - Matrix.diagonal (fun _ : Fin 2 => (((2 / 5 : ℝ)) : ℂ))
      = (!![((3 / 5 : ℝ) : ℂ), ((3 / 5 : ℝ) : ℂ); (starRingEnd ℂ) ((3 / 5 : ℝ) : ℂ), ((3 / 5 : ℝ) : ℂ)] :
          Matrix (Fin 2) (Fin 2) ℂ) := by
    ext a b
    fin_cases a <;> fin_cases b <;> simp [V, Matrix.mul_apply, Fin.sum_univ_two, Complex.conj_ofNat] <;> norm_num
  rw [e]
  refine ua_psd_two (3 / 5) ((3 / 5 : ℝ) : ℂ) ?_
  rw [Complex.norm_real]
  norm_num

/-- hypothesis of `unamb_strong_duality_of_lower`: the Gram matrix with overlap `3i/5` dominates `2/5 · 1`
(`G − 2/5 = [[3/5, s], [s̄, 3/5]]`, `|s| = 3/5`) -/
example : (gram2 (⟨0, 3 / 5⟩ : ℂ) - (((2 / 5 : ℝ)) : ℂ) • (1 : Matrix (Fin 2) (Fin 2) ℂ)).PosSemidef := by
  have hn : ‖(⟨0, 3 / 5⟩ : ℂ)‖ ≤ 3 / 5 := by
    have : (⟨0, 3 / 5⟩ : ℂ) = ((3 / 5 : ℝ) : ℂ) * Complex.I := by
      apply Complex.ext <;> simp
    rw [this, norm_mul, Complex.norm_I, Complex.norm_real]
    norm_num
  have h := ua_psd_two (3 / 5) (⟨0, 3 / 5⟩ : ℂ) hn
  have e : gram2 (⟨0, 3 / 5⟩ : ℂ) - (((2 / 5 : ℝ)) : ℂ) • (1 : Matrix (Fin 2) (Fin 2) ℂ)
      = !![((3 / 5 : ℝ) : ℂ), (⟨0, 3 / 5⟩ : ℂ); (starRingEnd ℂ) (⟨0, 3 / 5⟩ : ℂ), ((3 / 5 : ℝ) : ℂ)] := by
    ext i j
    fin_cases i <;> fin_cases j <;> simp [gram2] <;> norm_num
  rw [e]; exact h

end Examples3

/-! # Fourth part: the code around the solver call (`Toq.Model.DiscrimArgs`) -/

/-- **`vectors_to_gram_matrix` and `to_density_matrix` describe the same states.**  For vector arguments `ψ_j` (columns of
`V = sdVecs k vs`) the Gram matrix the unambiguous programs use denotes `VᴴV`, and the density operator the minimum-error
programs use for the `j`-th state denotes `|ψ_j⟩⟨ψ_j|` – exactly (whatever rounding the normalisation of the float vector
suffered), PSD, so that all theorems above about `Vᴴ * V` and `pureState V` apply to what the code builds. -/
theorem sd_gram_and_density (vs : Fin k → EMat d 1) :
    (sdGramFn k vs).toM = (sdVecs k vs)ᴴ * sdVecs k vs ∧
      (∀ j, (sdToDensityVec (vs j)).toM = pureState (sdVecs k vs) j) ∧
      ∀ j, (sdToDensityVec (vs j)).toM.PosSemidef :=
  ⟨toM_sdGramFn k vs, fun j => toM_sdToDensityVec k vs j, fun j => sdToDensityVec_psd' (vs j)⟩

/-- **Certified form of "unambiguous `≤` minimum-error" on the code's own data.**  For vector arguments and priors `≥ 0`: a
lower bound `lo` accepted by the unambiguous primal checker on `vectors_to_gram_matrix(vectors)` never exceeds an upper
bound `hi` accepted by the minimum-error dual checker on `[to_density_matrix(v) …]`. -/
theorem sd_unamb_le_minErr_certified (vs : Fin k → EMat d 1) (p q : Fin k → Rat) (L : EMat k k)
    (Y : EMat d d) (LY : Fin k → EMat d d) (lo hi : Rat) (hp : ∀ i, 0 ≤ p i) (hk : 0 < k)
    (hlo : checkUnambPrimalFn (sdGramFn k vs) p q L = some lo)
    (hhi : checkMinErrDualFn k (fun i => sdToDensityVec (vs i)) p Y LY = some hi) : (lo : ℝ) ≤ (hi : ℝ) := by
  obtain ⟨hq0, hq1, hv⟩ := checkUnambPrimalFn_sound _ _ _ _ _ hlo
  obtain ⟨hY, hvY⟩ := checkMinErrDualFn_sound _ _ _ _ _ _ hhi
  rw [toM_sdGramFn] at hq1
  rw [← hv, ← hvY]
  refine unamb_le_minErr_dual (sdVecs k vs) (fun i => ((p i : Rat) : ℝ)) (fun i => ((q i : Rat) : ℝ))
    (fun i => by exact_mod_cast hp i) hk ⟨hq0, hq1⟩ Y.toM fun i => ?_
  have := hY i
  rwa [toM_sdToDensityVec] at this

/-- The default prior `[1/n]*n` of `state_distinguishability` (`probs=None`) has `n` entries summing to `1`, and `sdPrepare`
keeps the number of states. -/
theorem sd_prepare_default (states : List (SdState d)) (hn : states.length ≠ 0) :
    (sdPrepare states none).size = states.length ∧ (sdPrepare states none).probs.length = states.length ∧
      (sdPrepare states none).probs.sum = 1 := by
  refine ⟨by simp [sdPrepare, Ensemble.size], by simp [sdPrepare, sdDefaultProbs], ?_⟩
  exact sdDefaultProbs_none_sum _ hn

/-- Omitted keyword arguments select the minimum-error dual program; the four documented argument pairs select the four
programs. -/
theorem sd_dispatch :
    sdDispatch sdDefaultStrategy sdDefaultPrimalDual = .meDual ∧
      sdDispatch "min_error" "primal" = .mePrimal ∧ sdDispatch "min_error" "dual" = .meDual ∧
      sdDispatch "unambiguous" "primal" = .uaPrimal ∧ sdDispatch "unambiguous" "dual" = .uaDual := by
  decide

/-- **Argument check.**  A non-empty list of arrays is accepted exactly when every array has the same
`has_same_dimension`-size as the first one, the first one is a vector or a square matrix and – for the two Gram-form
programs, whose worker starts with `vectors_to_gram_matrix` – all arrays have the shape of the first one; then the programs
are built for `n = len(vectors)` states in the dimension of the first array. -/
theorem sd_front_eq (s : SdShape) (rest : List SdShape) (probs : Option (List Rat)) (strategy pd : String) :
    sdFront (s :: rest) probs strategy pd =
      if (∀ t ∈ rest, t.cmpDim = s.cmpDim) ∧ ((sdDispatch strategy pd).isUnamb = true → ∀ t ∈ rest, t = s) then
        s.vecMatDim.map fun dim =>
          ⟨rest.length + 1, sdDefaultProbs (rest.length + 1) probs, dim, sdDispatch strategy pd⟩
      else none := by
  have hss : sdSameShape (s :: rest) = true ↔ ∀ t ∈ rest, t = s := by
    simp [sdSameShape, List.all_eq_true]
  by_cases h : ∀ t ∈ rest, t.cmpDim = s.cmpDim
  · have := (sdHasSameDimension_true_iff s rest).mpr h
    unfold sdFront
    rw [this]
    cases hd : s.vecMatDim with
    | none => simp [hd]
    | some dim =>
      by_cases hu : (sdDispatch strategy pd).isUnamb = true
      · by_cases h2 : ∀ t ∈ rest, t = s
        · simp [hd, hu, hss.mpr h2]
          exact ⟨h, h2⟩
        · have : sdSameShape (s :: rest) = false := by
            rw [Bool.eq_false_iff]; exact fun hh => h2 (hss.mp hh)
          simp [hd, hu, h2, this]
      · simp [hd, hu]
        exact h
  · have h2 : sdHasSameDimension (s :: rest) ≠ some true := fun hh => h ((sdHasSameDimension_true_iff s rest).mp hh)
    rw [if_neg (fun hh => h hh.1)]
    unfold sdFront
    split
    · next hh => exact absurd hh h2
    · rfl

/-- 1-D vectors of length `d`, `d × 1` columns and `1 × d` rows (`d ≥ 1`) are all accepted together by the minimum-error
programs, and by the Gram-form programs when they all have the same layout; `dim = d`. -/
theorem sd_front_vectors (s : SdShape) (rest : List SdShape) (probs : Option (List Rat)) (strategy pd : String)
    (hd : 0 < d) (hs : ∀ t ∈ s :: rest, t = .d1 d ∨ t = .d2 d 1 ∨ t = .d2 1 d)
    (hu : (sdDispatch strategy pd).isUnamb = true → ∀ t ∈ rest, t = s) :
    sdFront (s :: rest) probs strategy pd =
      some ⟨rest.length + 1, sdDefaultProbs (rest.length + 1) probs, d, sdDispatch strategy pd⟩ := by
  have hc : ∀ t ∈ s :: rest, t.cmpDim = d := by
    intro t ht
    rcases hs t ht with h | h | h <;> subst h <;> simp [SdShape.cmpDim]
  have hv : s.vecMatDim = some d := by
    rcases hs s (List.mem_cons_self) with h | h | h <;> subst h
    · rfl
    · simp [SdShape.vecMatDim, Nat.max_eq_left hd]
    · simp [SdShape.vecMatDim, Nat.max_eq_right hd]
  rw [sd_front_eq, if_pos, hv]
  · rfl
  · refine ⟨fun t ht => ?_, hu⟩
    rw [hc t (List.mem_cons_of_mem _ ht), hc s List.mem_cons_self]

/-- `is_distinguishable`'s test `np.isclose(opt_val, 1)` is `|opt_val − 1| ≤ 10⁻⁸ + 10⁻⁵`. -/
theorem sd_dist_test_iff (v : Rat) : sdDistTest v = true ↔ |v - 1| ≤ 1 / 100000000 + 1 / 100000 :=
  sdDistTest_iff' v

/-- **`is_distinguishable` answers `False` whenever a dual certificate separates the optimum from 1.**  If the dual checker
accepts `hi` (so no measurement succeeds more often than `hi`) and the solver value `v` exceeds `hi` by at most `τ` with
`hi + τ < 1 − 10⁻⁵ − 10⁻⁸`, the test fails. -/
theorem sd_dist_test_false_of_dual (v hi τ : Rat) (hv : v ≤ hi + τ)
    (hgap : hi + τ < 1 - 1 / 100000 - 1 / 100000000) : sdDistTest v = false := by
  rw [Bool.eq_false_iff, Ne, sd_dist_test_iff, abs_le]
  intro h
  linarith [h.1]

/-- … and `True` for every value within `10⁻⁵` of `1` (in particular for a value within the solver tolerance of the
optimum `1` of mutually orthogonal states, `minErr_orthogonal_eq_one`). -/
theorem sd_dist_test_true_of_near_one (v : Rat) (hv : |v - 1| ≤ 1 / 100000) : sdDistTest v = true := by
  rw [sd_dist_test_iff]
  linarith

/-! ## States with zero (or negligible) prior -/

/-- **States outside an orthogonal part cannot hurt.**  If the states singled out by `S` are mutually orthogonal, some
measurement identifies every one of them with certainty, so its success probability is at least the prior mass
`Σ_{i ∈ S} p_i tr ρ_i` of that part — whatever the remaining states are (they may overlap everything). -/
theorem minErr_ge_orthogonal_part (ρ : Fin k → Matrix (Fin d) (Fin d) ℂ) (p : Fin k → ℝ)
    (S : Fin k → Prop) [DecidablePred S] (j0 : Fin k)
    (hρ : ∀ i, (ρ i).PosSemidef) (hp : ∀ i, 0 ≤ p i)
    (hO : ∀ i j, i ≠ j → S i → S j → ρ i * ρ j = 0) :
    ∃ M : Fin k → Matrix (Fin d) (Fin d) ℂ, IsPOVM M ∧
      (∑ i, if S i then p i * (ρ i).trace.re else 0) ≤ successProb ρ p M := by
  let ρ' : Fin k → Matrix (Fin d) (Fin d) ℂ := fun i => if S i then ρ i else 0
  have hH' : ∀ i, (ρ' i).IsHermitian := by
    intro i
    by_cases h : S i
    · simp only [ρ', h, if_true]; exact (hρ i).isHermitian
    · simp only [ρ', h, if_false]; exact Matrix.isHermitian_zero
  have hO' : ∀ i j, i ≠ j → ρ' i * ρ' j = 0 := by
    intro i j hij
    by_cases hi : S i
    · by_cases hj : S j
      · simp only [ρ', hi, hj, if_true]; exact hO i j hij hi hj
      · simp [ρ', hj]
    · simp [ρ', hi]
  obtain ⟨M, hM, -, hv⟩ := minErr_orthogonal_attained ρ' p j0 hH' hO'
  refine ⟨M, hM, ?_⟩
  have h1 : (∑ i, if S i then p i * (ρ i).trace.re else 0) = successProb ρ' p M := by
    rw [hv]
    refine Finset.sum_congr rfl fun i _ => ?_
    by_cases h : S i <;> simp [ρ', h]
  rw [h1]
  unfold successProb
  refine Finset.sum_le_sum fun i _ => ?_
  by_cases h : S i
  · simp [ρ', h]
  · simp only [ρ', h, if_false, Matrix.zero_mul, Matrix.trace_zero, Complex.zero_re, mul_zero]
    exact mul_nonneg (hp i) (psd_trace_mul_nonneg (hρ i) (hM.1 i))

/-- **Only the states that can occur matter: value exactly 1.**  For density operators and a probability vector such that
the states with NON-ZERO prior are mutually orthogonal, the optimum is exactly `1` — a listed state with prior `0` may be
non-orthogonal to all the others (`[|0⟩, |1⟩, |+⟩]` with prior `(1/2, 1/2, 0)`); `is_distinguishable(states, probs)` has to
answer `True` there (`sd_dist_test_true_of_near_one`), although the same states with the uniform prior are not
perfectly distinguishable. -/
theorem minErr_support_orthogonal_eq_one (ρ : Fin k → Matrix (Fin d) (Fin d) ℂ) (p : Fin k → ℝ)
    (hρ : ∀ i, (ρ i).PosSemidef) (htr : ∀ i, (ρ i).trace = 1) (hp : ∀ i, 0 ≤ p i)
    (hsum : ∑ i, p i = 1) (hO : ∀ i j, i ≠ j → p i ≠ 0 → p j ≠ 0 → ρ i * ρ j = 0) :
    IsGreatest (minErrValues ρ p) 1 := by
  constructor
  · have hk : 0 < k := by
      rcases Nat.eq_zero_or_pos k with h | h
      · subst h; simp at hsum
      · exact h
    obtain ⟨M, hM, hv⟩ := minErr_ge_orthogonal_part ρ p (fun i => p i ≠ 0) ⟨0, hk⟩ hρ hp hO
    refine ⟨M, hM, le_antisymm (minErr_le_one ρ p M hρ htr hp hsum hM) ?_⟩
    refine le_trans (le_of_eq ?_) hv
    rw [← hsum]
    refine Finset.sum_congr rfl fun i _ => ?_
    by_cases h : p i = 0 <;> simp [h, htr]
  · rintro v ⟨M, hM, rfl⟩
    exact minErr_le_one ρ p M hρ htr hp hsum hM

/-! ## Call forms: options by position, by keyword, mixed (`Toq.Model.DiscrimCall`) -/

/-- **Positional options in the documented order.**  `state_distinguishability(vectors, probs, s, v, p)` binds
`strategy = s`, `solver = v`, `primal_dual = p`; shorter positional calls leave the remaining options at their defaults
(`"min_error"`, `"cvxopt"`, `"dual"`). -/
theorem sd_bind_documented_order (s v p : String) :
    sdBind [s, v, p] [] = some ⟨s, v, p⟩ ∧ sdBind [s, v] [] = some ⟨s, v, "dual"⟩ ∧
      sdBind [s] [] = some ⟨s, "cvxopt", "dual"⟩ ∧ sdBind [] [] = some ⟨"min_error", "cvxopt", "dual"⟩ := by
  refine ⟨sdBind_three s v p [] ?_ ?_ ?_, ?_, ?_, ?_⟩
  · intro e he; cases he
  · intro e he; cases he
  · intro e he; cases he
  · rw [sdBind_two s v [] (fun e he => by cases he) (fun e he => by cases he)]; rfl
  · rw [sdBind_one s [] (fun e he => by cases he)]; rfl
  · rw [sdBind_nil]; rfl

/-- **A positional call is the keyword call.**  For every well-formed call (at most three positional options, none of them
repeated by keyword) the options bound are those of the call that passes the positional values under the keywords
`strategy`, `solver`, `primal_dual` (in this order) instead. -/
theorem sd_bind_positional_eq_keyword (pos : List String) (kw : List (String × String)) (hl : pos.length ≤ 3)
    (hk : ∀ n ∈ sdOptNames.take pos.length, ∀ e ∈ kw, e.1 ≠ n) :
    sdBind pos kw = sdBind [] (sdOptNames.zip pos ++ kw) :=
  sdBind_pos_eq_kw pos kw hl hk

/-- … hence both call forms reach the same program, prior, dimension and solver (or the same `ValueError`). -/
theorem sd_front_call_positional_eq_keyword (shapes : List SdShape) (probs : Option (List Rat)) (pos : List String)
    (kw : List (String × String)) (hl : pos.length ≤ 3)
    (hk : ∀ n ∈ sdOptNames.take pos.length, ∀ e ∈ kw, e.1 ≠ n) :
    sdFrontCall shapes probs pos kw = sdFrontCall shapes probs [] (sdOptNames.zip pos ++ kw) := by
  unfold sdFrontCall
  rw [sdBind_pos_eq_kw pos kw hl hk]

/-- The binding fails (`TypeError`) exactly when more than three options are given by position or an option is given
both by position and by keyword. -/
theorem sd_bind_type_error_iff (pos : List String) (kw : List (String × String)) :
    sdBind pos kw = none ↔ 3 < pos.length ∨ ∃ n ∈ sdOptNames.take pos.length, ∃ e ∈ kw, e.1 = n :=
  sdBind_eq_none_iff pos kw

/-- The four programs are reached by the documented positional calls: `(…, "unambiguous")` is the Gram-form dual,
`(…, "unambiguous", "cvxopt", "primal")` the Gram-form primal, `(…, "min_error", "cvxopt", "primal")` the measurement
program. -/
theorem sd_call_dispatch_positional :
    (sdBind ["unambiguous"] []).map (fun o => sdDispatch o.strategy o.primalDual) = some .uaDual ∧
      (sdBind ["unambiguous", "cvxopt", "primal"] []).map (fun o => sdDispatch o.strategy o.primalDual) = some .uaPrimal ∧
      (sdBind ["min_error", "cvxopt", "primal"] []).map (fun o => sdDispatch o.strategy o.primalDual) = some .mePrimal ∧
      (sdBind ["min_error"] [("primal_dual", "primal")]).map (fun o => sdDispatch o.strategy o.primalDual) = some .mePrimal ∧
      (sdBind [] []).map (fun o => sdDispatch o.strategy o.primalDual) = some .meDual := by
  decide

end Toq.C10
