import Toq.Proofs.Discrim
/-!
# C10 — quantum state discrimination: weak duality and soundness of the certificate checkers

The optimisation problems are stated over `Matrix (Fin d) (Fin d) ℂ` with Mathlib's
`Matrix.PosSemidef`.  The executable checkers (`Toq.Model.Discrim`) work over exact Gaussian
rationals; `EMat.toM` is the denotation of an exact matrix, `Rat.cast` that of an exact number.

* minimum-error discrimination of `{(p_i, ρ_i)}`: maximise `successProb ρ p M = Σ_i p_i Re tr(ρ_i M_i)`
  over POVMs `M`; dual: minimise `Re tr Y` subject to `Y − p_i ρ_i ⪰ 0`;
* unambiguous discrimination in Gram form: maximise `Σ_i p_i q_i` subject to `q ≥ 0`,
  `G − diag q ⪰ 0`; dual: minimise `Re tr(G Z)` subject to `Z ⪰ 0`, `Re Z_ii ≥ p_i`.
-/

open Matrix
open scoped ComplexOrder MatrixOrder

namespace Toq.C10
open Toq.Discrim

variable {d k : Nat}

/-! ## The mathematical problems -/

/-- `M` is a `k`-outcome measurement on `ℂ^d` -/
def IsPOVM (M : Fin k → Matrix (Fin d) (Fin d) ℂ) : Prop := (∀ i, (M i).PosSemidef) ∧ ∑ i, M i = 1

/-- `Σ_i p_i · Re tr(ρ_i M_i)`: probability of identifying the state correctly with measurement `M` -/
noncomputable def successProb (ρ : Fin k → Matrix (Fin d) (Fin d) ℂ) (p : Fin k → ℝ)
    (M : Fin k → Matrix (Fin d) (Fin d) ℂ) : ℝ :=
  ∑ i, p i * (ρ i * M i).trace.re

/-- `Y` is feasible for the dual of minimum-error discrimination -/
def MinErrDualFeasible (ρ : Fin k → Matrix (Fin d) (Fin d) ℂ) (p : Fin k → ℝ)
    (Y : Matrix (Fin d) (Fin d) ℂ) : Prop :=
  ∀ i, (Y - (p i : ℂ) • ρ i).PosSemidef

/-- `q` is feasible for unambiguous discrimination with Gram matrix `G` -/
def UnambFeasible (G : Matrix (Fin k) (Fin k) ℂ) (q : Fin k → ℝ) : Prop :=
  (∀ i, 0 ≤ q i) ∧ (G - Matrix.diagonal fun i => (q i : ℂ)).PosSemidef

/-- `Z` is feasible for the dual of unambiguous discrimination with priors `p` -/
def UnambDualFeasible (p : Fin k → ℝ) (Z : Matrix (Fin k) (Fin k) ℂ) : Prop :=
  Z.PosSemidef ∧ ∀ i, p i ≤ (Z i i).re

/-! ## Denotation of checker inputs -/

/-- the states of an exact ensemble as complex matrices -/
def ensStates (ens : Ensemble d) : Fin ens.size → Matrix (Fin d) (Fin d) ℂ := fun i => (ens.state i).toM
/-- the prior probabilities of an exact ensemble as reals -/
def ensProbs (ens : Ensemble d) : Fin ens.size → ℝ := fun i => ((ens.prob i : Rat) : ℝ)
/-- first `k` matrices of a list as complex matrices -/
def mats (k : Nat) (M : List (EMat d d)) : Fin k → Matrix (Fin d) (Fin d) ℂ := fun i => (matAt M i).toM
/-- first `k` rationals of a list as reals -/
def rats (k : Nat) (p : List Rat) : Fin k → ℝ := fun i => ((ratAt p i : Rat) : ℝ)

/-! ## Minimum-error discrimination -/

/-- Weak duality: every measurement succeeds with probability at most `Re tr Y` for dual-feasible `Y`.
(No assumption on `ρ`, `p` or Hermiticity of `Y` is needed beyond the constraints themselves.) -/
theorem minErr_weak_duality (ρ : Fin k → Matrix (Fin d) (Fin d) ℂ) (p : Fin k → ℝ)
    (M : Fin k → Matrix (Fin d) (Fin d) ℂ) (Y : Matrix (Fin d) (Fin d) ℂ)
    (hM : IsPOVM M) (hY : MinErrDualFeasible ρ p Y) :
    successProb ρ p M ≤ Y.trace.re :=
  minErr_weak_duality_gen ρ p M Y hM.1 hM.2 hY

/-- If the primal checker accepts with value `lo`, the candidate is a POVM (with one element per state)
whose success probability is exactly `lo`; hence `lo` is a lower bound of the optimum. -/
theorem checkMinErrPrimal_sound (ens : Ensemble d) (M LM : List (EMat d d)) (lo : Rat)
    (h : checkMinErrPrimal ens M LM = some lo) :
    ens.probs.length = ens.size ∧ M.length = ens.size ∧
      IsPOVM (mats ens.size M) ∧
      successProb (ensStates ens) (ensProbs ens) (mats ens.size M) = (lo : ℝ) := by
  unfold checkMinErrPrimal at h
  split at h
  · next hl =>
    obtain ⟨h1, h2, -⟩ := (lens3Ok_iff _ _ _ _).mp hl
    obtain ⟨hp, hs, hv⟩ := checkMinErrPrimalFn_sound _ _ _ _ _ _ h
    exact ⟨h1, h2, ⟨hp, hs⟩, hv⟩
  · exact absurd h (by simp)

/-- If the dual checker accepts with value `hi`, every measurement on the ensemble succeeds with
probability at most `hi`. -/
theorem checkMinErrDual_sound (ens : Ensemble d) (Y : EMat d d) (LY : List (EMat d d)) (hi : Rat)
    (h : checkMinErrDual ens Y LY = some hi) :
    ∀ M' : Fin ens.size → Matrix (Fin d) (Fin d) ℂ, IsPOVM M' →
      successProb (ensStates ens) (ensProbs ens) M' ≤ (hi : ℝ) := by
  unfold checkMinErrDual at h
  split at h
  · next hl =>
    obtain ⟨hf, hv⟩ := checkMinErrDualFn_sound _ _ _ _ _ _ h
    intro M' hM'
    rw [← hv]
    exact minErr_weak_duality (ensStates ens) (ensProbs ens) M' Y.toM hM' hf
  · exact absurd h (by simp)

/-- Accepted primal and dual certificates bracket the optimum. -/
theorem minErr_lo_le_hi (ens : Ensemble d) (M LM : List (EMat d d)) (Y : EMat d d)
    (LY : List (EMat d d)) (lo hi : Rat)
    (hlo : checkMinErrPrimal ens M LM = some lo) (hhi : checkMinErrDual ens Y LY = some hi) :
    (lo : ℝ) ≤ (hi : ℝ) := by
  obtain ⟨-, -, hM, hv⟩ := checkMinErrPrimal_sound ens M LM lo hlo
  rw [← hv]
  exact checkMinErrDual_sound ens Y LY hi hhi _ hM

/-! ## Unambiguous discrimination (Gram form) -/

/-- Weak duality: `Σ_i p_i q_i ≤ Re tr(G Z)` for primal-feasible `q` and dual-feasible `Z`.
(`G` is arbitrary; `G − diag q ⪰ 0` already forces it to be Hermitian.) -/
theorem unamb_weak_duality (G Z : Matrix (Fin k) (Fin k) ℂ) (p q : Fin k → ℝ)
    (hq : UnambFeasible G q) (hZ : UnambDualFeasible p Z) :
    ∑ i, p i * q i ≤ (G * Z).trace.re :=
  unamb_weak_duality_gen G Z p q hq.1 hq.2 hZ.1 hZ.2

/-- If the primal checker accepts with value `lo`, then `q` is feasible and has objective value `lo`. -/
theorem checkUnambPrimal_sound (G : EMat k k) (p q : List Rat) (L : EMat k k) (lo : Rat)
    (h : checkUnambPrimal G p q L = some lo) :
    p.length = k ∧ q.length = k ∧ UnambFeasible G.toM (rats k q) ∧
      ∑ i, rats k p i * rats k q i = (lo : ℝ) := by
  unfold checkUnambPrimal at h
  split at h
  · next hl =>
    obtain ⟨h1, h2, -⟩ := (lens3Ok_iff _ _ _ _).mp hl
    obtain ⟨hq, hG, hv⟩ := checkUnambPrimalFn_sound _ _ _ _ _ h
    exact ⟨h1, h2, ⟨hq, hG⟩, hv⟩
  · exact absurd h (by simp)

/-- If the dual checker accepts with value `hi`, every feasible `q` has `Σ_i p_i q_i ≤ hi`. -/
theorem checkUnambDual_sound (G : EMat k k) (p : List Rat) (Z LZ : EMat k k) (hi : Rat)
    (h : checkUnambDual G p Z LZ = some hi) :
    ∀ q : Fin k → ℝ, UnambFeasible G.toM q → ∑ i, rats k p i * q i ≤ (hi : ℝ) := by
  unfold checkUnambDual at h
  split at h
  · next hl =>
    obtain ⟨hZ, hp, hv⟩ := checkUnambDualFn_sound _ _ _ _ _ h
    intro q hq
    rw [← hv]
    exact unamb_weak_duality G.toM Z.toM (rats k p) q hq ⟨hZ, hp⟩
  · exact absurd h (by simp)

/-- Accepted primal and dual certificates bracket the optimum. -/
theorem unamb_lo_le_hi (G : EMat k k) (p q : List Rat) (L Z LZ : EMat k k) (lo hi : Rat)
    (hlo : checkUnambPrimal G p q L = some lo) (hhi : checkUnambDual G p Z LZ = some hi) :
    (lo : ℝ) ≤ (hi : ℝ) := by
  obtain ⟨-, -, hq, hv⟩ := checkUnambPrimal_sound G p q L lo hlo
  rw [← hv]
  exact checkUnambDual_sound G p Z LZ hi hhi _ hq

/-! ## The checkers accept concrete instances

`|0⟩⟨0|` and `|+⟩⟨+|` with equal priors (optimum `(1 + 1/√2)/2 ≈ 0.8536`): an explicit rational POVM
with value `17/20` and a dual point with value `87/100`; and a complex Gram matrix with overlap
`3i/5` (optimum `2/5`, attained by both certificates). -/

section Examples

private def c2 (a b c d : QI) : EMat 2 2 := EMat.ofRows #[#[a, b], #[c, d]] 2 2
private def r2 (a b c d : Rat) : EMat 2 2 := c2 ⟨a, 0⟩ ⟨b, 0⟩ ⟨c, 0⟩ ⟨d, 0⟩

private def exEns : Ensemble 2 := ⟨[r2 1 0 0 0, r2 (1/2) (1/2) (1/2) (1/2)], [1/2, 1/2]⟩

example : checkMinErrPrimal exEns
    [r2 (17/20) (-7/20) (-7/20) (3/20), r2 (3/20) (7/20) (7/20) (17/20)]
    [r2 (23/25) 0 (-35/92) 0, r2 0 (35/92) 0 (23/25)] = some (17/20) := by decide +kernel

example : checkMinErrDual exEns (r2 (14/25) (1/8) (1/8) (31/100))
    [r2 (6/25) 0 (25/48) 0, r2 0 (-25/48) 0 (6/25)] = some (87/100) := by decide +kernel

private def exG : EMat 2 2 := c2 ⟨1, 0⟩ ⟨0, 3/5⟩ ⟨0, -3/5⟩ ⟨1, 0⟩

example : checkUnambPrimal exG [1/2, 1/2] [2/5, 2/5] (c2 ⟨3/4, 0⟩ ⟨0, 0⟩ ⟨0, -3/4⟩ ⟨0, 0⟩)
    = some (2/5) := by decide +kernel

example : checkUnambDual exG [1/2, 1/2] (c2 ⟨1/2, 0⟩ ⟨0, -1/2⟩ ⟨0, 1/2⟩ ⟨1/2, 0⟩)
    (c2 ⟨7/10, 0⟩ ⟨0, 0⟩ ⟨0, 7/10⟩ ⟨0, 0⟩) = some (2/5) := by decide +kernel

end Examples

end Toq.C10
