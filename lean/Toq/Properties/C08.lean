import Toq.Proofs.Xor
import Toq.Proofs.XorTsirelson
import Toq.Proofs.XorMult
import Toq.Proofs.XorNpa1
import Toq.Proofs.XorClassical
import Toq.Proofs.XorInit
import Toq.Proofs.XorFast
import Toq.Proofs.XorRepLower
import Toq.Proofs.XorRepPovm
/-!
# C08 — XOR games: Tsirelson's optimum, classical / non-signalling values, conversion to a general
game, repetitions; two-outcome Bell expressions

Vocabulary (definitions in `Toq.Model.Xor`, executable, and `Toq.Proofs.Xor`):

* `dMat prob pred x y = prob x y · (-1)^(pred x y)` — the cost matrix `D` of `XORGame.quantum_value`;
* `IsMoment Γ` — `Γ` positive semidefinite with unit diagonal (the Gram matrix of Alice's and Bob's unit
  vectors is such a matrix, and so is the matrix `tr(ρ O_i O_j)` of a quantum strategy);
* `tsirelsonDual D a b = [[diag a, −D], [−Dᵀ, diag b]]` — the matrix constrained to be PSD in
  `quantum_value`; the code minimises `Σa + Σb` and returns `(Σa + Σb)/4 + 1/2`, i.e. `1/2 + β/2` with
  `β = (Σa + Σb)/2`;
* `IsStrategy ρ A B` — density matrix `ρ`, Hermitian involutions `A_x`, `B_y` with `[A_x, B_y] = 0`;
* `nlgPred pred a b x y = [pred x y = a ⊕ b]` — the predicate of `XORGame.to_nonlocal_game`;
* `detWin`, `xorClassicalValue`, `signBias`, `xorClassicalBias`, `behWin`, `prBox`, `xorValue`,
  `bellExt`, `bellAffine`, `bellDetMax`, and the checkers `checkXorPrimal`, `checkXorDual`,
  `checkBellDual`, `checkBellStrategy`.

Proved here for all sizes and dimensions: both directions of Tsirelson's theorem in finite dimension
(`quantum_strategy_le_dual` / `tsirelson_theorem`: a correlation matrix is quantum iff it is a Gram matrix of unit vectors;
the construction uses Clifford generators and a maximally entangled state, `Toq.Proofs.XorTsirelson`), so the vector optimum
of the semidefinite program IS the quantum optimum; multiplicativity of the optimum under tensor products of cost matrices
at the certificate level (`xor_sum_multiplicative`); equality of the level-1 NPA feasible set and the Tsirelson feasible
set (`npa1_projector_le_dual`, `npa1_feasible_of_tsirelson`).

Also proved for every number of repetitions `r`: perfect parallel repetition at the certificate level
(Cleve–Slofstra–Unger–Upadhyay; `xor_parallel_repetition`, `xor_repetition_bracket`): every strategy (general POVMs, any finite
dimension) of the `r`-fold AND-repetition wins with probability at most `(1/2 + hi/2)^r` for every dual-feasible value `hi` of the
single game (Fourier expansion over subsets of rounds + product certificates + weak duality for moment matrices of
contractions), and independent play of a strategy with bias `β` wins with
probability exactly `(1/2 + β/2)^r`.

Cited, not proved: strong duality of the semidefinite program (not needed: every instance is bracketed by a primal and a
dual certificate), Grothendieck's inequality `β_Q ≤ K_G β_C`.
-/

open Matrix
open scoped ComplexOrder MatrixOrder

namespace Toq.C08
open Toq.Xor EMat

/-! ## Tsirelson's semidefinite program: weak duality -/

section Duality
variable {X Y : Type*} [Fintype X] [Fintype Y] [DecidableEq X] [DecidableEq Y]

/-- **Weak duality of the Tsirelson program, all finite question sets.**  For every real cost matrix `D`,
every positive semidefinite `Γ` on `X ⊕ Y` with unit diagonal (a Gram matrix of unit vectors `u_x`, `v_y`,
with `Γ[x,y] = ⟨u_x, v_y⟩`) and every `(a, b)` such that `[[diag a, −D], [−Dᵀ, diag b]]` is positive
semidefinite: `Σ D[x,y] Γ[x,y] ≤ (Σa + Σb)/2`. -/
theorem tsirelson_weak_duality (D : X → Y → ℝ) (a : X → ℝ) (b : Y → ℝ) (Γ : Matrix (X ⊕ Y) (X ⊕ Y) ℂ)
    (hΓ : IsMoment Γ) (hZ : (tsirelsonDual D a b).PosSemidef) :
    ∑ x, ∑ y, D x y * (Γ (.inl x) (.inr y)).re ≤ (∑ x, a x + ∑ y, b y) / 2 :=
  tsirelson_weak_duality_sum D a b Γ hΓ hZ

/-- **Unit vectors never beat a dual-feasible point.**  For unit vectors `u_x, v_y ∈ ℝ^d` (any dimension)
the bias `Σ D[x,y] ⟨u_x, v_y⟩` is at most `(Σa + Σb)/2` for every dual-feasible `(a, b)`. -/
theorem tsirelson_vectors_le_dual {d : Type*} [Fintype d] (D : X → Y → ℝ) (a : X → ℝ) (b : Y → ℝ)
    (u : X → d → ℝ) (v : Y → d → ℝ) (hu : ∀ x, ∑ k, u x k ^ 2 = 1) (hv : ∀ y, ∑ k, v y k ^ 2 = 1)
    (hZ : (tsirelsonDual D a b).PosSemidef) :
    ∑ x, ∑ y, D x y * ∑ k, u x k * v y k ≤ (∑ x, a x + ∑ y, b y) / 2 :=
  vectors_le_dual D a b u v hu hv hZ

/-- **Quantum strategies never beat a dual-feasible point.**  For every finite-dimensional state `ρ` and
±1-valued observables `A_x`, `B_y` (Hermitian involutions), the bias `Σ D[x,y] Re tr(ρ A_x B_y)` is at most
`(Σa + Σb)/2` for every dual-feasible `(a, b)`. -/
theorem quantum_strategy_le_dual {d : Type*} [Fintype d] [DecidableEq d] (D : X → Y → ℝ) (a : X → ℝ)
    (b : Y → ℝ) (ρ : Matrix d d ℂ) (A : X → Matrix d d ℂ) (B : Y → Matrix d d ℂ) (h : IsStrategy ρ A B)
    (hZ : (tsirelsonDual D a b).PosSemidef) :
    ∑ x, ∑ y, D x y * (ρ * A x * B y).trace.re ≤ (∑ x, a x + ∑ y, b y) / 2 :=
  quantum_xor_le_dual D a b ρ A B h hZ

/-- **Every sign assignment is a feasible point** (`Γ = z zᵀ` with `z = (s, t)`): the classical bias
`Σ D[x,y] s_x t_y` is at most every dual bound — classical value ≤ quantum value. -/
theorem xor_signs_le_dual (D : X → Y → ℝ) (a : X → ℝ) (b : Y → ℝ) (s : X → ℝ) (t : Y → ℝ)
    (hs : ∀ x, s x = 1 ∨ s x = -1) (ht : ∀ y, t y = 1 ∨ t y = -1) (hZ : (tsirelsonDual D a b).PosSemidef) :
    ∑ x, ∑ y, D x y * (s x * t y) ≤ (∑ x, a x + ∑ y, b y) / 2 :=
  signs_le_dual D a b s t hs ht hZ

/-- **Level-1 NPA moment matrices give the same optimum (±1-observable basis).**  The level-1 moment matrix `R` of
the converted game in the basis of ±1 observables lives on `{1} ⊕ X ⊕ Y`, is positive semidefinite with unit
diagonal, and the winning probability is `1/2 + 1/2 Σ D[x,y] R[x,y]` (`xor_win_eq_bias`).  (i) Every such `R` obeys
every dual bound of the Tsirelson program; (ii) every feasible `Γ` of the Tsirelson program extends to such an `R`
with the same correlations.  Hence both programs have the same optimum. -/
theorem npa1_eq_tsirelson (D : X → Y → ℝ) (a : X → ℝ) (b : Y → ℝ) :
    (∀ R : Matrix (Unit ⊕ (X ⊕ Y)) (Unit ⊕ (X ⊕ Y)) ℂ, IsMoment R → (tsirelsonDual D a b).PosSemidef →
      ∑ x, ∑ y, D x y * (R (.inr (.inl x)) (.inr (.inr y))).re ≤ (∑ x, a x + ∑ y, b y) / 2) ∧
    (∀ Γ : Matrix (X ⊕ Y) (X ⊕ Y) ℂ, IsMoment Γ →
      ∃ R : Matrix (Unit ⊕ (X ⊕ Y)) (Unit ⊕ (X ⊕ Y)) ℂ, IsMoment R ∧
        ∀ x y, R (.inr (.inl x)) (.inr (.inr y)) = Γ (.inl x) (.inr y)) :=
  ⟨fun R hR hZ => npa1_le_dual' D a b R hR hZ,
    fun Γ hΓ => ⟨_, isMoment_extend Γ hΓ, fun _ _ => rfl⟩⟩

/-- **Level-1 NPA matrix in toqito's projector basis.**  toqito's level-1 matrix `R` is indexed by the words
`1, A_x^0, B_y^0` (projectors on outcome 0): positive semidefinite, `R[1,1] = 1`, `R[P,P] = R[1,P]`, and
`R[A_x^0, B_y^0] = p(0,0|x,y)`, `R[1, A_x^0] = p_A(0|x)`, `R[1, B_y^0] = p_B(0|y)`.  The correlators
`E[x,y] = 4 p(0,0|x,y) − 2 p_A(0|x) − 2 p_B(0|y) + 1` of every such matrix obey every dual bound of the Tsirelson
program: the level-1 NPA value of the converted game is at most `1/2 + 1/2 · (Σa + Σb)/2`. -/
theorem npa1_projector_le_dual (D : X → Y → ℝ) (a : X → ℝ) (b : Y → ℝ)
    (R : Matrix (Unit ⊕ (X ⊕ Y)) (Unit ⊕ (X ⊕ Y)) ℂ) (hR : R.PosSemidef) (h1 : R (.inl ()) (.inl ()) = 1)
    (hp : ∀ i, R (.inr i) (.inr i) = R (.inl ()) (.inr i)) (hZ : (tsirelsonDual D a b).PosSemidef) :
    ∑ x, ∑ y, D x y * (4 * R (.inr (.inl x)) (.inr (.inr y)) - 2 * R (.inr (.inl x)) (.inl ())
        - 2 * R (.inl ()) (.inr (.inr y)) + 1).re ≤ (∑ x, a x + ∑ y, b y) / 2 := by
  have h := npa1_le_dual' D a b _ (isMoment_basisChange R hR h1 hp) hZ
  simp only [basisChange_entry, h1] at h
  exact h

end Duality

/-! ## Tsirelson's theorem: unit vectors are realised by quantum strategies -/

section Tsirelson
open scoped Kronecker
variable {X Y : Type*}

/-- **Tsirelson's construction, every number of questions and every vector dimension.**  For unit vectors
`u_x, v_y ∈ ℝⁿ` there is a quantum strategy in tensor-product form — a state `ρ` (the maximally entangled state) of two
`D`-dimensional systems, ±1-valued observables `A_x ⊗ 1` for Alice and `1 ⊗ B_y` for Bob — whose correlators are exactly the
inner products: `Re tr(ρ (A_x ⊗ B_y)) = ⟨u_x, v_y⟩`.  (Construction: `n` anticommuting Hermitian involutions `G_i`,
`A_x = Σ_i u_x(i) G_i`, `B_y = (Σ_i v_y(i) G_i)ᵀ`, `D = 2ⁿ`.) -/
theorem tsirelson_vectors_realised (n : Nat) (u : X → Fin n → ℝ) (v : Y → Fin n → ℝ)
    (hu : ∀ x, ∑ k, u x k ^ 2 = 1) (hv : ∀ y, ∑ k, v y k ^ 2 = 1) :
    ∃ (ι : Type) (_ : Fintype ι) (_ : DecidableEq ι) (ρ : Matrix (ι × ι) (ι × ι) ℂ)
      (A : X → Matrix ι ι ℂ) (B : Y → Matrix ι ι ℂ),
      IsStrategy ρ (fun x => A x ⊗ₖ (1 : Matrix ι ι ℂ)) (fun y => (1 : Matrix ι ι ℂ) ⊗ₖ B y) ∧
      ∀ x y, (ρ * (A x ⊗ₖ (1 : Matrix ι ι ℂ)) * ((1 : Matrix ι ι ℂ) ⊗ₖ B y)).trace.re = ∑ k, u x k * v y k :=
  tsirelson_realise n u v hu hv

variable [Fintype X] [Fintype Y] [DecidableEq X] [DecidableEq Y]

/-- **Tsirelson's theorem (finite dimension), all question sets.**  For a real matrix `c[x,y]` the following are
equivalent: (i) `c` is the correlation matrix `⟨A_x B_y⟩` of a quantum strategy (finite-dimensional state, commuting
±1-valued observables); (ii) `c` is the off-diagonal block of a positive semidefinite matrix with unit diagonal — the
feasible set of the semidefinite program of `quantum_value`; (iii) `c[x,y] = ⟨u_x, v_y⟩` for unit vectors.  Hence the
optimum of the program is the optimal quantum bias, attained by explicit unit vectors. -/
theorem tsirelson_theorem (c : X → Y → ℝ) :
    (IsQuantumCorr c ↔ IsVectorCorr c) ∧
    (IsVectorCorr c ↔ ∃ (n : Nat) (u : X → Fin n → ℝ) (v : Y → Fin n → ℝ),
      (∀ x, ∑ k, u x k ^ 2 = 1) ∧ (∀ y, ∑ k, v y k ^ 2 = 1) ∧ ∀ x y, ∑ k, u x k * v y k = c x y) :=
  ⟨⟨isVectorCorr_of_quantum, isQuantumCorr_of_vector⟩, isVectorCorr_iff_vectors c⟩

/-- the hypotheses are satisfiable: the correlations `[[3/5, 3/5], [4/5, −4/5]]` (CHSH value `14/5 > 2`) come from the unit
vectors `u = (1,0), (0,1)`, `v = (3/5, 4/5), (3/5, −4/5)`, hence from a quantum strategy -/
example : IsQuantumCorr (fun x y : Fin 2 => if x = 0 then (3 / 5 : ℝ) else if y = 0 then 4 / 5 else -(4 / 5)) := by
  refine isQuantumCorr_of_vector ((isVectorCorr_iff_vectors _).mpr ⟨2,
    fun x k => if x = k then 1 else 0, fun y k => if k = 0 then 3 / 5 else if y = 0 then 4 / 5 else -(4 / 5), ?_, ?_, ?_⟩)
  · intro x; fin_cases x <;> simp
  · intro y; fin_cases y <;> simp [Fin.sum_univ_two] <;> norm_num
  · intro x y; fin_cases x <;> fin_cases y <;> simp [Fin.sum_univ_two]

/-- **Level-1 NPA, converse direction (projector basis).**  Every point of the Tsirelson program (unit vectors with
`⟨u_x, v_y⟩ = c[x,y]`) gives a feasible point of toqito's level-1 NPA program of the converted game: with the behaviour
`K(a,b|x,y) = (1 + (-1)^{a+b} c[x,y])/4` (non-negative, normalised, unbiased marginals — hence non-signalling — and correlators
`c`), there is a positive semidefinite `R` on the words `1, A_x^0, B_y^0` with `R[1,1] = 1`, `R[A_x^0, B_y^0] = K(0,0|x,y)`,
`R[1, A_x^0] = R[A_x^0, A_x^0] = Σ_b K(0,b|x,y)` and `R[1, B_y^0] = R[B_y^0, B_y^0] = Σ_a K(a,0|x,y)` for all `x, y`.
Together with `npa1_projector_le_dual`: the level-1 NPA bound of the converted game equals the Tsirelson optimum. -/
theorem npa1_feasible_of_tsirelson (c : X → Y → ℝ) (h : IsVectorCorr c) :
    ((∀ a b x y, 0 ≤ corrBeh c a b x y) ∧ (∀ x y, ∑ a, ∑ b, corrBeh c a b x y = 1) ∧
      (∀ a x y, ∑ b, corrBeh c a b x y = 1 / 2) ∧ (∀ b x y, ∑ a, corrBeh c a b x y = 1 / 2) ∧
      (∀ x y, ∑ a, ∑ b, sgn a * sgn b * corrBeh c a b x y = c x y)) ∧
    ∃ R : Matrix (Unit ⊕ (X ⊕ Y)) (Unit ⊕ (X ⊕ Y)) ℂ, R.PosSemidef ∧ R (.inl ()) (.inl ()) = 1 ∧
      (∀ x y, R (.inr (.inl x)) (.inr (.inr y)) = ((corrBeh c 0 0 x y : ℝ) : ℂ)) ∧
      (∀ x y, R (.inl ()) (.inr (.inl x)) = ((∑ b, corrBeh c 0 b x y : ℝ) : ℂ)) ∧
      (∀ x y, R (.inr (.inl x)) (.inr (.inl x)) = ((∑ b, corrBeh c 0 b x y : ℝ) : ℂ)) ∧
      (∀ x y, R (.inl ()) (.inr (.inr y)) = ((∑ a, corrBeh c a 0 x y : ℝ) : ℂ)) ∧
      (∀ x y, R (.inr (.inr y)) (.inr (.inr y)) = ((∑ a, corrBeh c a 0 x y : ℝ) : ℂ)) := by
  obtain ⟨hb, hR⟩ := npa1_feasible_of_vectorCorr c h
  exact ⟨corrBeh_props c hb, hR⟩

end Tsirelson

/-! ## Tensor products: the optimum of the XOR-sum is the product of the optima -/

section Multiplicative
variable {X Y X' Y' : Type*} [Fintype X] [Fintype Y] [DecidableEq X] [DecidableEq Y]
  [Fintype X'] [Fintype Y'] [DecidableEq X'] [DecidableEq Y']

/-- **Multiplicativity of the Tsirelson optimum at the certificate level.**  `kronD D D'` is the cost matrix of the XOR-sum of
two games (questions `(x,x')`, `(y,y')`, distribution `π ⊗ π'`, predicate `f ⊕ f'`).
(i) Primal: if `c`, `c'` are quantum (= vector) correlations then so is `c ⊗ c'`, and its bias is the product of the biases
— independent play.  (ii) Dual: if `(a, b)` and `(a', b')` are dual feasible for `D` and `D'`, then `(a ⊗ a', b ⊗ b')` is dual
feasible for `D ⊗ D'`, and EVERY positive semidefinite unit-diagonal matrix of the product game has bias at most
`(Σa + Σb)/2 · (Σa' + Σb')/2`, the product of the two dual values (perfect parallel repetition of the bias of XOR-sums,
Cleve–Slofstra–Unger–Upadhyay). -/
theorem xor_sum_multiplicative (D : X → Y → ℝ) (D' : X' → Y' → ℝ) :
    (∀ (c : X → Y → ℝ) (c' : X' → Y' → ℝ), IsQuantumCorr c → IsQuantumCorr c' →
      IsQuantumCorr (kronD c c') ∧
      ∑ p, ∑ q, kronD D D' p q * kronD c c' p q = (∑ x, ∑ y, D x y * c x y) * ∑ x, ∑ y, D' x y * c' x y) ∧
    (∀ (a : X → ℝ) (b : Y → ℝ) (a' : X' → ℝ) (b' : Y' → ℝ), (tsirelsonDual D a b).PosSemidef →
      (tsirelsonDual D' a' b').PosSemidef →
      (tsirelsonDual (kronD D D') (fun p => a p.1 * a' p.2) (fun q => b q.1 * b' q.2)).PosSemidef ∧
      ∀ Γ : Matrix ((X × X') ⊕ (Y × Y')) ((X × X') ⊕ (Y × Y')) ℂ, IsMoment Γ →
        ∑ p, ∑ q, kronD D D' p q * (Γ (.inl p) (.inr q)).re
          ≤ ((∑ x, a x + ∑ y, b y) / 2) * ((∑ x, a' x + ∑ y, b' y) / 2)) := by
  refine ⟨fun c c' h h' => ⟨?_, kronD_bias D D' c c'⟩, fun a b a' b' hZ hZ' =>
    ⟨tsirelsonDual_kron_psd hZ hZ', fun Γ hΓ => xorSum_le_product D D' a b a' b' hZ hZ' Γ hΓ⟩⟩
  exact isQuantumCorr_of_vector (isVectorCorr_kron (isVectorCorr_of_quantum h) (isVectorCorr_of_quantum h'))

/-- **Weak duality, geometric-mean form.**  `(λa, b/λ)` is dual feasible for every `λ > 0` whenever `(a, b)` is; optimising
over `λ`, every feasible `Γ` has bias at most `√(Σa · Σb) ≤ (Σa + Σb)/2`. -/
theorem tsirelson_weak_duality_geometric (D : X → Y → ℝ) (a : X → ℝ) (b : Y → ℝ) (Γ : Matrix (X ⊕ Y) (X ⊕ Y) ℂ)
    (hΓ : IsMoment Γ) (hZ : (tsirelsonDual D a b).PosSemidef) :
    (∀ lam : ℝ, 0 < lam → (tsirelsonDual D (fun x => lam * a x) (fun y => lam⁻¹ * b y)).PosSemidef) ∧
    ∑ x, ∑ y, D x y * (Γ (.inl x) (.inr y)).re ≤ Real.sqrt ((∑ x, a x) * ∑ y, b y) ∧
    Real.sqrt ((∑ x, a x) * ∑ y, b y) ≤ (∑ x, a x + ∑ y, b y) / 2 := by
  obtain ⟨ha, hb⟩ := tsirelsonDual_diag_nonneg hZ
  exact ⟨fun lam hl => tsirelsonDual_rebalance hZ lam hl, tsirelson_weak_duality_geo D a b Γ hΓ hZ,
    sqrt_mul_le_half_add _ _ (Finset.sum_nonneg fun x _ => ha x) (Finset.sum_nonneg fun y _ => hb y)⟩

end Multiplicative

/-! ## The mirror data of `quantum_value` denote the mathematical objects -/

/-- **Cost matrix.**  For a 0/1 predicate, `d_mat[x,y] = prob[x,y] · (-1)^pred[x,y]` is `+prob[x,y]` where the
players must answer equal bits and `−prob[x,y]` where they must answer different bits. -/
theorem dMat_sign (prob : Nat → Nat → Rat) (pred : Nat → Nat → Nat) (x y : Nat) (hf : pred x y < 2) :
    dMat prob pred x y = if pred x y = 0 then prob x y else -prob x y := by
  have h : pred x y = 0 ∨ pred x y = 1 := by omega
  rcases h with h | h <;> simp [dMat, h, negOnePow_zero, negOnePow_one]

/-- **Constraint matrix.**  The matrix assembled by `cvxpy.bmat([[diag(u), -D], [-Dᵀ, diag(v)]])` (rows and columns
`0 … m-1` Alice, `m … m+n-1` Bob) is, up to the canonical identification `Fin m ⊕ Fin n ≃ Fin (m+n)`, the block
matrix `tsirelsonDual D u v` of the weak-duality theorem. -/
theorem xor_dual_matrix_mirror {m n : Nat} (D : Nat → Nat → Rat) (u v : Nat → Rat) :
    (xorDualMat m n D u v).toM.submatrix finSumFinEquiv finSumFinEquiv
      = tsirelsonDual (castD D) (castV (m := m) u) (castV (m := n) v) :=
  toM_xorDualMat_submatrix D u v

/-! ## Verified certificate checkers -/

section Checkers
variable {m n k : Nat}

/-- **Primal checker.**  If `checkXorPrimal` accepts `Γ` with value `lo`, then `Γ` denotes a positive
semidefinite matrix with unit diagonal whose bias `Σ D[x,y] Re Γ[x, m+y]` is exactly `lo`: `lo` is a lower
bound of the Tsirelson optimum of `D`. -/
theorem checkXorPrimal_sound (D : Nat → Nat → Rat) (Γ : EMat (m + n) (m + n)) (L : EMat (m + n) k) (lo : Rat)
    (h : checkXorPrimal m n D Γ L = some lo) :
    IsMoment Γ.toM ∧ xorObjective (castD D) Γ.toM = (lo : ℝ) :=
  checkXorPrimal_sound' D Γ L lo h

/-- **Dual checker.**  If `checkXorDual` accepts `(a, b)` with value `hi`, then EVERY positive semidefinite
`Γ'` with unit diagonal has bias at most `hi`. -/
theorem checkXorDual_sound (D : Nat → Nat → Rat) (a b : Nat → Rat) (L : EMat (m + n) k) (hi : Rat)
    (h : checkXorDual m n D a b L = some hi) :
    ∀ Γ' : Matrix (Fin (m + n)) (Fin (m + n)) ℂ, IsMoment Γ' → xorObjective (castD D) Γ' ≤ (hi : ℝ) := by
  obtain ⟨hZ, hv⟩ := checkXorDual_sound' D a b L hi h
  intro Γ' hΓ'
  rw [← hv]
  exact tsirelson_weak_duality_fin _ _ _ Γ' hΓ' hZ

/-- **Dual checker, unit vectors and quantum strategies.**  An accepted dual certificate bounds the bias of
every family of unit vectors (any dimension) and of every quantum strategy (any dimension). -/
theorem checkXorDual_sound_strategies (D : Nat → Nat → Rat) (a b : Nat → Rat) (L : EMat (m + n) k) (hi : Rat)
    (h : checkXorDual m n D a b L = some hi) :
    (∀ (d : Type) [Fintype d] (u : Fin m → d → ℝ) (v : Fin n → d → ℝ),
        (∀ x, ∑ i, u x i ^ 2 = 1) → (∀ y, ∑ i, v y i ^ 2 = 1) →
        ∑ x, ∑ y, castD D x y * ∑ i, u x i * v y i ≤ (hi : ℝ)) ∧
    (∀ (d : Type) [Fintype d] [DecidableEq d] (ρ : Matrix d d ℂ) (A : Fin m → Matrix d d ℂ)
        (B : Fin n → Matrix d d ℂ), IsStrategy ρ A B →
        ∑ x, ∑ y, castD D x y * (ρ * A x * B y).trace.re ≤ (hi : ℝ)) := by
  obtain ⟨hZ, hv⟩ := checkXorDual_sound' D a b L hi h
  refine ⟨fun d _ u v hu hv' => ?_, fun d _ _ ρ A B hs => ?_⟩
  · rw [← hv]; exact vectors_le_dual _ _ _ u v hu hv' hZ
  · rw [← hv]; exact quantum_xor_le_dual _ _ _ ρ A B hs hZ

/-- Accepted primal and dual certificates bracket the optimum. -/
theorem xor_lo_le_hi (D : Nat → Nat → Rat) (Γ : EMat (m + n) (m + n)) (L : EMat (m + n) k) (a b : Nat → Rat)
    {k' : Nat} (L' : EMat (m + n) k') (lo hi : Rat) (hlo : checkXorPrimal m n D Γ L = some lo)
    (hhi : checkXorDual m n D a b L' = some hi) : (lo : ℝ) ≤ (hi : ℝ) := by
  obtain ⟨hΓ, hv⟩ := checkXorPrimal_sound D Γ L lo hlo
  rw [← hv]
  exact checkXorDual_sound D a b L' hi hhi _ hΓ

/-- **Primal checker, quantum reading.**  An accepted primal certificate of value `lo` is the correlation matrix of a quantum
strategy (finite-dimensional state, commuting ±1 observables) whose bias is exactly `lo`; an accepted dual certificate of
value `hi` bounds the bias of every quantum strategy.  So the optimal quantum bias of `D` lies in `[lo, hi]`: the lower end
is attained by an explicit strategy, the upper end is a bound for all strategies in all dimensions. -/
theorem xor_quantum_optimum_bracket (D : Nat → Nat → Rat) (Γ : EMat (m + n) (m + n)) (L : EMat (m + n) k)
    (a b : Nat → Rat) {k' : Nat} (L' : EMat (m + n) k') (lo hi : Rat)
    (hlo : checkXorPrimal m n D Γ L = some lo) (hhi : checkXorDual m n D a b L' = some hi) :
    (∃ c : Fin m → Fin n → ℝ, IsQuantumCorr c ∧ ∑ x, ∑ y, castD D x y * c x y = (lo : ℝ)) ∧
    ∀ c : Fin m → Fin n → ℝ, IsQuantumCorr c → ∑ x, ∑ y, castD D x y * c x y ≤ (hi : ℝ) := by
  refine ⟨checkXorPrimal_quantum D Γ L lo hlo, fun c hc => ?_⟩
  obtain ⟨d, hF, hD, ρ, A, B, hs, hcc⟩ := hc
  have := (checkXorDual_sound_strategies D a b L' hi hhi).2 d ρ A B hs
  simpa [← hcc, corrQ] using this

end Checkers

/-! ## Classical value -/

/-- **The classical bias is the maximum over ±1 assignments.**  `xorClassicalBias m n D` (computed by
enumerating `2^(m+n)` codes) is attained by a pair of sign vectors and dominates `Σ D[x,y] s_x t_y` for every
pair of sign vectors. -/
theorem xor_classical_eq_sign_max (m n : Nat) (D : Nat → Nat → Rat) :
    (∃ s t, IsSignPair m n s t ∧ signBias m n D s t = xorClassicalBias m n D) ∧
      ∀ s t, IsSignPair m n s t → signBias m n D s t ≤ xorClassicalBias m n D :=
  ⟨classicalBias_attained m n D, signBias_le_classicalBias m n D⟩

/-- **The classical value is the maximum over deterministic strategies of the converted game.**
`xorClassicalValue` is attained by a pair of answer functions and dominates the winning probability
`Σ prob x y · [pred x y = α x ⊕ β y]` of every pair of bit-valued answer functions. -/
theorem xor_classical_value_is_max (m n : Nat) (prob : Nat → Nat → Rat) (pred : Nat → Nat → Nat) :
    (∃ α β, IsBitStrategy m n α β ∧ detWin m n prob pred α β = xorClassicalValue m n prob pred) ∧
      ∀ α β, IsBitStrategy m n α β → detWin m n prob pred α β ≤ xorClassicalValue m n prob pred :=
  ⟨classicalValue_attained m n prob pred, detWin_le_classicalValue m n prob pred⟩

/-- **Conversion to a general game.**  With the predicate `V(a,b|x,y) = [pred x y = a ⊕ b]`, the winning
probability of the deterministic strategy `a = α x`, `b = β y` equals `Σπ/2 + (Σ D[x,y] s_x t_y)/2` with
`s = (-1)^α`, `t = (-1)^β` (for a 0/1 predicate; `Σπ = 1` for a distribution). -/
theorem xor_conversion (m n : Nat) (prob : Nat → Nat → Rat) (pred : Nat → Nat → Nat) (α β : Nat → Nat)
    (hf : ∀ x y, x < m → y < n → pred x y < 2) (h : IsBitStrategy m n α β) :
    detWin m n prob pred α β
      = totalProb m n prob / 2
        + signBias m n (dMat prob pred) (fun x => negOnePow (α x)) (fun y => negOnePow (β y)) / 2 :=
  detWin_eq_bias m n prob pred α β hf h.1 h.2

/-- **Classical value = 1/2 + 1/2 · classical bias** for a distribution and a 0/1 predicate: the XOR game and
its conversion have the same classical value. -/
theorem xor_classical_value_formula (m n : Nat) (prob : Nat → Nat → Rat) (pred : Nat → Nat → Nat)
    (hf : ∀ x y, x < m → y < n → pred x y < 2) (hp : totalProb m n prob = 1) :
    xorClassicalValue m n prob pred = 1 / 2 + xorClassicalBias m n (dMat prob pred) / 2 := by
  rw [classicalValue_eq_bias m n prob pred hf, hp]

/-- **Classical ≤ quantum.**  The classical bias is at most every accepted dual bound. -/
theorem xor_classical_le_quantum {m n k : Nat} (D : Nat → Nat → Rat) (a b : Nat → Rat) (L : EMat (m + n) k)
    (hi : Rat) (h : checkXorDual m n D a b L = some hi) : ((xorClassicalBias m n D : Rat) : ℝ) ≤ (hi : ℝ) := by
  obtain ⟨hZ, hv⟩ := checkXorDual_sound' D a b L hi h
  obtain ⟨s, t, hst, e⟩ := classicalBias_attained m n D
  rw [← e, signBias_cast, ← hv]
  exact signs_le_dual _ _ _ _ _ (castV_sign s hst.1) (castV_sign t hst.2) hZ

/-- **One-sided enumeration.**  Enumerating only Alice's `2^m` sign vectors and letting Bob answer optimally
(`max_s Σ_y |Σ_x s_x D[x,y]|` — the scheme of `NonlocalGame.classical_value`: one player's answer functions are enumerated, the
other's best answer is taken per question) gives, for all sizes and cost matrices, the same number as the enumeration of all
`2^(m+n)` sign pairs; hence `xorClassicalValueBR = Σπ/2 + bias/2` is the classical value of every XOR game with a 0/1
predicate.  This is the oracle the driver uses (`c08_classical`), fast enough for games with ≥ 10 questions per side. -/
theorem xor_classical_one_sided (m n : Nat) (D : Nat → Nat → Rat) (prob : Nat → Nat → Rat) (pred : Nat → Nat → Nat) :
    xorClassicalBiasBR m n D = xorClassicalBias m n D ∧
    ((∀ x y, x < m → y < n → pred x y < 2) → xorClassicalValueBR m n prob pred = xorClassicalValue m n prob pred) :=
  ⟨xorClassicalBiasBR_eq m n D, xorClassicalValueBR_eq m n prob pred⟩

/-- **`XORGame.classical_value` as the code computes it.**  The method is `to_nonlocal_game().classical_value()`; the mirror of
that composition (`nlgPred`, then `NonlocalGame.classical_value`: scaled copy, role swap when Alice has fewer strategies,
transposes, `process_iteration` with best response per question, running maximum) returns, for all sizes, distributions and
predicates, the maximum `xorClassicalValue` of the winning probability over all pairs of bit-valued answer functions; with
`reps ≥ 2` (the `else` branch of `NonlocalGame.__init__`) it returns the classical value of the product game the constructor
builds (entries characterised by `C07.productGame_pred` / `productGame_prob`). -/
theorem xor_classical_path (m n : Nat) (prob : Nat → Nat → Rat) (pred : Nat → Nat → Nat) :
    xorClassicalCall m n 1 prob pred = some (xorClassicalValue m n prob pred) ∧
    ∀ reps, xorClassicalPathReps m n reps prob pred
      = some (Toq.Games.Spec.maxDetValue (2 ^ reps) (2 ^ reps) (m ^ reps) (n ^ reps)
          (Toq.Games.productProb m n reps prob) (Toq.Games.productPred 2 2 m n reps (nlgPred pred))) :=
  ⟨xorClassicalCall_one m n prob pred, fun reps => xorClassicalPathReps_eq m n reps prob pred⟩

/-! ## The constructor -/

/-- **`XORGame.__init__` accepts every XOR game.**  With `tol` defaulted (`eps · q0² · q1²`) or given (`≥ 0`), a
distribution with non-negative entries summing to 1 and a predicate of the same shape pass the three guards, and `self.tol` is
the stated tolerance; in general the constructor accepts iff the shapes agree, no entry is below `−tol` and the total is
within `tol` of 1 (the guards are tried in this order: size, sign, normalisation). -/
theorem xor_init_accepts (q0 q1 : Nat) (h0 : 0 < q0) (h1 : 0 < q1) (prob : Nat → Nat → Rat) (tol : Option Rat) :
    ((∀ t, tol = some t → 0 ≤ t) → (∀ x y, x < q0 → y < q1 → 0 ≤ prob x y) → totalProb q0 q1 prob = 1 →
      xorInit q0 q1 q0 q1 prob tol = .ok (xorTol q0 q1 tol)) ∧
    ∀ p0 p1, xorInit q0 q1 p0 p1 prob tol = .ok (xorTol q0 q1 tol) ↔
      (q0 = p0 ∧ q1 = p1) ∧ (∀ x y, x < q0 → y < q1 → -(xorTol q0 q1 tol) ≤ prob x y) ∧
        |totalProb q0 q1 prob - 1| ≤ xorTol q0 q1 tol :=
  ⟨fun htol hp hs => xorInit_accepts q0 q1 h0 h1 prob tol htol hp hs,
    fun p0 p1 => xorInit_ok_iff q0 q1 p0 p1 h0 h1 prob tol⟩

/-! ## The value returned by `quantum_value`, repetitions -/

/-- **Value formula.**  When the solver returns `s = Σa + Σb = 2β`, `quantum_value` (one repetition) returns
`1/2 + β/2`. -/
theorem xor_value_formula (β : Rat) : xorValue (2 * β) 1 = 1 / 2 + β / 2 := by
  simp only [xorValue, powN]; ring

/-- **Repetitions.**  With `reps = r`, `quantum_value` returns the `r`-th power of the single-shot value (that this power is
the quantum value of the repeated game is `xor_parallel_repetition` / `xor_repetition_bracket`). -/
theorem xor_reps_power (s : Rat) (r : Nat) : xorValue s r = xorValue s 1 ^ r := by
  simp only [xorValue, powN_eq_pow, pow_one]

/-- **Certified interval for the returned value.**  If `lo ≤ β ≤ hi` and `-1 ≤ lo`, the exact value for `r`
repetitions lies between `(1/2 + lo/2)^r` and `(1/2 + hi/2)^r`. -/
theorem xor_value_bounds (lo β hi : Rat) (r : Nat) (h0 : -1 ≤ lo) (h1 : lo ≤ β) (h2 : β ≤ hi) :
    (1 / 2 + lo / 2) ^ r ≤ xorValue (2 * β) r ∧ xorValue (2 * β) r ≤ (1 / 2 + hi / 2) ^ r := by
  have e : (2 * β) / 4 + 1 / 2 = 1 / 2 + β / 2 := by ring
  simp only [xorValue, e, ← powN_eq_pow]
  exact ⟨powN_mono _ _ (by linarith) (by linarith) r, powN_mono _ _ (by linarith) (by linarith) r⟩

/-! ## Parallel repetition: the value of `r` repetitions is the `r`-th power -/

section Repetition
variable {X Y : Type*} [Fintype X] [Fintype Y] [DecidableEq X] [DecidableEq Y] {d : Type*} [Fintype d] [DecidableEq d]

/-- **Perfect parallel repetition of XOR games (Cleve–Slofstra–Unger–Upadhyay), every `r`, every dimension.**
`andWin π f ρ E F` is the winning probability in the `r`-fold AND-repetition of the XOR game `(π, f)`: questions `x⃗ ∈ X^r`,
`y⃗ ∈ Y^r` drawn from `π^{⊗r}`, answers `a⃗, b⃗ ∈ {0,1}^r` produced by commuting measurements `E^{x⃗}_{a⃗}`, `F^{y⃗}_{b⃗}` (general POVMs) on a
state `ρ`, the players win iff `a_k ⊕ b_k = f(x_k, y_k)` in every round.  For a distribution `π`:
(i) if `(a, b)` is dual feasible for the single game (`[[diag a, −D], [−Dᵀ, diag b]] ⪰ 0`, `D = π·(-1)^f`), EVERY strategy wins
with probability at most `((1 + √(Σa·Σb))/2)^r ≤ (1/2 + 1/2·(Σa + Σb)/2)^r`;
(ii) for every single-round strategy `(ρ, A_x, B_y)` with ±1 observables, independent play (`ρ^{⊗r}`, projectors
`⊗_k (1 + (-1)^{a_k} A_{x_k})/2`) is a projective strategy of the repeated game (in particular a POVM strategy) and wins with
probability exactly `((1 + β)/2)^r`, `β = Σ D[x,y]⟨A_x B_y⟩` its single-round bias. -/
theorem xor_parallel_repetition (π : X → Y → ℝ) (f : X → Y → Bool) (hπ0 : ∀ x y, 0 ≤ π x y)
    (hπ1 : ∑ x, ∑ y, π x y = 1) (r : Nat) :
    (∀ (a : X → ℝ) (b : Y → ℝ), (tsirelsonDual (costB π f) a b).PosSemidef →
      ∀ (ρ : Matrix d d ℂ) (E : (Fin r → X) → (Fin r → Bool) → Matrix d d ℂ)
        (F : (Fin r → Y) → (Fin r → Bool) → Matrix d d ℂ), IsPovmStrategy ρ E F →
        andWin π f ρ E F ≤ ((1 + Real.sqrt ((∑ x, a x) * ∑ y, b y)) / 2) ^ r ∧
        ((1 + Real.sqrt ((∑ x, a x) * ∑ y, b y)) / 2) ^ r ≤ (1 / 2 + (∑ x, a x + ∑ y, b y) / 2 / 2) ^ r) ∧
    (∀ (ρ : Matrix d d ℂ) (A : X → Matrix d d ℂ) (B : Y → Matrix d d ℂ), IsStrategy ρ A B →
      IsProjStrategy (piKron fun _ : Fin r => ρ) (prodProj A) (prodProj B) ∧
      IsPovmStrategy (piKron fun _ : Fin r => ρ) (prodProj A) (prodProj B) ∧
      andWin (r := r) π f (piKron fun _ => ρ) (prodProj A) (prodProj B)
        = ((1 + ∑ x, ∑ y, costB π f x y * corrQ ρ A B x y) / 2) ^ r) := by
  refine ⟨fun a b hZ ρ E F hs => ⟨andWin_le_povm π f hπ0 hπ1 a b hZ ρ E F hs, ?_⟩,
    fun _ _ _ hs => ⟨isProjStrategy_prod hs, isPovmStrategy_of_proj (isProjStrategy_prod hs), andWin_prod π f hπ1 hs⟩⟩
  obtain ⟨ha, hb⟩ := tsirelsonDual_diag_nonneg hZ
  apply pow_le_pow_left₀ (by have := Real.sqrt_nonneg ((∑ x, a x) * ∑ y, b y); linarith)
  have := sqrt_mul_le_half_add (∑ x, a x) (∑ y, b y) (Finset.sum_nonneg fun x _ => ha x)
    (Finset.sum_nonneg fun y _ => hb y)
  linarith

/-- **What `quantum_value` returns for `reps = r` brackets the value of the repeated game.**  If the checkers accept a primal
certificate (value `lo`) and a dual certificate (value `hi`) of the single game `(prob, pred)` (a distribution, `pred` read
modulo 2), then for every `r`: some projective strategy of the `r`-fold repetition wins with probability exactly
`xorValue (2·lo) r = (1/2 + lo/2)^r`, and every strategy (general measurements, any dimension) wins with probability at most
`xorValue (2·hi) r = (1/2 + hi/2)^r` — the interval against which the harness compares `XORGame(…, reps=r).quantum_value()`. -/
theorem xor_repetition_bracket {m n k k' : Nat} (prob : Nat → Nat → Rat) (pred : Nat → Nat → Nat)
    (hp0 : ∀ x y, x < m → y < n → 0 ≤ prob x y) (hp1 : totalProb m n prob = 1)
    (Γ : EMat (m + n) (m + n)) (L : EMat (m + n) k) (a b : Nat → Rat) (L' : EMat (m + n) k') (lo hi : Rat)
    (hlo : checkXorPrimal m n (dMat prob pred) Γ L = some lo) (hhi : checkXorDual m n (dMat prob pred) a b L' = some hi)
    (r : Nat) :
    (∃ (d : Type) (_ : Fintype d) (_ : DecidableEq d) (ρ : Matrix d d ℂ)
      (P : (Fin r → Fin m) → (Fin r → Bool) → Matrix d d ℂ) (Q : (Fin r → Fin n) → (Fin r → Bool) → Matrix d d ℂ),
      IsProjStrategy ρ P Q ∧ andWin (castD prob) (predBit pred) ρ P Q = ((xorValue (2 * lo) r : Rat) : ℝ)) ∧
    ∀ (d : Type) [Fintype d] [DecidableEq d] (ρ : Matrix d d ℂ) (E : (Fin r → Fin m) → (Fin r → Bool) → Matrix d d ℂ)
      (F : (Fin r → Fin n) → (Fin r → Bool) → Matrix d d ℂ), IsPovmStrategy ρ E F →
      andWin (castD prob) (predBit pred) ρ E F ≤ ((xorValue (2 * hi) r : Rat) : ℝ) :=
  ⟨checkXorPrimal_repetition prob pred hp1 Γ L lo hlo r,
    fun _ _ _ ρ E F hs => checkXorDual_repetition_povm prob pred hp0 hp1 a b L' hi hhi r ρ E F hs⟩

end Repetition

/-! ## Behaviours and the non-signalling value -/

/-- **Winning probability through correlators.**  For every behaviour `p(a,b|x,y)` (normalised for each
question pair; classical, quantum, NPA or non-signalling alike) the winning probability in the converted game
is `Σπ/2 + (Σ D[x,y] E[x,y])/2` with `E[x,y] = Σ_{a,b} (-1)^{a+b} p(a,b|x,y)`. -/
theorem xor_win_eq_bias (m n : Nat) (prob : Nat → Nat → Rat) (pred : Nat → Nat → Nat)
    (p : Nat → Nat → Nat → Nat → Rat) (hf : ∀ x y, x < m → y < n → pred x y < 2)
    (hp : ∀ x y, x < m → y < n → behTotal p x y = 1) :
    behWin m n prob pred p
      = totalProb m n prob / 2 + (sumN m fun x => sumN n fun y => dMat prob pred x y * corr p x y) / 2 :=
  behWin_eq_bias m n prob pred p hf hp

/-- **The non-signalling value of every XOR game is `Σπ = 1`.**  The behaviour
`p(a,b|x,y) = 1/2 · [a ⊕ b = pred x y]` is non-negative, normalised, has uniform marginals (hence is
non-signalling) and wins with probability `Σπ`; no normalised non-negative behaviour wins with more. -/
theorem xor_ns_value_eq_one (m n : Nat) (prob : Nat → Nat → Rat) (pred : Nat → Nat → Nat)
    (hf : ∀ x y, x < m → y < n → pred x y < 2) (hprob : ∀ x y, x < m → y < n → 0 ≤ prob x y) :
    (∀ a b x y, 0 ≤ prBox pred a b x y) ∧
    (∀ x y, x < m → y < n → behTotal (prBox pred) x y = 1) ∧
    (∀ a x y, a < 2 → x < m → y < n → (sumN 2 fun b => prBox pred a b x y) = 1 / 2) ∧
    (∀ b x y, b < 2 → x < m → y < n → (sumN 2 fun a => prBox pred a b x y) = 1 / 2) ∧
    behWin m n prob pred (prBox pred) = totalProb m n prob ∧
    ∀ p : Nat → Nat → Nat → Nat → Rat, (∀ a b x y, 0 ≤ p a b x y) →
      (∀ x y, x < m → y < n → behTotal p x y = 1) → behWin m n prob pred p ≤ totalProb m n prob :=
  ⟨prBox_nonneg pred, fun x y hx hy => prBox_total pred x y (hf x y hx hy),
    fun a x y ha hx hy => prBox_marginalA pred a x y ha (hf x y hx hy),
    fun b x y hb hx hy => prBox_marginalB pred b x y hb (hf x y hx hy),
    behWin_prBox m n prob pred hf,
    fun p hp0 hp => behWin_le_total m n prob pred p hprob hp0 hp⟩

/-! ## Two-outcome Bell expressions (`bell_inequality_max`) -/

section Bell
variable {m n k : Nat}

/-- **Upper bound with marginal terms.**  If `checkBellDual` accepts with value `hi` (a Tsirelson dual
certificate of the extended coefficient matrix `[[t, bᵀ], [a, J]]`, value `(Σu + Σv)/2 − t`), then every
quantum strategy (any dimension) has
`Σ J[x,y]⟨A_x B_y⟩ + Σ a_x⟨A_x⟩ + Σ b_y⟨B_y⟩ ≤ hi`. -/
theorem checkBellDual_sound (J : Nat → Nat → Rat) (a b : Nat → Rat) (t : Rat) (u v : Nat → Rat)
    (L : EMat (m + 1 + (n + 1)) k) (hi : Rat) (hc : checkBellDual m n J a b t u v L = some hi)
    {d : Type*} [Fintype d] [DecidableEq d] (ρ : Matrix d d ℂ) (A : Fin m → Matrix d d ℂ)
    (B : Fin n → Matrix d d ℂ) (h : IsStrategy ρ A B) :
    bellValueR (castD J) (castV a) (castV b) ρ A B ≤ (hi : ℝ) :=
  checkBellDual_sound' J a b t u v L hi hc ρ A B h

/-- **Lower bound by an explicit strategy.**  If `checkBellStrategy` accepts with value `lo`, the matrices
denote a quantum strategy (density matrix, commuting Hermitian involutions) whose Bell value is exactly `lo`. -/
theorem checkBellStrategy_sound {N : Nat} (J : Nat → Nat → Rat) (a b : Nat → Rat) (ρ : EMat N N)
    (Lρ : EMat N k) (A : Fin m → EMat N N) (B : Fin n → EMat N N) (lo : Rat)
    (h : checkBellStrategy m n J a b ρ Lρ A B = some lo) :
    IsStrategy ρ.toM (fun x => (A x).toM) (fun y => (B y).toM) ∧
      bellValueR (castD J) (castV a) (castV b) ρ.toM (fun x => (A x).toM) (fun y => (B y).toM) = (lo : ℝ) :=
  checkBellStrategy_sound' J a b ρ Lρ A B lo h

/-- Accepted strategy and dual certificates bracket the quantum maximum of the Bell expression. -/
theorem bell_lo_le_hi {N k' : Nat} (J : Nat → Nat → Rat) (a b : Nat → Rat) (ρ : EMat N N) (Lρ : EMat N k)
    (A : Fin m → EMat N N) (B : Fin n → EMat N N) (t : Rat) (u v : Nat → Rat)
    (L : EMat (m + 1 + (n + 1)) k') (lo hi : Rat) (hlo : checkBellStrategy m n J a b ρ Lρ A B = some lo)
    (hhi : checkBellDual m n J a b t u v L = some hi) : (lo : ℝ) ≤ (hi : ℝ) := by
  obtain ⟨hs, hv⟩ := checkBellStrategy_sound J a b ρ Lρ A B lo hlo
  rw [← hv]
  exact checkBellDual_sound J a b t u v L hi hhi _ _ _ hs

/-- **The best deterministic assignment is attained by a quantum strategy and is a maximum.**
`bellDetMax` (enumeration of `2^(m+n)` sign pairs) is attained by a pair of sign vectors, dominates every
pair, and each sign pair `(s, t)` is the Bell value of a (one-dimensional) quantum strategy — so a correct
quantum maximiser never returns less than `bellDetMax`, and `bellDetMax ≤` every accepted dual bound. -/
theorem bell_det_le_opt (J : Nat → Nat → Rat) (a b : Nat → Rat) :
    (∃ s t, IsSignPair m n s t ∧ bellDet m n J a b s t = bellDetMax m n J a b) ∧
    (∀ s t, IsSignPair m n s t → bellDet m n J a b s t ≤ bellDetMax m n J a b) ∧
    (∀ s t, IsSignPair m n s t →
      ∃ (ρ : Matrix (Fin 1) (Fin 1) ℂ) (A : Fin m → Matrix (Fin 1) (Fin 1) ℂ)
        (B : Fin n → Matrix (Fin 1) (Fin 1) ℂ), IsStrategy ρ A B ∧
        bellValueR (castD J) (castV a) (castV b) ρ A B = ((bellDet m n J a b s t : Rat) : ℝ)) ∧
    ∀ (t : Rat) (u v : Nat → Rat) (L : EMat (m + 1 + (n + 1)) k) (hi : Rat),
      checkBellDual m n J a b t u v L = some hi → ((bellDetMax m n J a b : Rat) : ℝ) ≤ (hi : ℝ) := by
  have key : ∀ s t, IsSignPair m n s t →
      ∃ (ρ : Matrix (Fin 1) (Fin 1) ℂ) (A : Fin m → Matrix (Fin 1) (Fin 1) ℂ)
        (B : Fin n → Matrix (Fin 1) (Fin 1) ℂ), IsStrategy ρ A B ∧
        bellValueR (castD J) (castV a) (castV b) ρ A B = ((bellDet m n J a b s t : Rat) : ℝ) := by
    intro s t hst
    refine ⟨1, _, _, isStrategy_signs (castV s) (castV t) (castV_sign s hst.1) (castV_sign t hst.2), ?_⟩
    rw [bellValueR_signs, bellDet_cast]
  refine ⟨bellDetMax_attained m n J a b, bellDet_le_max m n J a b, key, ?_⟩
  intro t u v L hi hc
  obtain ⟨s, t', hst, e⟩ := bellDetMax_attained m n J a b
  obtain ⟨ρ, A, B, hs, hv⟩ := key s t' hst
  rw [← e, ← hv]
  exact checkBellDual_sound J a b t u v L hi hc ρ A B hs

/-- **Affine change of outcome labels** (0/1 outcomes, Clauser–Horne form, or any two values).  If Alice's
observable takes the values `α0, α1` then `A_x = ca + da·S_x` for a ±1 observable `S_x`
(`ca = (α0+α1)/2`, `da = (α0−α1)/2`), likewise `B_y = cb + db·T_y`.  For all correlators `e[x,y] = ⟨S_x T_y⟩`
and marginals `p_x = ⟨S_x⟩`, `q_y = ⟨T_y⟩`, the Bell expression in the original labels equals the constant
plus the Bell expression with the coefficients `bellAffine` in ±1 labels. -/
theorem bell_affine_change (J : Nat → Nat → Rat) (a b : Nat → Rat) (α0 α1 β0 β1 : Rat)
    (e : Nat → Nat → Rat) (p q : Nat → Rat) :
    (sumN m fun x => sumN n fun y => J x y *
          ((α0 + α1) / 2 * ((β0 + β1) / 2) + (α0 + α1) / 2 * ((β0 - β1) / 2) * q y
            + (α0 - α1) / 2 * ((β0 + β1) / 2) * p x + (α0 - α1) / 2 * ((β0 - β1) / 2) * e x y))
        + (sumN m fun x => a x * ((α0 + α1) / 2 + (α0 - α1) / 2 * p x))
        + (sumN n fun y => b y * ((β0 + β1) / 2 + (β0 - β1) / 2 * q y))
      = (bellAffine m n J a b α0 α1 β0 β1).2.2.2
        + (sumN m fun x => sumN n fun y => (bellAffine m n J a b α0 α1 β0 β1).1 x y * e x y)
        + (sumN m fun x => (bellAffine m n J a b α0 α1 β0 β1).2.1 x * p x)
        + (sumN n fun y => (bellAffine m n J a b α0 α1 β0 β1).2.2.1 y * q y) :=
  bellAffineC_spec m n J a b _ _ _ _ e p q

end Bell

/-! ## The checkers accept concrete instances (CHSH)

CHSH game: `prob = 1/4`, `pred x y = x ∧ y`, `D = 1/4 · [[1, 1], [1, −1]]`; classical bias `1/2`, quantum
bias `1/√2 ≈ 0.7071`.  A rational Gram matrix with correlations `±7/10` certifies `β ≥ 7/10`; the dual point
`a = b = (9/25, 9/25)` certifies `β ≤ 18/25`. -/

section Examples

private def chshProb : Nat → Nat → Rat := fun _ _ => 1 / 4
private def chshPred : Nat → Nat → Nat := fun x y => x * y
private def r4 (rows : Array (Array Rat)) : EMat 4 4 := EMat.ofRows (rows.map fun r => r.map QI.ofRat) 4 4

example : xorClassicalBias 2 2 (dMat chshProb chshPred) = 1 / 2 := by decide +kernel

example : xorClassicalValue 2 2 chshProb chshPred = 3 / 4 := by decide +kernel

example : xorClassicalCall 2 2 1 chshProb chshPred = some (3 / 4) := by decide +kernel

example : xorClassicalBiasBR 2 2 (dMat chshProb chshPred) = 1 / 2 ∧ xorClassicalValueBR 2 2 chshProb chshPred = 3 / 4 := by
  decide +kernel

example : xorInit 2 2 2 2 chshProb none = .ok (1 / 281474976710656) ∧ xorInit 2 2 2 3 chshProb none = .sizeMismatch
    ∧ xorInit 2 2 2 2 (fun x y => if x = 0 ∧ y = 0 then -1 / 4 else if x = 1 ∧ y = 1 then 3 / 4 else 1 / 4) none = .negative
    ∧ xorInit 2 2 2 2 (fun _ _ => 1 / 8) (some (1 / 1000)) = .notNormalised := by decide +kernel

example : checkXorPrimal 2 2 (dMat chshProb chshPred)
    (r4 #[#[1, 0, 7/10, 7/10], #[0, 1, 7/10, -7/10], #[7/10, 7/10, 1, 0], #[7/10, -7/10, 0, 1]])
    (r4 #[#[1, 0, 0, 0], #[0, 1, 0, 0], #[7/10, 7/10, 0, 0], #[7/10, -7/10, 0, 0]]) = some (7 / 10) := by
  decide +kernel

example : checkXorDual 2 2 (dMat chshProb chshPred) (fun _ => 9 / 25) (fun _ => 9 / 25)
    (r4 #[#[3/5, 0, 0, 0], #[0, 3/5, 0, 0], #[-5/12, -5/12, 0, 0], #[-5/12, 5/12, 0, 0]]) = some (18 / 25) := by
  decide +kernel

/-- the hypotheses of `xor_parallel_repetition` are satisfiable: the CHSH game (uniform questions, `f = x ∧ y`) with the dual
point `a = b = (9/25, 9/25)` of the example above; so every projective strategy wins `r` parallel CHSH games with probability at
most `(1/2 + 9/25)^r = (43/50)^r` -/
example : (∀ x y : Fin 2, (0 : ℝ) ≤ (castD chshProb : Fin 2 → Fin 2 → ℝ) x y) ∧
    (∑ x : Fin 2, ∑ y : Fin 2, (castD chshProb : Fin 2 → Fin 2 → ℝ) x y = 1) ∧
    (tsirelsonDual (costB (castD chshProb) (predBit (m := 2) (n := 2) chshPred)) (castV (m := 2) fun _ => 9 / 25)
      (castV (m := 2) fun _ => 9 / 25)).PosSemidef := by
  refine ⟨fun x y => by simp [castD, chshProb], by simp [castD, chshProb]; norm_num, ?_⟩
  have h : checkXorDual 2 2 (dMat chshProb chshPred) (fun _ => 9 / 25) (fun _ => 9 / 25)
      (r4 #[#[3/5, 0, 0, 0], #[0, 3/5, 0, 0], #[-5/12, -5/12, 0, 0], #[-5/12, 5/12, 0, 0]]) = some (18 / 25) := by
    decide +kernel
  have := (checkXorDual_sound' _ _ _ _ _ h).1
  rwa [castD_dMat] at this

/-- the hypotheses of `xor_classical_value_formula` hold for CHSH -/
example : (∀ x y, x < 2 → y < 2 → chshPred x y < 2) ∧ totalProb 2 2 chshProb = 1 := by
  refine ⟨fun x y hx hy => ?_, by decide +kernel⟩
  have : x * y ≤ 1 * 1 := Nat.mul_le_mul (by omega) (by omega)
  simp only [chshPred]; omega

/-! CHSH expression `⟨A₀B₀⟩ + ⟨A₀B₁⟩ + ⟨A₁B₀⟩ − ⟨A₁B₁⟩`: the maximally entangled state with the rational
observables `A₀ = Z⊗1`, `A₁ = X⊗1`, `B₀ = 1⊗(3Z+4X)/5`, `B₁ = 1⊗(3Z−4X)/5` is accepted as a strategy of value
`14/5 > 2`; the dual point `u = v = (0, 3/2, 3/2)`, `t = 0` certifies `≤ 3`. -/

private def chshJ : Nat → Nat → Rat := fun x y => if x = 1 ∧ y = 1 then -1 else 1
private def zero1 : Nat → Rat := fun _ => 0
private def r6 (rows : Array (Array Rat)) : EMat 6 6 := EMat.ofRows (rows.map fun r => r.map QI.ofRat) 6 6

private def exA : Fin 2 → EMat 4 4 := fun x =>
  if x.val = 0 then r4 #[#[1, 0, 0, 0], #[0, 1, 0, 0], #[0, 0, -1, 0], #[0, 0, 0, -1]]
  else r4 #[#[0, 0, 1, 0], #[0, 0, 0, 1], #[1, 0, 0, 0], #[0, 1, 0, 0]]
private def exB : Fin 2 → EMat 4 4 := fun y =>
  if y.val = 0 then r4 #[#[3/5, 4/5, 0, 0], #[4/5, -3/5, 0, 0], #[0, 0, 3/5, 4/5], #[0, 0, 4/5, -3/5]]
  else r4 #[#[3/5, -4/5, 0, 0], #[-4/5, -3/5, 0, 0], #[0, 0, 3/5, -4/5], #[0, 0, -4/5, -3/5]]

example : checkBellStrategy 2 2 chshJ zero1 zero1
    (r4 #[#[1/2, 0, 0, 1/2], #[0, 0, 0, 0], #[0, 0, 0, 0], #[1/2, 0, 0, 1/2]]) (EMat.zero : EMat 4 1) exA exB
    = some (14 / 5) := by decide +kernel

example : checkBellDual 2 2 chshJ zero1 zero1 0 (fun i => if i = 0 then 0 else 3 / 2) (fun i => if i = 0 then 0 else 3 / 2)
    (r6 #[#[0, 0, 0, 0, 0, 0], #[0, 6/5, 0, 0, 0, 0], #[0, 0, 6/5, 0, 0, 0], #[0, 0, 0, 0, 0, 0],
      #[0, -5/6, -5/6, 0, 0, 0], #[0, -5/6, 5/6, 0, 0, 0]]) = some 3 := by decide +kernel

example : bellDetMax 2 2 chshJ zero1 zero1 = 2 := by decide +kernel

end Examples

end Toq.C08
