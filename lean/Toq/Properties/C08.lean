import Toq.Proofs.Xor
/-!
# C08 — XOR games: Tsirelson's optimum, classical / non-signalling values, conversion to a general
game, repetitions; two-outcome Bell expressions

Vocabulary (definitions in `Toq.Model.Xor`, executable, and `Toq.Proofs.Xor`):

* `dMat prob pred x y = prob x y · (-1)^(pred x y)` — the cost matrix `D` of `XORGame.quantum_value`;
* `IsMoment Γ` — `Γ` positive semidefinite with unit diagonal (the Gram matrix of Alice's and Bob's unit
  vectors is such a matrix, and so is the matrix `tr(ρ O_i O_j)` of a quantum strategy);
* `tsirelsonDual D a b = [[diag a, −D], [−Dᵀ, diag b]]` — the matrix constrained to be PSD in
  `quantum_value`; the code minimises `Σa + Σb` and returns `(Σa + Σb)/4 + 1/2`, i.e. `1/2 + β/2` with
  `β = (Σa + Σb)/2`;
* `IsStrategy ρ A B` — density matrix `ρ`, Hermitian involutions `A_x`, `B_y` with `[A_x, B_y] = 0`;
* `nlgPred pred a b x y = [pred x y = a ⊕ b]` — the predicate of `XORGame.to_nonlocal_game`;
* `detWin`, `xorClassicalValue`, `signBias`, `xorClassicalBias`, `behWin`, `prBox`, `xorValue`,
  `bellExt`, `bellAffine`, `bellDetMax`, and the checkers `checkXorPrimal`, `checkXorDual`,
  `checkBellDual`, `checkBellStrategy`.

Cited, not proved: Tsirelson's theorem (every moment matrix `Γ` is realised by a quantum strategy, so that
the vector optimum is the quantum optimum — only the direction "strategy ⇒ moment matrix" is proved here,
`quantum_strategy_le_dual`), strong duality of the semidefinite program, Grothendieck's inequality
`β_Q ≤ K_G β_C`, perfect parallel repetition of XOR games (Cleve–Slofstra–Unger–Upadhyay).
-/

open Matrix
open scoped ComplexOrder MatrixOrder

namespace Toq.C08
open Toq.Xor EMat

/-! ## Tsirelson's semidefinite program: weak duality -/

section Duality
variable {X Y : Type*} [Fintype X] [Fintype Y] [DecidableEq X] [DecidableEq Y]

/-- **Weak duality of the Tsirelson program, all finite question sets.**  For every real cost matrix `D`,
every positive semidefinite `Γ` on `X ⊕ Y` with unit diagonal (a Gram matrix of unit vectors `u_x`, `v_y`,
with `Γ[x,y] = ⟨u_x, v_y⟩`) and every `(a, b)` such that `[[diag a, −D], [−Dᵀ, diag b]]` is positive
semidefinite: `Σ D[x,y] Γ[x,y] ≤ (Σa + Σb)/2`. -/
theorem tsirelson_weak_duality (D : X → Y → ℝ) (a : X → ℝ) (b : Y → ℝ) (Γ : Matrix (X ⊕ Y) (X ⊕ Y) ℂ)
    (hΓ : IsMoment Γ) (hZ : (tsirelsonDual D a b).PosSemidef) :
    ∑ x, ∑ y, D x y * (Γ (.inl x) (.inr y)).re ≤ (∑ x, a x + ∑ y, b y) / 2 :=
  tsirelson_weak_duality_sum D a b Γ hΓ hZ

/-- **Unit vectors never beat a dual-feasible point.**  For unit vectors `u_x, v_y ∈ ℝ^d` (any dimension)
the bias `Σ D[x,y] ⟨u_x, v_y⟩` is at most `(Σa + Σb)/2` for every dual-feasible `(a, b)`. -/
theorem tsirelson_vectors_le_dual {d : Type*} [Fintype d] (D : X → Y → ℝ) (a : X → ℝ) (b : Y → ℝ)
    (u : X → d → ℝ) (v : Y → d → ℝ) (hu : ∀ x, ∑ k, u x k ^ 2 = 1) (hv : ∀ y, ∑ k, v y k ^ 2 = 1)
    (hZ : (tsirelsonDual D a b).PosSemidef) :
    ∑ x, ∑ y, D x y * ∑ k, u x k * v y k ≤ (∑ x, a x + ∑ y, b y) / 2 :=
  vectors_le_dual D a b u v hu hv hZ

/-- **Quantum strategies never beat a dual-feasible point.**  For every finite-dimensional state `ρ` and
±1-valued observables `A_x`, `B_y` (Hermitian involutions), the bias `Σ D[x,y] Re tr(ρ A_x B_y)` is at most
`(Σa + Σb)/2` for every dual-feasible `(a, b)`. -/
theorem quantum_strategy_le_dual {d : Type*} [Fintype d] [DecidableEq d] (D : X → Y → ℝ) (a : X → ℝ)
    (b : Y → ℝ) (ρ : Matrix d d ℂ) (A : X → Matrix d d ℂ) (B : Y → Matrix d d ℂ) (h : IsStrategy ρ A B)
    (hZ : (tsirelsonDual D a b).PosSemidef) :
    ∑ x, ∑ y, D x y * (ρ * A x * B y).trace.re ≤ (∑ x, a x + ∑ y, b y) / 2 :=
  quantum_xor_le_dual D a b ρ A B h hZ

/-- **Every sign assignment is a feasible point** (`Γ = z zᵀ` with `z = (s, t)`): the classical bias
`Σ D[x,y] s_x t_y` is at most every dual bound — classical value ≤ quantum value. -/
theorem xor_signs_le_dual (D : X → Y → ℝ) (a : X → ℝ) (b : Y → ℝ) (s : X → ℝ) (t : Y → ℝ)
    (hs : ∀ x, s x = 1 ∨ s x = -1) (ht : ∀ y, t y = 1 ∨ t y = -1) (hZ : (tsirelsonDual D a b).PosSemidef) :
    ∑ x, ∑ y, D x y * (s x * t y) ≤ (∑ x, a x + ∑ y, b y) / 2 :=
  signs_le_dual D a b s t hs ht hZ

/-- **Level-1 NPA moment matrices give the same optimum (±1-observable basis).**  The level-1 moment matrix `R` of
the converted game in the basis of ±1 observables lives on `{1} ⊕ X ⊕ Y`, is positive semidefinite with unit
diagonal, and the winning probability is `1/2 + 1/2 Σ D[x,y] R[x,y]` (`xor_win_eq_bias`).  (i) Every such `R` obeys
every dual bound of the Tsirelson program; (ii) every feasible `Γ` of the Tsirelson program extends to such an `R`
with the same correlations.  Hence both programs have the same optimum. -/
theorem npa1_eq_tsirelson (D : X → Y → ℝ) (a : X → ℝ) (b : Y → ℝ) :
    (∀ R : Matrix (Unit ⊕ (X ⊕ Y)) (Unit ⊕ (X ⊕ Y)) ℂ, IsMoment R → (tsirelsonDual D a b).PosSemidef →
      ∑ x, ∑ y, D x y * (R (.inr (.inl x)) (.inr (.inr y))).re ≤ (∑ x, a x + ∑ y, b y) / 2) ∧
    (∀ Γ : Matrix (X ⊕ Y) (X ⊕ Y) ℂ, IsMoment Γ →
      ∃ R : Matrix (Unit ⊕ (X ⊕ Y)) (Unit ⊕ (X ⊕ Y)) ℂ, IsMoment R ∧
        ∀ x y, R (.inr (.inl x)) (.inr (.inr y)) = Γ (.inl x) (.inr y)) :=
  ⟨fun R hR hZ => npa1_le_dual' D a b R hR hZ,
    fun Γ hΓ => ⟨_, isMoment_extend Γ hΓ, fun _ _ => rfl⟩⟩

/-- **Level-1 NPA matrix in toqito's projector basis.**  toqito's level-1 matrix `R` is indexed by the words
`1, A_x^0, B_y^0` (projectors on outcome 0): positive semidefinite, `R[1,1] = 1`, `R[P,P] = R[1,P]`, and
`R[A_x^0, B_y^0] = p(0,0|x,y)`, `R[1, A_x^0] = p_A(0|x)`, `R[1, B_y^0] = p_B(0|y)`.  The correlators
`E[x,y] = 4 p(0,0|x,y) − 2 p_A(0|x) − 2 p_B(0|y) + 1` of every such matrix obey every dual bound of the Tsirelson
program: the level-1 NPA value of the converted game is at most `1/2 + 1/2 · (Σa + Σb)/2`. -/
theorem npa1_projector_le_dual (D : X → Y → ℝ) (a : X → ℝ) (b : Y → ℝ)
    (R : Matrix (Unit ⊕ (X ⊕ Y)) (Unit ⊕ (X ⊕ Y)) ℂ) (hR : R.PosSemidef) (h1 : R (.inl ()) (.inl ()) = 1)
    (hp : ∀ i, R (.inr i) (.inr i) = R (.inl ()) (.inr i)) (hZ : (tsirelsonDual D a b).PosSemidef) :
    ∑ x, ∑ y, D x y * (4 * R (.inr (.inl x)) (.inr (.inr y)) - 2 * R (.inr (.inl x)) (.inl ())
        - 2 * R (.inl ()) (.inr (.inr y)) + 1).re ≤ (∑ x, a x + ∑ y, b y) / 2 := by
  have h := npa1_le_dual' D a b _ (isMoment_basisChange R hR h1 hp) hZ
  simp only [basisChange_entry, h1] at h
  exact h

end Duality

/-! ## The mirror data of `quantum_value` denote the mathematical objects -/

/-- **Cost matrix.**  For a 0/1 predicate, `d_mat[x,y] = prob[x,y] · (-1)^pred[x,y]` is `+prob[x,y]` where the
players must answer equal bits and `−prob[x,y]` where they must answer different bits. -/
theorem dMat_sign (prob : Nat → Nat → Rat) (pred : Nat → Nat → Nat) (x y : Nat) (hf : pred x y < 2) :
    dMat prob pred x y = if pred x y = 0 then prob x y else -prob x y := by
  have h : pred x y = 0 ∨ pred x y = 1 := by omega
  rcases h with h | h <;> simp [dMat, h, negOnePow_zero, negOnePow_one]

/-- **Constraint matrix.**  The matrix assembled by `cvxpy.bmat([[diag(u), -D], [-Dᵀ, diag(v)]])` (rows and columns
`0 … m-1` Alice, `m … m+n-1` Bob) is, up to the canonical identification `Fin m ⊕ Fin n ≃ Fin (m+n)`, the block
matrix `tsirelsonDual D u v` of the weak-duality theorem. -/
theorem xor_dual_matrix_mirror {m n : Nat} (D : Nat → Nat → Rat) (u v : Nat → Rat) :
    (xorDualMat m n D u v).toM.submatrix finSumFinEquiv finSumFinEquiv
      = tsirelsonDual (castD D) (castV (m := m) u) (castV (m := n) v) :=
  toM_xorDualMat_submatrix D u v

/-! ## Verified certificate checkers -/

section Checkers
variable {m n k : Nat}

/-- **Primal checker.**  If `checkXorPrimal` accepts `Γ` with value `lo`, then `Γ` denotes a positive
semidefinite matrix with unit diagonal whose bias `Σ D[x,y] Re Γ[x, m+y]` is exactly `lo`: `lo` is a lower
bound of the Tsirelson optimum of `D`. -/
theorem checkXorPrimal_sound (D : Nat → Nat → Rat) (Γ : EMat (m + n) (m + n)) (L : EMat (m + n) k) (lo : Rat)
    (h : checkXorPrimal m n D Γ L = some lo) :
    IsMoment Γ.toM ∧ xorObjective (castD D) Γ.toM = (lo : ℝ) :=
  checkXorPrimal_sound' D Γ L lo h

/-- **Dual checker.**  If `checkXorDual` accepts `(a, b)` with value `hi`, then EVERY positive semidefinite
`Γ'` with unit diagonal has bias at most `hi`. -/
theorem checkXorDual_sound (D : Nat → Nat → Rat) (a b : Nat → Rat) (L : EMat (m + n) k) (hi : Rat)
    (h : checkXorDual m n D a b L = some hi) :
    ∀ Γ' : Matrix (Fin (m + n)) (Fin (m + n)) ℂ, IsMoment Γ' → xorObjective (castD D) Γ' ≤ (hi : ℝ) := by
  obtain ⟨hZ, hv⟩ := checkXorDual_sound' D a b L hi h
  intro Γ' hΓ'
  rw [← hv]
  exact tsirelson_weak_duality_fin _ _ _ Γ' hΓ' hZ

/-- **Dual checker, unit vectors and quantum strategies.**  An accepted dual certificate bounds the bias of
every family of unit vectors (any dimension) and of every quantum strategy (any dimension). -/
theorem checkXorDual_sound_strategies (D : Nat → Nat → Rat) (a b : Nat → Rat) (L : EMat (m + n) k) (hi : Rat)
    (h : checkXorDual m n D a b L = some hi) :
    (∀ (d : Type) [Fintype d] (u : Fin m → d → ℝ) (v : Fin n → d → ℝ),
        (∀ x, ∑ i, u x i ^ 2 = 1) → (∀ y, ∑ i, v y i ^ 2 = 1) →
        ∑ x, ∑ y, castD D x y * ∑ i, u x i * v y i ≤ (hi : ℝ)) ∧
    (∀ (d : Type) [Fintype d] [DecidableEq d] (ρ : Matrix d d ℂ) (A : Fin m → Matrix d d ℂ)
        (B : Fin n → Matrix d d ℂ), IsStrategy ρ A B →
        ∑ x, ∑ y, castD D x y * (ρ * A x * B y).trace.re ≤ (hi : ℝ)) := by
  obtain ⟨hZ, hv⟩ := checkXorDual_sound' D a b L hi h
  refine ⟨fun d _ u v hu hv' => ?_, fun d _ _ ρ A B hs => ?_⟩
  · rw [← hv]; exact vectors_le_dual _ _ _ u v hu hv' hZ
  · rw [← hv]; exact quantum_xor_le_dual _ _ _ ρ A B hs hZ

/-- Accepted primal and dual certificates bracket the optimum. -/
theorem xor_lo_le_hi (D : Nat → Nat → Rat) (Γ : EMat (m + n) (m + n)) (L : EMat (m + n) k) (a b : Nat → Rat)
    {k' : Nat} (L' : EMat (m + n) k') (lo hi : Rat) (hlo : checkXorPrimal m n D Γ L = some lo)
    (hhi : checkXorDual m n D a b L' = some hi) : (lo : ℝ) ≤ (hi : ℝ) := by
  obtain ⟨hΓ, hv⟩ := checkXorPrimal_sound D Γ L lo hlo
  rw [← hv]
  exact checkXorDual_sound D a b L' hi hhi _ hΓ

end Checkers

/-! ## Classical value -/

/-- **The classical bias is the maximum over ±1 assignments.**  `xorClassicalBias m n D` (computed by
enumerating `2^(m+n)` codes) is attained by a pair of sign vectors and dominates `Σ D[x,y] s_x t_y` for every
pair of sign vectors. -/
theorem xor_classical_eq_sign_max (m n : Nat) (D : Nat → Nat → Rat) :
    (∃ s t, IsSignPair m n s t ∧ signBias m n D s t = xorClassicalBias m n D) ∧
      ∀ s t, IsSignPair m n s t → signBias m n D s t ≤ xorClassicalBias m n D :=
  ⟨classicalBias_attained m n D, signBias_le_classicalBias m n D⟩

/-- **The classical value is the maximum over deterministic strategies of the converted game.**
`xorClassicalValue` is attained by a pair of answer functions and dominates the winning probability
`Σ prob x y · [pred x y = α x ⊕ β y]` of every pair of bit-valued answer functions. -/
theorem xor_classical_value_is_max (m n : Nat) (prob : Nat → Nat → Rat) (pred : Nat → Nat → Nat) :
    (∃ α β, IsBitStrategy m n α β ∧ detWin m n prob pred α β = xorClassicalValue m n prob pred) ∧
      ∀ α β, IsBitStrategy m n α β → detWin m n prob pred α β ≤ xorClassicalValue m n prob pred :=
  ⟨classicalValue_attained m n prob pred, detWin_le_classicalValue m n prob pred⟩

/-- **Conversion to a general game.**  With the predicate `V(a,b|x,y) = [pred x y = a ⊕ b]`, the winning
probability of the deterministic strategy `a = α x`, `b = β y` equals `Σπ/2 + (Σ D[x,y] s_x t_y)/2` with
`s = (-1)^α`, `t = (-1)^β` (for a 0/1 predicate; `Σπ = 1` for a distribution). -/
theorem xor_conversion (m n : Nat) (prob : Nat → Nat → Rat) (pred : Nat → Nat → Nat) (α β : Nat → Nat)
    (hf : ∀ x y, x < m → y < n → pred x y < 2) (h : IsBitStrategy m n α β) :
    detWin m n prob pred α β
      = totalProb m n prob / 2
        + signBias m n (dMat prob pred) (fun x => negOnePow (α x)) (fun y => negOnePow (β y)) / 2 :=
  detWin_eq_bias m n prob pred α β hf h.1 h.2

/-- **Classical value = 1/2 + 1/2 · classical bias** for a distribution and a 0/1 predicate: the XOR game and
its conversion have the same classical value. -/
theorem xor_classical_value_formula (m n : Nat) (prob : Nat → Nat → Rat) (pred : Nat → Nat → Nat)
    (hf : ∀ x y, x < m → y < n → pred x y < 2) (hp : totalProb m n prob = 1) :
    xorClassicalValue m n prob pred = 1 / 2 + xorClassicalBias m n (dMat prob pred) / 2 := by
  rw [classicalValue_eq_bias m n prob pred hf, hp]

/-- **Classical ≤ quantum.**  The classical bias is at most every accepted dual bound. -/
theorem xor_classical_le_quantum {m n k : Nat} (D : Nat → Nat → Rat) (a b : Nat → Rat) (L : EMat (m + n) k)
    (hi : Rat) (h : checkXorDual m n D a b L = some hi) : ((xorClassicalBias m n D : Rat) : ℝ) ≤ (hi : ℝ) := by
  obtain ⟨hZ, hv⟩ := checkXorDual_sound' D a b L hi h
  obtain ⟨s, t, hst, e⟩ := classicalBias_attained m n D
  rw [← e, signBias_cast, ← hv]
  exact signs_le_dual _ _ _ _ _ (castV_sign s hst.1) (castV_sign t hst.2) hZ

/-! ## The value returned by `quantum_value`, repetitions -/

/-- **Value formula.**  When the solver returns `s = Σa + Σb = 2β`, `quantum_value` (one repetition) returns
`1/2 + β/2`. -/
theorem xor_value_formula (β : Rat) : xorValue (2 * β) 1 = 1 / 2 + β / 2 := by
  simp only [xorValue, powN]; ring

/-- **Repetitions.**  With `reps = r`, `quantum_value` returns the `r`-th power of the single-shot value. -/
theorem xor_reps_power (s : Rat) (r : Nat) : xorValue s r = xorValue s 1 ^ r := by
  simp only [xorValue, powN_eq_pow, pow_one]

/-- **Certified interval for the returned value.**  If `lo ≤ β ≤ hi` and `-1 ≤ lo`, the exact value for `r`
repetitions lies between `(1/2 + lo/2)^r` and `(1/2 + hi/2)^r`. -/
theorem xor_value_bounds (lo β hi : Rat) (r : Nat) (h0 : -1 ≤ lo) (h1 : lo ≤ β) (h2 : β ≤ hi) :
    (1 / 2 + lo / 2) ^ r ≤ xorValue (2 * β) r ∧ xorValue (2 * β) r ≤ (1 / 2 + hi / 2) ^ r := by
  have e : (2 * β) / 4 + 1 / 2 = 1 / 2 + β / 2 := by ring
  simp only [xorValue, e, ← powN_eq_pow]
  exact ⟨powN_mono _ _ (by linarith) (by linarith) r, powN_mono _ _ (by linarith) (by linarith) r⟩

/-! ## Behaviours and the non-signalling value -/

/-- **Winning probability through correlators.**  For every behaviour `p(a,b|x,y)` (normalised for each
question pair; classical, quantum, NPA or non-signalling alike) the winning probability in the converted game
is `Σπ/2 + (Σ D[x,y] E[x,y])/2` with `E[x,y] = Σ_{a,b} (-1)^{a+b} p(a,b|x,y)`. -/
theorem xor_win_eq_bias (m n : Nat) (prob : Nat → Nat → Rat) (pred : Nat → Nat → Nat)
    (p : Nat → Nat → Nat → Nat → Rat) (hf : ∀ x y, x < m → y < n → pred x y < 2)
    (hp : ∀ x y, x < m → y < n → behTotal p x y = 1) :
    behWin m n prob pred p
      = totalProb m n prob / 2 + (sumN m fun x => sumN n fun y => dMat prob pred x y * corr p x y) / 2 :=
  behWin_eq_bias m n prob pred p hf hp

/-- **The non-signalling value of every XOR game is `Σπ = 1`.**  The behaviour
`p(a,b|x,y) = 1/2 · [a ⊕ b = pred x y]` is non-negative, normalised, has uniform marginals (hence is
non-signalling) and wins with probability `Σπ`; no normalised non-negative behaviour wins with more. -/
theorem xor_ns_value_eq_one (m n : Nat) (prob : Nat → Nat → Rat) (pred : Nat → Nat → Nat)
    (hf : ∀ x y, x < m → y < n → pred x y < 2) (hprob : ∀ x y, x < m → y < n → 0 ≤ prob x y) :
    (∀ a b x y, 0 ≤ prBox pred a b x y) ∧
    (∀ x y, x < m → y < n → behTotal (prBox pred) x y = 1) ∧
    (∀ a x y, a < 2 → x < m → y < n → (sumN 2 fun b => prBox pred a b x y) = 1 / 2) ∧
    (∀ b x y, b < 2 → x < m → y < n → (sumN 2 fun a => prBox pred a b x y) = 1 / 2) ∧
    behWin m n prob pred (prBox pred) = totalProb m n prob ∧
    ∀ p : Nat → Nat → Nat → Nat → Rat, (∀ a b x y, 0 ≤ p a b x y) →
      (∀ x y, x < m → y < n → behTotal p x y = 1) → behWin m n prob pred p ≤ totalProb m n prob :=
  ⟨prBox_nonneg pred, fun x y hx hy => prBox_total pred x y (hf x y hx hy),
    fun a x y ha hx hy => prBox_marginalA pred a x y ha (hf x y hx hy),
    fun b x y hb hx hy => prBox_marginalB pred b x y hb (hf x y hx hy),
    behWin_prBox m n prob pred hf,
    fun p hp0 hp => behWin_le_total m n prob pred p hprob hp0 hp⟩

/-! ## Two-outcome Bell expressions (`bell_inequality_max`) -/

section Bell
variable {m n k : Nat}

/-- **Upper bound with marginal terms.**  If `checkBellDual` accepts with value `hi` (a Tsirelson dual
certificate of the extended coefficient matrix `[[t, bᵀ], [a, J]]`, value `(Σu + Σv)/2 − t`), then every
quantum strategy (any dimension) has
`Σ J[x,y]⟨A_x B_y⟩ + Σ a_x⟨A_x⟩ + Σ b_y⟨B_y⟩ ≤ hi`. -/
theorem checkBellDual_sound (J : Nat → Nat → Rat) (a b : Nat → Rat) (t : Rat) (u v : Nat → Rat)
    (L : EMat (m + 1 + (n + 1)) k) (hi : Rat) (hc : checkBellDual m n J a b t u v L = some hi)
    {d : Type*} [Fintype d] [DecidableEq d] (ρ : Matrix d d ℂ) (A : Fin m → Matrix d d ℂ)
    (B : Fin n → Matrix d d ℂ) (h : IsStrategy ρ A B) :
    bellValueR (castD J) (castV a) (castV b) ρ A B ≤ (hi : ℝ) :=
  checkBellDual_sound' J a b t u v L hi hc ρ A B h

/-- **Lower bound by an explicit strategy.**  If `checkBellStrategy` accepts with value `lo`, the matrices
denote a quantum strategy (density matrix, commuting Hermitian involutions) whose Bell value is exactly `lo`. -/
theorem checkBellStrategy_sound {N : Nat} (J : Nat → Nat → Rat) (a b : Nat → Rat) (ρ : EMat N N)
    (Lρ : EMat N k) (A : Fin m → EMat N N) (B : Fin n → EMat N N) (lo : Rat)
    (h : checkBellStrategy m n J a b ρ Lρ A B = some lo) :
    IsStrategy ρ.toM (fun x => (A x).toM) (fun y => (B y).toM) ∧
      bellValueR (castD J) (castV a) (castV b) ρ.toM (fun x => (A x).toM) (fun y => (B y).toM) = (lo : ℝ) :=
  checkBellStrategy_sound' J a b ρ Lρ A B lo h

/-- Accepted strategy and dual certificates bracket the quantum maximum of the Bell expression. -/
theorem bell_lo_le_hi {N k' : Nat} (J : Nat → Nat → Rat) (a b : Nat → Rat) (ρ : EMat N N) (Lρ : EMat N k)
    (A : Fin m → EMat N N) (B : Fin n → EMat N N) (t : Rat) (u v : Nat → Rat)
    (L : EMat (m + 1 + (n + 1)) k') (lo hi : Rat) (hlo : checkBellStrategy m n J a b ρ Lρ A B = some lo)
    (hhi : checkBellDual m n J a b t u v L = some hi) : (lo : ℝ) ≤ (hi : ℝ) := by
  obtain ⟨hs, hv⟩ := checkBellStrategy_sound J a b ρ Lρ A B lo hlo
  rw [← hv]
  exact checkBellDual_sound J a b t u v L hi hhi _ _ _ hs

/-- **The best deterministic assignment is attained by a quantum strategy and is a maximum.**
`bellDetMax` (enumeration of `2^(m+n)` sign pairs) is attained by a pair of sign vectors, dominates every
pair, and each sign pair `(s, t)` is the Bell value of a (one-dimensional) quantum strategy — so a correct
quantum maximiser never returns less than `bellDetMax`, and `bellDetMax ≤` every accepted dual bound. -/
theorem bell_det_le_opt (J : Nat → Nat → Rat) (a b : Nat → Rat) :
    (∃ s t, IsSignPair m n s t ∧ bellDet m n J a b s t = bellDetMax m n J a b) ∧
    (∀ s t, IsSignPair m n s t → bellDet m n J a b s t ≤ bellDetMax m n J a b) ∧
    (∀ s t, IsSignPair m n s t →
      ∃ (ρ : Matrix (Fin 1) (Fin 1) ℂ) (A : Fin m → Matrix (Fin 1) (Fin 1) ℂ)
        (B : Fin n → Matrix (Fin 1) (Fin 1) ℂ), IsStrategy ρ A B ∧
        bellValueR (castD J) (castV a) (castV b) ρ A B = ((bellDet m n J a b s t : Rat) : ℝ)) ∧
    ∀ (t : Rat) (u v : Nat → Rat) (L : EMat (m + 1 + (n + 1)) k) (hi : Rat),
      checkBellDual m n J a b t u v L = some hi → ((bellDetMax m n J a b : Rat) : ℝ) ≤ (hi : ℝ) := by
  have key : ∀ s t, IsSignPair m n s t →
      ∃ (ρ : Matrix (Fin 1) (Fin 1) ℂ) (A : Fin m → Matrix (Fin 1) (Fin 1) ℂ)
        (B : Fin n → Matrix (Fin 1) (Fin 1) ℂ), IsStrategy ρ A B ∧
        bellValueR (castD J) (castV a) (castV b) ρ A B = ((bellDet m n J a b s t : Rat) : ℝ) := by
    intro s t hst
    refine ⟨1, _, _, isStrategy_signs (castV s) (castV t) (castV_sign s hst.1) (castV_sign t hst.2), ?_⟩
    rw [bellValueR_signs, bellDet_cast]
  refine ⟨bellDetMax_attained m n J a b, bellDet_le_max m n J a b, key, ?_⟩
  intro t u v L hi hc
  obtain ⟨s, t', hst, e⟩ := bellDetMax_attained m n J a b
  obtain ⟨ρ, A, B, hs, hv⟩ := key s t' hst
  rw [← e, ← hv]
  exact checkBellDual_sound J a b t u v L hi hc ρ A B hs

/-- **Affine change of outcome labels** (0/1 outcomes, Clauser–Horne form, or any two values).  If Alice's
observable takes the values `α0, α1` then `A_x = ca + da·S_x` for a ±1 observable `S_x`
(`ca = (α0+α1)/2`, `da = (α0−α1)/2`), likewise `B_y = cb + db·T_y`.  For all correlators `e[x,y] = ⟨S_x T_y⟩`
and marginals `p_x = ⟨S_x⟩`, `q_y = ⟨T_y⟩`, the Bell expression in the original labels equals the constant
plus the Bell expression with the coefficients `bellAffine` in ±1 labels. -/
theorem bell_affine_change (J : Nat → Nat → Rat) (a b : Nat → Rat) (α0 α1 β0 β1 : Rat)
    (e : Nat → Nat → Rat) (p q : Nat → Rat) :
    (sumN m fun x => sumN n fun y => J x y *
          ((α0 + α1) / 2 * ((β0 + β1) / 2) + (α0 + α1) / 2 * ((β0 - β1) / 2) * q y
            + (α0 - α1) / 2 * ((β0 + β1) / 2) * p x + (α0 - α1) / 2 * ((β0 - β1) / 2) * e x y))
        + (sumN m fun x => a x * ((α0 + α1) / 2 + (α0 - α1) / 2 * p x))
        + (sumN n fun y => b y * ((β0 + β1) / 2 + (β0 - β1) / 2 * q y))
      = (bellAffine m n J a b α0 α1 β0 β1).2.2.2
        + (sumN m fun x => sumN n fun y => (bellAffine m n J a b α0 α1 β0 β1).1 x y * e x y)
        + (sumN m fun x => (bellAffine m n J a b α0 α1 β0 β1).2.1 x * p x)
        + (sumN n fun y => (bellAffine m n J a b α0 α1 β0 β1).2.2.1 y * q y) :=
  bellAffineC_spec m n J a b _ _ _ _ e p q

end Bell

/-! ## The checkers accept concrete instances (CHSH)

CHSH game: `prob = 1/4`, `pred x y = x ∧ y`, `D = 1/4 · [[1, 1], [1, −1]]`; classical bias `1/2`, quantum
bias `1/√2 ≈ 0.7071`.  A rational Gram matrix with correlations `±7/10` certifies `β ≥ 7/10`; the dual point
`a = b = (9/25, 9/25)` certifies `β ≤ 18/25`. -/

section Examples

private def chshProb : Nat → Nat → Rat := fun _ _ => 1 / 4
private def chshPred : Nat → Nat → Nat := fun x y => x * y
private def r4 (rows : Array (Array Rat)) : EMat 4 4 := EMat.ofRows (rows.map fun r => r.map QI.ofRat) 4 4

example : xorClassicalBias 2 2 (dMat chshProb chshPred) = 1 / 2 := by decide +kernel

example : xorClassicalValue 2 2 chshProb chshPred = 3 / 4 := by decide +kernel

example : checkXorPrimal 2 2 (dMat chshProb chshPred)
    (r4 #[#[1, 0, 7/10, 7/10], #[0, 1, 7/10, -7/10], #[7/10, 7/10, 1, 0], #[7/10, -7/10, 0, 1]])
    (r4 #[#[1, 0, 0, 0], #[0, 1, 0, 0], #[7/10, 7/10, 0, 0], #[7/10, -7/10, 0, 0]]) = some (7 / 10) := by
  decide +kernel

example : checkXorDual 2 2 (dMat chshProb chshPred) (fun _ => 9 / 25) (fun _ => 9 / 25)
    (r4 #[#[3/5, 0, 0, 0], #[0, 3/5, 0, 0], #[-5/12, -5/12, 0, 0], #[-5/12, 5/12, 0, 0]]) = some (18 / 25) := by
  decide +kernel

/-- the hypotheses of `xor_classical_value_formula` hold for CHSH -/
example : (∀ x y, x < 2 → y < 2 → chshPred x y < 2) ∧ totalProb 2 2 chshProb = 1 := by
  refine ⟨fun x y hx hy => ?_, by decide +kernel⟩
  have : x * y ≤ 1 * 1 := Nat.mul_le_mul (by omega) (by omega)
  simp only [chshPred]; omega

/-! CHSH expression `⟨A₀B₀⟩ + ⟨A₀B₁⟩ + ⟨A₁B₀⟩ − ⟨A₁B₁⟩`: the maximally entangled state with the rational
observables `A₀ = Z⊗1`, `A₁ = X⊗1`, `B₀ = 1⊗(3Z+4X)/5`, `B₁ = 1⊗(3Z−4X)/5` is accepted as a strategy of value
`14/5 > 2`; the dual point `u = v = (0, 3/2, 3/2)`, `t = 0` certifies `≤ 3`. -/

private def chshJ : Nat → Nat → Rat := fun x y => if x = 1 ∧ y = 1 then -1 else 1
private def zero1 : Nat → Rat := fun _ => 0
private def r6 (rows : Array (Array Rat)) : EMat 6 6 := EMat.ofRows (rows.map fun r => r.map QI.ofRat) 6 6

private def exA : Fin 2 → EMat 4 4 := fun x =>
  if x.val = 0 then r4 #[#[1, 0, 0, 0], #[0, 1, 0, 0], #[0, 0, -1, 0], #[0, 0, 0, -1]]
  else r4 #[#[0, 0, 1, 0], #[0, 0, 0, 1], #[1, 0, 0, 0], #[0, 1, 0, 0]]
private def exB : Fin 2 → EMat 4 4 := fun y =>
  if y.val = 0 then r4 #[#[3/5, 4/5, 0, 0], #[4/5, -3/5, 0, 0], #[0, 0, 3/5, 4/5], #[0, 0, 4/5, -3/5]]
  else r4 #[#[3/5, -4/5, 0, 0], #[-4/5, -3/5, 0, 0], #[0, 0, 3/5, -4/5], #[0, 0, -4/5, -3/5]]

example : checkBellStrategy 2 2 chshJ zero1 zero1
    (r4 #[#[1/2, 0, 0, 1/2], #[0, 0, 0, 0], #[0, 0, 0, 0], #[1/2, 0, 0, 1/2]]) (EMat.zero : EMat 4 1) exA exB
    = some (14 / 5) := by decide +kernel

example : checkBellDual 2 2 chshJ zero1 zero1 0 (fun i => if i = 0 then 0 else 3 / 2) (fun i => if i = 0 then 0 else 3 / 2)
    (r6 #[#[0, 0, 0, 0, 0, 0], #[0, 6/5, 0, 0, 0, 0], #[0, 0, 6/5, 0, 0, 0], #[0, 0, 0, 0, 0, 0],
      #[0, -5/6, -5/6, 0, 0, 0], #[0, -5/6, 5/6, 0, 0, 0]]) = some 3 := by decide +kernel

example : bellDetMax 2 2 chshJ zero1 zero1 = 2 := by decide +kernel

end Examples

end Toq.C08
