import Toq.Proofs.ExtGames
import Toq.Proofs.ExtGamesRep
import Toq.Proofs.ExtGamesClosed
import Toq.Proofs.ExtGamesNpaQ
import Toq.Properties.C07
/-!
# C09 — extended nonlocal games, quantum hedging, optimal cloning

**Extended games.**  A game has answer sets `A`, `B`, question sets `X`, `Y`, a distribution `π` on `X × Y`
and referee operators `P a b x y` on `ℂ^d`.  A deterministic unentangled strategy is a pair of answer
functions `f : X → A`, `g : Y → B` and a state `ρ` of the referee; its value is
`Re tr(M_{f,g} ρ)` with the question-averaged operator `M_{f,g} = Σ_{x,y} π(x,y) P (f x) (g y) x y`
(`avgMat`).  `unentangled_eq_max_over_functions` says that a number bounds the value of every such strategy iff
it bounds `λ_max(M_{f,g})` for every pair of *functions* — i.e. the unentangled value is
`max_{f,g} λ_max(M_{f,g})`.  The executable checkers enclose this number (`checkUnentLower`, `checkUnentUpper`)
and, separately, the number that toqito's loop over *constant* answers computes (`checkUnentConst…`).

**Hedging and cloning.**  On `ℂ^a ⊗ ℂ^b` (first factor: the systems that are traced out):
primal `max/min Re tr(Q X)` s.t. `Tr_1 X = 1`, `X ⪰ 0`; dual `min tr Y` s.t. `1 ⊗ Y ⪰ Q` resp.
`max tr Y` s.t. `1 ⊗ Y ⪯ Q`.  Weak duality holds for all `a, b, Q` and for every arrangement of the tensor
factors (`hedging_weak_duality_reps`, which covers toqito's `Y₁X₁Y₂X₂` order for two repetitions), and the
checkers certify primal-feasible points and dual bounds exactly.

**Repetitions.**  Tensor products of primal-feasible points are primal feasible and their values multiply; for positive
semidefinite `Q` tensor products of dual-feasible points are dual feasible (`hedging_reps_product_feasible`,
`hedging_reps_dual_product`) — for every number of repetitions, in toqito's order of the tensor factors; hence the maximum is
multiplicative whenever single-shot strong duality is certified (`hedging_reps_multiplicative`, `cloning_reps_multiplicative`),
with the model-level form for two repetitions on toqito's arrays (`hedge2_product_bracket`, `clone2_product_bracket`).
Closed forms: Wiesner's money `3/4` and `(3/4)ⁿ` (`wiesner_three_quarters`, `wiesner_n_fold`), rank-one operators in Schmidt form
`(Σ aᵢ)²` and the Molina–Watrous value `cos²(π/8)`, `cos²ⁿ(π/8)` (`hedging_rank_one_closed_form`, `molina_watrous_cos_sq`,
`molina_watrous_n_fold`).

**Ordering.**  Deterministic (`ext_npa_sound_det`) and quantum commuting-measurement strategies (`ext_npa_sound_quantum`,
`ext_npa_objective_quantum`) are feasible points of the NPA relaxation with referee blocks, every NPA-feasible assemblage is
non-signalling (`ext_npa_le_ns`), higher levels are tighter (`ext_npa_level_mono`, `ext_npa_levels_chain`); product strategies in
the product game of `ExtendedNonlocalGame(…, reps)` (`ext_reps_product_strategy`).
-/

open Matrix Kronecker
open scoped ComplexOrder MatrixOrder

namespace Toq.C09
open Toq.ExtGames EMat

/-! ## Extended games: the mathematical objects -/

section GameSpec
variable {d : Nat} {A B X Y : Type*} [Fintype X] [Fintype Y]

/-- question-averaged referee operator `Σ_{x,y} π(x,y) · P (f x) (g y) x y` for answer functions `f`, `g` -/
noncomputable def avgMat (π : X → Y → ℝ) (P : A → B → X → Y → Matrix (Fin d) (Fin d) ℂ)
    (f : X → A) (g : Y → B) : Matrix (Fin d) (Fin d) ℂ :=
  ∑ x, ∑ y, ((π x y : ℝ) : ℂ) • P (f x) (g y) x y

/-- value of the deterministic unentangled strategy `(f, g, ρ)` -/
noncomputable def unentValue (π : X → Y → ℝ) (P : A → B → X → Y → Matrix (Fin d) (Fin d) ℂ)
    (f : X → A) (g : Y → B) (ρ : Matrix (Fin d) (Fin d) ℂ) : ℝ :=
  (avgMat π P f g * ρ).trace.re

/-- The question-averaged operator of Hermitian referee operators (real weights) is Hermitian, so that its
largest eigenvalue is defined. -/
theorem avgMat_isHermitian (π : X → Y → ℝ) (P : A → B → X → Y → Matrix (Fin d) (Fin d) ℂ)
    (hP : ∀ a b x y, (P a b x y).IsHermitian) (f : X → A) (g : Y → B) : (avgMat π P f g).IsHermitian := by
  unfold avgMat Matrix.IsHermitian
  rw [Matrix.conjTranspose_sum]
  refine Finset.sum_congr rfl fun x _ => ?_
  rw [Matrix.conjTranspose_sum]
  refine Finset.sum_congr rfl fun y _ => ?_
  rw [Matrix.conjTranspose_smul, (hP _ _ x y).eq]
  simp

/-- **The unentangled value is the maximum over answer functions of the largest eigenvalue.**
For Hermitian referee operators: `c` is an upper bound for the value of every deterministic unentangled
strategy (answer functions `f`, `g` and a referee state `ρ`) if and only if `c·1 − M_{f,g} ⪰ 0`, i.e.
`λ_max(M_{f,g}) ≤ c`, for every pair of answer functions.  (Both suprema have the same upper bounds, hence
are equal.) -/
theorem unentangled_eq_max_over_functions (π : X → Y → ℝ)
    (P : A → B → X → Y → Matrix (Fin d) (Fin d) ℂ) (hP : ∀ a b x y, (P a b x y).IsHermitian) (c : ℝ) :
    (∀ (f : X → A) (g : Y → B) (ρ : Matrix (Fin d) (Fin d) ℂ), IsDensity ρ → unentValue π P f g ρ ≤ c) ↔
      ∀ (f : X → A) (g : Y → B), ((c : ℂ) • (1 : Matrix (Fin d) (Fin d) ℂ) - avgMat π P f g).PosSemidef := by
  constructor
  · intro h f g
    exact (psd_sub_iff_forall_density (avgMat_isHermitian π P hP f g) c).mpr fun ρ hρ => h f g ρ hρ
  · intro h f g ρ hρ
    exact (psd_sub_iff_forall_density (avgMat_isHermitian π P hP f g) c).mp (h f g) ρ hρ

end GameSpec

/-! ## The non-signalling program (`nonsignaling_value`) -/

section NS
variable {d : Nat} {A B X Y : Type*} [Fintype A] [Fintype B] [Fintype X] [Fintype Y]

/-- feasible point of the program solved by `nonsignaling_value`: operators `K a b x y ⪰ 0` whose marginals
`Σ_b K a b x y = σ a x`, `Σ_a K a b x y = ρ b y` do not depend on the other player's question and sum to one
density operator `τ` -/
def NSFeasible (K : A → B → X → Y → Matrix (Fin d) (Fin d) ℂ) : Prop :=
  (∀ a b x y, (K a b x y).PosSemidef) ∧
    ∃ (σ : A → X → Matrix (Fin d) (Fin d) ℂ) (ρ : B → Y → Matrix (Fin d) (Fin d) ℂ)
      (τ : Matrix (Fin d) (Fin d) ℂ),
      (∀ a x y, ∑ b, K a b x y = σ a x) ∧ (∀ b x y, ∑ a, K a b x y = ρ b y) ∧
        (∀ x, ∑ a, σ a x = τ) ∧ (∀ y, ∑ b, ρ b y = τ) ∧ IsDensity τ

/-- objective of the non-signalling program, `Σ_{x,y} π(x,y) Σ_{a,b} Re tr(P a b x y · K a b x y)` -/
noncomputable def nsValue (π : X → Y → ℝ) (P K : A → B → X → Y → Matrix (Fin d) (Fin d) ℂ) : ℝ :=
  ∑ x, ∑ y, π x y * ∑ a, ∑ b, (P a b x y * K a b x y).trace.re

/-- **Unentangled ≤ non-signalling**: every deterministic unentangled strategy `(f, g, ρ)` is a feasible point
of the non-signalling program with the same value (`K a b x y = ρ` if `a = f x` and `b = g y`, else `0`). -/
theorem unent_le_ns [DecidableEq A] [DecidableEq B] (π : X → Y → ℝ)
    (P : A → B → X → Y → Matrix (Fin d) (Fin d) ℂ) (f : X → A) (g : Y → B)
    (ρ : Matrix (Fin d) (Fin d) ℂ) (hρ : IsDensity ρ) :
    ∃ K : A → B → X → Y → Matrix (Fin d) (Fin d) ℂ, NSFeasible K ∧ nsValue π P K = unentValue π P f g ρ := by
  refine ⟨fun a b x y => if a = f x ∧ b = g y then ρ else 0, ⟨?_, ?_⟩, ?_⟩
  · intro a b x y
    by_cases h : a = f x ∧ b = g y
    · simp only [h, and_self, if_true]; exact hρ.1
    · simp only [h, if_false]; exact Matrix.PosSemidef.zero
  · refine ⟨fun a x => if a = f x then ρ else 0, fun b y => if b = g y then ρ else 0, ρ, ?_, ?_, ?_, ?_, hρ⟩
    · intro a x y
      by_cases h : a = f x <;> simp [h]
    · intro b x y
      by_cases h : b = g y <;> simp [h]
    · intro x; simp
    · intro y; simp
  · unfold nsValue unentValue avgMat
    rw [Finset.sum_mul, Matrix.trace_sum, Complex.re_sum]
    refine Finset.sum_congr rfl fun x _ => ?_
    rw [Finset.sum_mul, Matrix.trace_sum, Complex.re_sum]
    refine Finset.sum_congr rfl fun y _ => ?_
    rw [Matrix.smul_mul, Matrix.trace_smul, smul_eq_mul, Complex.re_ofReal_mul]
    congr 1
    rw [Finset.sum_eq_single (f x)]
    · rw [Finset.sum_eq_single (g y)]
      · simp
      · intro b _ hb; simp [hb]
      · simp
    · intro a _ ha; simp [ha]
    · simp

/-- **Non-signalling value ≤ operator-norm bound**: if `π` is a probability distribution and every referee
operator satisfies `P a b x y ⪯ c·1`, every feasible point of the non-signalling program has value at most `c`. -/
theorem ns_le_of_pred_le (π : X → Y → ℝ) (P K : A → B → X → Y → Matrix (Fin d) (Fin d) ℂ) (c : ℝ)
    (hπ : ∀ x y, 0 ≤ π x y) (hsum : ∑ x, ∑ y, π x y = 1)
    (hP : ∀ a b x y, ((c : ℂ) • (1 : Matrix (Fin d) (Fin d) ℂ) - P a b x y).PosSemidef)
    (hK : NSFeasible K) : nsValue π P K ≤ c := by
  obtain ⟨hpsd, σ, ρ, τ, hσ, -, hστ, -, hτ⟩ := hK
  have hxy : ∀ x y, ∑ a, ∑ b, (P a b x y * K a b x y).trace.re ≤ c := by
    intro x y
    have h1 : ∀ a b, (P a b x y * K a b x y).trace.re ≤ c * (K a b x y).trace.re := by
      intro a b
      have h := psd_trace_mul_nonneg (hP a b x y) (hpsd a b x y)
      rw [Matrix.sub_mul, Matrix.trace_sub, Matrix.smul_mul, Matrix.trace_smul, Matrix.one_mul,
        Complex.sub_re, smul_eq_mul, Complex.re_ofReal_mul] at h
      linarith
    have h2 : ∑ a, ∑ b, (K a b x y).trace.re = 1 := by
      have : ∑ a, ∑ b, K a b x y = τ := by
        rw [← hστ x]
        exact Finset.sum_congr rfl fun a _ => hσ a x y
      have h3 := congrArg (fun M => (Matrix.trace M).re) this
      simp only [Matrix.trace_sum, Complex.re_sum, hτ.2, Complex.one_re] at h3
      exact h3
    calc ∑ a, ∑ b, (P a b x y * K a b x y).trace.re
        ≤ ∑ a, ∑ b, c * (K a b x y).trace.re :=
          Finset.sum_le_sum fun a _ => Finset.sum_le_sum fun b _ => h1 a b
      _ = c * ∑ a, ∑ b, (K a b x y).trace.re := by simp only [Finset.mul_sum]
      _ = c := by rw [h2, mul_one]
  unfold nsValue
  calc ∑ x, ∑ y, π x y * ∑ a, ∑ b, (P a b x y * K a b x y).trace.re
      ≤ ∑ x, ∑ y, π x y * c :=
        Finset.sum_le_sum fun x _ => Finset.sum_le_sum fun y _ => mul_le_mul_of_nonneg_left (hxy x y) (hπ x y)
    _ = c := by simp only [← Finset.sum_mul, hsum, one_mul]

end NS

/-! ## `λ_max` enclosure by certificates -/

section LamMax
variable {n k : Nat}

/-- An accepted upper certificate bounds every Rayleigh quotient: `Re vᴴ A v ≤ c · vᴴ v`. -/
theorem checkLamMaxUpper_sound (A : EMat n n) (c : Rat) (L : EMat n k) (h : checkLamMaxUpper A c L = true)
    (V : Matrix (Fin n) (Fin 1) ℂ) : (Vᴴ * A.toM * V).trace.re ≤ (c : ℝ) * (Vᴴ * V).trace.re :=
  rayleigh_le_of_psd (Toq.ExtGames.checkLamMaxUpper_sound A c L h) V

/-- An accepted lower certificate is the Rayleigh quotient of a non-zero vector of a Hermitian matrix. -/
theorem checkLamMaxLower_sound (A : EMat n n) (v : EMat n 1) (lo : Rat) (h : checkLamMaxLower A v = some lo) :
    A.toM.IsHermitian ∧ 0 < (v.toMᴴ * v.toM).trace.re ∧
      (v.toMᴴ * A.toM * v.toM).trace.re = (lo : ℝ) * (v.toMᴴ * v.toM).trace.re :=
  Toq.ExtGames.checkLamMaxLower_sound A v lo h

/-- The two certificates enclose `λ_max`: a Rayleigh quotient never exceeds a certified upper bound. -/
theorem lambdaMax_enclosure (A : EMat n n) (v : EMat n 1) (lo c : Rat) (L : EMat n k)
    (hlo : checkLamMaxLower A v = some lo) (hhi : checkLamMaxUpper A c L = true) : (lo : ℝ) ≤ (c : ℝ) := by
  obtain ⟨-, hpos, hq⟩ := checkLamMaxLower_sound A v lo hlo
  have h := checkLamMaxUpper_sound A c L hhi v.toM
  rw [hq] at h
  exact le_of_mul_le_mul_right h hpos

end LamMax

/-! ## Extended games: denotation of the exact game and soundness of the checkers -/

section GameCheck
variable {d : Nat}

/-- the distribution of an exact game -/
def gProb (G : Game d) : Fin G.nX → Fin G.nY → ℝ := fun x y => ((G.prob x.val y.val : Rat) : ℝ)
/-- the referee operators of an exact game -/
def gPred (G : Game d) : Fin G.nA → Fin G.nB → Fin G.nX → Fin G.nY → Matrix (Fin d) (Fin d) ℂ :=
  fun a b x y => (G.pred a.val b.val x.val y.val).toM

/-- a function on `Fin k` as a function on `Nat` (0 outside) -/
def extFn {k n : Nat} (f : Fin k → Fin n) : Nat → Nat := fun x => if h : x < k then (f ⟨x, h⟩).val else 0

/-- Model = specification: the executable `avgOperator` (exact arithmetic over `ℚ[i]`, loops over `x < nX`,
`y < nY`) denotes the mathematical operator `Σ_{x,y} π(x,y) P (f x) (g y) x y` of the game. -/
theorem avgOperator_eq_avgMat (G : Game d) (f : Fin G.nX → Fin G.nA) (g : Fin G.nY → Fin G.nB) :
    (avgOperator G (extFn f) (extFn g)).toM = avgMat (gProb G) (gPred G) f g := by
  rw [toM_avgOperator]
  unfold avgMat gProb gPred
  refine Finset.sum_congr rfl fun x _ => Finset.sum_congr rfl fun y _ => ?_
  simp [extFn]

/-- If the upper checker accepts `c`, every deterministic unentangled strategy — any answer functions, any
referee state — has value at most `c`. -/
theorem checkUnentUpper_sound (G : Game d) (c : Rat) (Ls : Nat → EMat d d) (h : checkUnentUpper G c Ls = true) :
    ∀ (f : Fin G.nX → Fin G.nA) (g : Fin G.nY → Fin G.nB) (ρ : Matrix (Fin d) (Fin d) ℂ), IsDensity ρ →
      unentValue (gProb G) (gPred G) f g ρ ≤ (c : ℝ) := by
  intro f g ρ hρ
  have hpsd := Toq.ExtGames.checkUnentUpper_sound G c Ls h (extFn f) (extFn g)
    (fun x hx => by simp [extFn, hx]) (fun y hy => by simp [extFn, hy])
  rw [avgOperator_eq_avgMat] at hpsd
  exact trace_mul_le_of_psd hpsd hρ.1 hρ.2

/-- If the lower checker accepts with value `lo`, there are answer functions and a referee state whose
strategy has value exactly `lo`. -/
theorem checkUnentLower_sound (G : Game d) (fl gl : List Nat) (v : EMat d 1) (lo : Rat)
    (h : checkUnentLower G fl gl v = some lo) :
    ∃ (f : Fin G.nX → Fin G.nA) (g : Fin G.nY → Fin G.nB) (ρ : Matrix (Fin d) (Fin d) ℂ),
      IsDensity ρ ∧ unentValue (gProb G) (gPred G) f g ρ = (lo : ℝ) := by
  unfold checkUnentLower at h
  split at h
  · next hc =>
    simp only [Bool.and_eq_true, fnValid_iff] at hc
    obtain ⟨⟨⟨-, -⟩, hf⟩, hg⟩ := hc
    let f : Fin G.nX → Fin G.nA := fun x => ⟨(fnOfList fl) x.val, hf x.val x.isLt⟩
    let g : Fin G.nY → Fin G.nB := fun y => ⟨(fnOfList gl) y.val, hg y.val y.isLt⟩
    have hop : avgOperator G (fnOfList fl) (fnOfList gl) = avgOperator G (extFn f) (extFn g) :=
      avgOperator_congr G _ _ _ _ (fun x hx => by simp [extFn, hx, f]) (fun y hy => by simp [extFn, hy, g])
    rw [hop] at h
    obtain ⟨-, hpos, hq⟩ := Toq.ExtGames.checkLamMaxLower_sound _ v lo h
    obtain ⟨hd, hval⟩ := density_of_col v.toM hpos
    refine ⟨f, g, _, hd, ?_⟩
    unfold unentValue
    rw [hval, ← avgOperator_eq_avgMat, hq, mul_comm (lo : ℝ), ← mul_assoc, inv_mul_cancel₀ hpos.ne', one_mul]
  · exact absurd h (by simp)

/-- Accepted certificates bracket the unentangled value. -/
theorem unent_lo_le_hi (G : Game d) (fl gl : List Nat) (v : EMat d 1) (lo c : Rat) (Ls : Nat → EMat d d)
    (hlo : checkUnentLower G fl gl v = some lo) (hhi : checkUnentUpper G c Ls = true) : (lo : ℝ) ≤ (c : ℝ) := by
  obtain ⟨f, g, ρ, hρ, hv⟩ := checkUnentLower_sound G fl gl v lo hlo
  rw [← hv]
  exact checkUnentUpper_sound G c Ls hhi f g ρ hρ

/-- Mirror of the code: if the constant-answer upper checker accepts `c`, every strategy with *constant*
answers `(a, b)` has value at most `c` (this is the quantity `unentangled_value` maximises). -/
theorem checkUnentConstUpper_sound (G : Game d) (c : Rat) (Ls : Nat → EMat d d)
    (h : checkUnentConstUpper G c Ls = true) :
    ∀ (a : Fin G.nA) (b : Fin G.nB) (ρ : Matrix (Fin d) (Fin d) ℂ), IsDensity ρ →
      unentValue (gProb G) (gPred G) (fun _ => a) (fun _ => b) ρ ≤ (c : ℝ) := by
  intro a b ρ hρ
  have hpsd := Toq.ExtGames.checkUnentConstUpper_sound G c Ls h a.val b.val a.isLt b.isLt
  have hop : constOperator G a.val b.val = avgOperator G (extFn fun _ : Fin G.nX => a) (extFn fun _ : Fin G.nY => b) :=
    avgOperator_congr G _ _ _ _ (fun x hx => by simp [extFn, hx]) (fun y hy => by simp [extFn, hy])
  rw [hop, avgOperator_eq_avgMat] at hpsd
  exact trace_mul_le_of_psd hpsd hρ.1 hρ.2

/-- Mirror of the code: an accepted constant-answer lower certificate is the value of a strategy with
constant answers. -/
theorem checkUnentConstLower_sound (G : Game d) (a b : Nat) (v : EMat d 1) (lo : Rat)
    (h : checkUnentConstLower G a b v = some lo) :
    ∃ (a' : Fin G.nA) (b' : Fin G.nB) (ρ : Matrix (Fin d) (Fin d) ℂ),
      IsDensity ρ ∧ unentValue (gProb G) (gPred G) (fun _ => a') (fun _ => b') ρ = (lo : ℝ) := by
  unfold checkUnentConstLower at h
  split at h
  · next hc =>
    simp only [Bool.and_eq_true, decide_eq_true_eq] at hc
    obtain ⟨ha, hb⟩ := hc
    have hop : constOperator G a b
        = avgOperator G (extFn fun _ : Fin G.nX => (⟨a, ha⟩ : Fin G.nA)) (extFn fun _ : Fin G.nY => (⟨b, hb⟩ : Fin G.nB)) :=
      avgOperator_congr G _ _ _ _ (fun x hx => by simp [extFn, hx]) (fun y hy => by simp [extFn, hy])
    rw [hop] at h
    obtain ⟨-, hpos, hq⟩ := Toq.ExtGames.checkLamMaxLower_sound _ v lo h
    obtain ⟨hd, hval⟩ := density_of_col v.toM hpos
    refine ⟨⟨a, ha⟩, ⟨b, hb⟩, _, hd, ?_⟩
    unfold unentValue
    rw [hval, ← avgOperator_eq_avgMat, hq, mul_comm (lo : ℝ), ← mul_assoc, inv_mul_cancel₀ hpos.ne', one_mul]
  · exact absurd h (by simp)

/-- The quantity computed by the code never exceeds the unentangled value: a bound for all answer functions
is a bound for constant answers.  (The converse fails — see the example below — which is the defect of
`unentangled_value`.) -/
theorem unentConst_le_unent (G : Game d) (c : ℝ)
    (h : ∀ (f : Fin G.nX → Fin G.nA) (g : Fin G.nY → Fin G.nB) (ρ : Matrix (Fin d) (Fin d) ℂ), IsDensity ρ →
      unentValue (gProb G) (gPred G) f g ρ ≤ c) :
    ∀ (a : Fin G.nA) (b : Fin G.nB) (ρ : Matrix (Fin d) (Fin d) ℂ), IsDensity ρ →
      unentValue (gProb G) (gPred G) (fun _ => a) (fun _ => b) ρ ≤ c :=
  fun _ _ ρ hρ => h _ _ ρ hρ

end GameCheck

/-! ## Hedging and cloning -/

section Hedging
variable {a b k : Nat}

/-- Adjointness of `Y ↦ 1 ⊗ Y` and the partial trace over the first factor:
`tr((1 ⊗ Y) X) = tr(Y · Tr_1 X)`. -/
theorem partial_trace_adjoint (Y : Matrix (Fin b) (Fin b) ℂ) (X : Matrix (Fin a × Fin b) (Fin a × Fin b) ℂ) :
    (((1 : Matrix (Fin a) (Fin a) ℂ) ⊗ₖ Y) * X).trace = (Y * ptrace1 X).trace :=
  trace_one_kron_mul Y X

/-- **Weak duality of the maximisation programs** (`max_prob_outcome_a_*`, cloning): for `X ⪰ 0` with
`Tr_1 X = 1` and any `Y` with `1 ⊗ Y − Q ⪰ 0`, `Re tr(Q X) ≤ Re tr Y`.  All dimensions, all `Q`. -/
theorem hedging_weak_duality (Q X : Matrix (Fin a × Fin b) (Fin a × Fin b) ℂ) (Y : Matrix (Fin b) (Fin b) ℂ)
    (hX : HedgeFeasible X) (hY : (((1 : Matrix (Fin a) (Fin a) ℂ) ⊗ₖ Y) - Q).PosSemidef) :
    (Q * X).trace.re ≤ Y.trace.re :=
  hedge_max_weak_duality_prod Q X Y hX hY

/-- **Weak duality of the minimisation programs** (`min_prob_outcome_a_*`): `Re tr Y ≤ Re tr(Q X)` for
primal-feasible `X` and `Q − 1 ⊗ Y ⪰ 0`. -/
theorem hedging_min_weak_duality (Q X : Matrix (Fin a × Fin b) (Fin a × Fin b) ℂ) (Y : Matrix (Fin b) (Fin b) ℂ)
    (hX : HedgeFeasible X) (hY : (Q - ((1 : Matrix (Fin a) (Fin a) ℂ) ⊗ₖ Y)).PosSemidef) :
    Y.trace.re ≤ (Q * X).trace.re :=
  hedge_min_weak_duality_prod Q X Y hX hY

/-- Any primal-feasible `X` separates the two programs: every min-dual value is at most `Re tr(Q X)`, which is
at most every max-dual value. -/
theorem hedging_min_le_max (Q X : Matrix (Fin a × Fin b) (Fin a × Fin b) ℂ) (Y₁ Y₂ : Matrix (Fin b) (Fin b) ℂ)
    (hX : HedgeFeasible X) (h₁ : (Q - ((1 : Matrix (Fin a) (Fin a) ℂ) ⊗ₖ Y₁)).PosSemidef)
    (h₂ : (((1 : Matrix (Fin a) (Fin a) ℂ) ⊗ₖ Y₂) - Q).PosSemidef) :
    Y₁.trace.re ≤ (Q * X).trace.re ∧ (Q * X).trace.re ≤ Y₂.trace.re :=
  ⟨hedging_min_weak_duality Q X Y₁ hX h₁, hedging_weak_duality Q X Y₂ hX h₂⟩

/-- The minimal probability is at most the maximal one: the primal feasible set is never empty (`a > 0`), so
every min-dual value is at most every max-dual value. -/
theorem hedging_min_dual_le_max_dual [NeZero a] (Q : Matrix (Fin a × Fin b) (Fin a × Fin b) ℂ)
    (Y₁ Y₂ : Matrix (Fin b) (Fin b) ℂ) (h₁ : (Q - ((1 : Matrix (Fin a) (Fin a) ℂ) ⊗ₖ Y₁)).PosSemidef)
    (h₂ : (((1 : Matrix (Fin a) (Fin a) ℂ) ⊗ₖ Y₂) - Q).PosSemidef) : Y₁.trace.re ≤ Y₂.trace.re := by
  obtain ⟨X, hX⟩ := hedgeFeasible_exists (α := Fin a) (β := Fin b)
  exact (hedging_min_le_max Q X Y₁ Y₂ hX h₁ h₂).1.trans (hedging_min_le_max Q X Y₁ Y₂ hX h₁ h₂).2

/-- **Weak duality for any arrangement of the tensor factors** (parallel repetitions): the operators live on
an index set `ι` identified with (outputs) × (inputs) by `e`; toqito's `π(1 ⊗ Y)πᴴ ⪰ Q` and
`Tr_{outputs}(X) = 1` are the constraints below read through `e`. -/
theorem hedging_weak_duality_reps {ι : Type*} [Fintype ι] [DecidableEq ι] (e : Fin a × Fin b ≃ ι)
    (Q X : Matrix ι ι ℂ) (Y : Matrix (Fin b) (Fin b) ℂ) (hX : HedgeFeasible (X.submatrix e e))
    (hY : (((1 : Matrix (Fin a) (Fin a) ℂ) ⊗ₖ Y) - Q.submatrix e e).PosSemidef) :
    (Q * X).trace.re ≤ Y.trace.re :=
  hedge_max_weak_duality_equiv e Q X Y hX hY

/-- Minimisation counterpart of `hedging_weak_duality_reps`. -/
theorem hedging_min_weak_duality_reps {ι : Type*} [Fintype ι] [DecidableEq ι] (e : Fin a × Fin b ≃ ι)
    (Q X : Matrix ι ι ℂ) (Y : Matrix (Fin b) (Fin b) ℂ) (hX : HedgeFeasible (X.submatrix e e))
    (hY : (Q.submatrix e e - ((1 : Matrix (Fin a) (Fin a) ℂ) ⊗ₖ Y)).PosSemidef) :
    Y.trace.re ≤ (Q * X).trace.re :=
  hedge_min_weak_duality_equiv e Q X Y hX hY

/-- the operator on `ℂ^a ⊗ ℂ^b` denoted by an exact flat-indexed matrix -/
noncomputable def opOf (Q : EMat (a * b) (a * b)) : Matrix (Fin a × Fin b) (Fin a × Fin b) ℂ := unflat Q.toM

/-- If the primal checker accepts with value `v`, the candidate is a feasible point (`X ⪰ 0`, `Tr_1 X = 1`)
with objective value exactly `v`: `v` is a lower bound of the maximum (`max_prob_outcome_a_primal`,
cloning `primal_problem`). -/
theorem checkHedgeMaxPrimal_sound (Q X : EMat (a * b) (a * b)) (L : EMat (a * b) k) (v : Rat)
    (h : checkHedgeMaxPrimal a b Q X L = some v) :
    ∃ X' : Matrix (Fin a × Fin b) (Fin a × Fin b) ℂ, HedgeFeasible X' ∧ (opOf Q * X').trace.re = (v : ℝ) := by
  obtain ⟨-, hf, hv⟩ := checkHedgePrimal_sound Q X L v h
  exact ⟨_, hf, hv⟩

/-- Same certificate read for the minimisation: `v` is an upper bound of the minimum. -/
theorem checkHedgeMinPrimal_sound (Q X : EMat (a * b) (a * b)) (L : EMat (a * b) k) (v : Rat)
    (h : checkHedgeMinPrimal a b Q X L = some v) :
    ∃ X' : Matrix (Fin a × Fin b) (Fin a × Fin b) ℂ, HedgeFeasible X' ∧ (opOf Q * X').trace.re = (v : ℝ) := by
  obtain ⟨-, hf, hv⟩ := checkHedgePrimal_sound Q X L v h
  exact ⟨_, hf, hv⟩

/-- If the max-dual checker accepts with value `hi`, EVERY primal-feasible point has objective at most `hi`. -/
theorem checkHedgeMaxDual_sound (Q : EMat (a * b) (a * b)) (Y : EMat b b) (L : EMat (a * b) k) (hi : Rat)
    (h : checkHedgeMaxDual a b Q Y L = some hi) :
    ∀ X : Matrix (Fin a × Fin b) (Fin a × Fin b) ℂ, HedgeFeasible X → (opOf Q * X).trace.re ≤ (hi : ℝ) := by
  obtain ⟨-, hpsd, hv⟩ := Toq.ExtGames.checkHedgeMaxDual_sound Q Y L hi h
  intro X hX
  rw [← hv]
  exact hedging_weak_duality (opOf Q) X Y.toM hX hpsd

/-- If the min-dual checker accepts with value `lo`, EVERY primal-feasible point has objective at least `lo`. -/
theorem checkHedgeMinDual_sound (Q : EMat (a * b) (a * b)) (Y : EMat b b) (L : EMat (a * b) k) (lo : Rat)
    (h : checkHedgeMinDual a b Q Y L = some lo) :
    ∀ X : Matrix (Fin a × Fin b) (Fin a × Fin b) ℂ, HedgeFeasible X → (lo : ℝ) ≤ (opOf Q * X).trace.re := by
  obtain ⟨-, hpsd, hv⟩ := Toq.ExtGames.checkHedgeMinDual_sound Q Y L lo h
  intro X hX
  rw [← hv]
  exact hedging_min_weak_duality (opOf Q) X Y.toM hX hpsd

/-- Accepted primal and dual certificates bracket the maximum. -/
theorem hedge_max_lo_le_hi (Q X : EMat (a * b) (a * b)) (L L' : EMat (a * b) k) (Y : EMat b b) (lo hi : Rat)
    (hlo : checkHedgeMaxPrimal a b Q X L = some lo) (hhi : checkHedgeMaxDual a b Q Y L' = some hi) :
    (lo : ℝ) ≤ (hi : ℝ) := by
  obtain ⟨X', hX, hv⟩ := checkHedgeMaxPrimal_sound Q X L lo hlo
  rw [← hv]
  exact checkHedgeMaxDual_sound Q Y L' hi hhi X' hX

/-- Accepted dual and primal certificates bracket the minimum. -/
theorem hedge_min_lo_le_hi (Q X : EMat (a * b) (a * b)) (L L' : EMat (a * b) k) (Y : EMat b b) (lo hi : Rat)
    (hlo : checkHedgeMinDual a b Q Y L' = some lo) (hhi : checkHedgeMinPrimal a b Q X L = some hi) :
    (lo : ℝ) ≤ (hi : ℝ) := by
  obtain ⟨X', hX, hv⟩ := checkHedgeMinPrimal_sound Q X L hi hhi
  rw [← hv]
  exact checkHedgeMinDual_sound Q Y L' lo hlo X' hX

/-! ### Two repetitions: operators given in toqito's order of tensor factors -/

/-- the identification (outputs) × (inputs) ≃ flat index in the implementation's order given by a checked
permutation `σ` of the flat indices -/
noncomputable def arrangement (σ : Fin (a * b) → Fin (a * b)) (hσ : isSurj σ = true) :
    Fin a × Fin b ≃ Fin (a * b) :=
  finProdFinEquiv.trans (Equiv.ofBijective σ (isSurj_sound σ hσ))

/-- Max-dual certificate for an operator `Q` given in the implementation's order: accepted on the reindexed
operator ⇒ bound for every `X` (in the implementation's order) whose reindexing is primal feasible. -/
theorem checkHedgeMaxDual_reindex_sound (σ : Fin (a * b) → Fin (a * b)) (hσ : isSurj σ = true)
    (Q : EMat (a * b) (a * b)) (Y : EMat b b) (L : EMat (a * b) k) (hi : Rat)
    (h : checkHedgeMaxDual a b (reindex σ Q) Y L = some hi) :
    ∀ X : Matrix (Fin (a * b)) (Fin (a * b)) ℂ,
      HedgeFeasible (X.submatrix (arrangement σ hσ) (arrangement σ hσ)) → (Q.toM * X).trace.re ≤ (hi : ℝ) := by
  obtain ⟨-, hpsd, hv⟩ := Toq.ExtGames.checkHedgeMaxDual_sound (reindex σ Q) Y L hi h
  intro X hX
  rw [← hv]
  refine hedging_weak_duality_reps (arrangement σ hσ) Q.toM X Y.toM hX ?_
  rw [toM_reindex] at hpsd
  exact hpsd

/-- Min-dual counterpart of `checkHedgeMaxDual_reindex_sound`. -/
theorem checkHedgeMinDual_reindex_sound (σ : Fin (a * b) → Fin (a * b)) (hσ : isSurj σ = true)
    (Q : EMat (a * b) (a * b)) (Y : EMat b b) (L : EMat (a * b) k) (lo : Rat)
    (h : checkHedgeMinDual a b (reindex σ Q) Y L = some lo) :
    ∀ X : Matrix (Fin (a * b)) (Fin (a * b)) ℂ,
      HedgeFeasible (X.submatrix (arrangement σ hσ) (arrangement σ hσ)) → (lo : ℝ) ≤ (Q.toM * X).trace.re := by
  obtain ⟨-, hpsd, hv⟩ := Toq.ExtGames.checkHedgeMinDual_sound (reindex σ Q) Y L lo h
  intro X hX
  rw [← hv]
  refine hedging_min_weak_duality_reps (arrangement σ hσ) Q.toM X Y.toM hX ?_
  rw [toM_reindex] at hpsd
  exact hpsd

/-- Primal certificate for operators given in the implementation's order: the candidate is feasible (after
reindexing) and has objective value `v`. -/
theorem checkHedgePrimal_reindex_sound (σ : Fin (a * b) → Fin (a * b)) (hσ : isSurj σ = true)
    (Q X : EMat (a * b) (a * b)) (L : EMat (a * b) k) (v : Rat)
    (h : checkHedgePrimal a b (reindex σ Q) (reindex σ X) L = some v) :
    HedgeFeasible (X.toM.submatrix (arrangement σ hσ) (arrangement σ hσ)) ∧
      (Q.toM * X.toM).trace.re = (v : ℝ) := by
  obtain ⟨-, hf, hv⟩ := checkHedgePrimal_sound (reindex σ Q) (reindex σ X) L v h
  rw [toM_reindex] at hf
  refine ⟨hf, ?_⟩
  rw [← hv, toM_reindex, toM_reindex]
  exact congrArg Complex.re (trace_mul_submatrix_equiv (arrangement σ hσ) Q.toM X.toM).symm

/-- toqito's order `Y₁X₁Y₂X₂` of the hedging systems for two repetitions is a permutation of the order
(outputs `Y₁Y₂`, inputs `X₁X₂`). -/
theorem hedgeSigma2_isSurj : isSurj hedgeSigma2 = true := by decide +kernel

/-- the order `Y₁Z₁X₁Y₂Z₂X₂` of the cloning systems for two repetitions is a permutation of
(outputs `Y₁Z₁Y₂Z₂`, inputs `X₁X₂`). -/
theorem cloneSigma2_isSurj : isSurj cloneSigma2 = true := by decide +kernel

/-- **Cloning (counterfeiting) weak duality**: with `Q = Σ_k p_k |ψ_kψ_kψ̄_k⟩⟨ψ_kψ_kψ̄_k|` on
`(ℂ^m ⊗ ℂ^m) ⊗ ℂ^m`, every cloning channel (`X ⪰ 0`, `Tr_{YZ} X = 1`) succeeds with probability at most
`Re tr Y` for any `Y` with `1 ⊗ Y ⪰ Q`. -/
theorem cloning_weak_duality {m : Nat} (states : List (EMat m 1)) (probs : List Rat)
    (X : Matrix (Fin (m * m) × Fin m) (Fin (m * m) × Fin m) ℂ) (Y : Matrix (Fin m) (Fin m) ℂ)
    (hX : HedgeFeasible X)
    (hY : (((1 : Matrix (Fin (m * m)) (Fin (m * m)) ℂ) ⊗ₖ Y) - opOf (cloneQ states probs)).PosSemidef) :
    (opOf (cloneQ states probs) * X).trace.re ≤ Y.trace.re :=
  hedging_weak_duality _ X Y hX hY

end Hedging

/-! ## Parallel repetition of the hedging / cloning programs (all numbers of repetitions)

`n` repetitions act on `n` copies of `ℂ^α ⊗ ℂ^β`; in toqito's order `Y₁X₁ Y₂X₂ …` an index is a digit sequence
`k ↦ (i k, j k) : Fin n → α × β`, `Q₁ ⊗ … ⊗ Qₙ` is `piKron Q`, and the constraints `Tr_{Y₁…Yₙ} X = 1`,
`π (1 ⊗ Y) πᴴ ⪰ Q` read the index through `regroup` (the subsystem permutation `_pperm` / `pperm` of the code).
`HedgeFeasible (regroup X)` is "X is primal feasible for the `n`-fold program". -/

section Reps
variable {α β : Type*} [Fintype α] [Fintype β] [DecidableEq α] [DecidableEq β]

/-- **Product strategies.**  For every `n`, all dimensions and all operators `Q_k`: if every `X_k` is primal feasible
(`X_k ⪰ 0`, `Tr_1 X_k = 1`) then `X₁ ⊗ … ⊗ Xₙ` is primal feasible for the `n`-fold program, and its objective value is the
product `∏ tr(Q_k X_k)`.  Hence `opt(n) ≥ ∏ opt_k` for the maximisation and `opt(n) ≤ ∏ opt_k` for the minimisation. -/
theorem hedging_reps_product_feasible {n : ℕ} (Q X : Fin n → Matrix (α × β) (α × β) ℂ) (hX : ∀ k, HedgeFeasible (X k)) :
    HedgeFeasible (regroup (piKron X)) ∧ (piKron Q * piKron X).trace = ∏ k, (Q k * X k).trace :=
  ⟨hedge_primal_piKron X hX, trace_piKron_mul Q X⟩

/-- **Products of dual-feasible points** (maximisation programs, positive semidefinite `Q_k` — probabilities of outcomes,
the counterfeiting operator): `1 ⊗ Y_k ⪰ Q_k ⪰ 0` for every `k` implies `1 ⊗ (Y₁ ⊗ … ⊗ Yₙ) ⪰ Q₁ ⊗ … ⊗ Qₙ` in the order
(outputs, inputs), and `tr(Y₁ ⊗ … ⊗ Yₙ) = ∏ tr Y_k`.  Hence `opt(n) ≤ ∏ dual_k`. -/
theorem hedging_reps_dual_product {n : ℕ} (Q : Fin n → Matrix (α × β) (α × β) ℂ) (Y : Fin n → Matrix β β ℂ)
    (hQ : ∀ k, (Q k).PosSemidef) (hY : ∀ k, (((1 : Matrix α α ℂ) ⊗ₖ Y k) - Q k).PosSemidef) :
    (((1 : Matrix (Fin n → α) (Fin n → α) ℂ) ⊗ₖ piKron Y) - regroup (piKron Q)).PosSemidef ∧
      (piKron Y).trace = ∏ k, (Y k).trace :=
  ⟨hedge_maxdual_piKron Q Y hQ hY, piKron_trace Y⟩

/-- **The maximal probability is multiplicative under independent repetitions whenever single-shot strong duality is
certified.**  For every `n`, positive semidefinite `Q_k`, primal-feasible `X_k` and Hermitian dual-feasible `Y_k` with
`Re tr(Q_k X_k) = Re tr Y_k = v_k` (the optimum of factor `k`): the `n`-fold program has a feasible point of value `∏ v_k`
and no feasible point of larger value — its optimum is `∏ v_k` (`v^n` for `n` copies of one instance). -/
theorem hedging_reps_multiplicative {n : ℕ} (Q X : Fin n → Matrix (α × β) (α × β) ℂ) (Y : Fin n → Matrix β β ℂ)
    (v : Fin n → ℝ) (hQ : ∀ k, (Q k).PosSemidef) (hX : ∀ k, HedgeFeasible (X k)) (hYh : ∀ k, (Y k).IsHermitian)
    (hY : ∀ k, (((1 : Matrix α α ℂ) ⊗ₖ Y k) - Q k).PosSemidef)
    (hprimal : ∀ k, (Q k * X k).trace.re = v k) (hdual : ∀ k, (Y k).trace.re = v k) :
    (∃ X' : Matrix (Fin n → α × β) (Fin n → α × β) ℂ, HedgeFeasible (regroup X') ∧
        (piKron Q * X').trace.re = ∏ k, v k) ∧
      ∀ X' : Matrix (Fin n → α × β) (Fin n → α × β) ℂ, HedgeFeasible (regroup X') →
        (piKron Q * X').trace.re ≤ ∏ k, v k := by
  obtain ⟨h1, h2, -, h4⟩ := hedge_piKron_bracket Q X Y hQ hX hYh hY
  refine ⟨⟨piKron X, h1, ?_⟩, fun X' hX' => ?_⟩
  · rw [h2]; exact Finset.prod_congr rfl fun k _ => hprimal k
  · have := h4 X' hX'
    rwa [Finset.prod_congr rfl fun k _ => hdual k] at this

/-- **Minimisation programs: products of dual points with `Y_k ⪰ 0`.**  `Q_k ⪰ 1 ⊗ Y_k ⪰ 0` implies
`Q₁ ⊗ … ⊗ Qₙ ⪰ 1 ⊗ (Y₁ ⊗ … ⊗ Yₙ)`.  Without `Y_k ⪰ 0` the product of dual points is not dual feasible and the minimum is NOT
multiplicative: this is quantum hedging (Molina–Watrous: minimum `sin²(π/8)` for one game, `0` for two). -/
theorem hedging_min_reps_dual_product {n : ℕ} (Q : Fin n → Matrix (α × β) (α × β) ℂ) (Y : Fin n → Matrix β β ℂ)
    (hY0 : ∀ k, (Y k).PosSemidef) (hY : ∀ k, (Q k - ((1 : Matrix α α ℂ) ⊗ₖ Y k)).PosSemidef) :
    (regroup (piKron Q) - ((1 : Matrix (Fin n → α) (Fin n → α) ℂ) ⊗ₖ piKron Y)).PosSemidef :=
  hedge_mindual_piKron Q Y hY0 hY

end Reps

/-- **Counterfeiting: `n`-fold value = (single-shot value)ⁿ.**  For every ensemble (states of dimension `m`, non-negative
priors; `Q = cloneQ`) and every certified single-shot optimum `v` (a cloning channel `X` and a Hermitian `Y` with
`1 ⊗ Y ⪰ Q`, `Re tr(Q X) = Re tr Y = v`), the attack on `n` independent banknotes succeeds with probability exactly `vⁿ`:
`X^{⊗n}` is feasible for the `n`-fold program with value `vⁿ` and no feasible point does better — for every `n`. -/
theorem cloning_reps_multiplicative {m : Nat} (states : List (EMat m 1)) (probs : List Rat) (hp : ∀ q ∈ probs, 0 ≤ q)
    (X : Matrix (Fin (m * m) × Fin m) (Fin (m * m) × Fin m) ℂ) (Y : Matrix (Fin m) (Fin m) ℂ) (v : ℝ)
    (hX : HedgeFeasible X) (hYh : Y.IsHermitian)
    (hY : (((1 : Matrix (Fin (m * m)) (Fin (m * m)) ℂ) ⊗ₖ Y) - opOf (cloneQ states probs)).PosSemidef)
    (hv1 : (opOf (cloneQ states probs) * X).trace.re = v) (hv2 : Y.trace.re = v) (n : ℕ) :
    (∃ X' : Matrix (Fin n → Fin (m * m) × Fin m) (Fin n → Fin (m * m) × Fin m) ℂ, HedgeFeasible (regroup X') ∧
        (piKron (fun _ : Fin n => opOf (cloneQ states probs)) * X').trace.re = v ^ n) ∧
      ∀ X' : Matrix (Fin n → Fin (m * m) × Fin m) (Fin n → Fin (m * m) × Fin m) ℂ, HedgeFeasible (regroup X') →
        (piKron (fun _ : Fin n => opOf (cloneQ states probs)) * X').trace.re ≤ v ^ n := by
  have hQ : (opOf (cloneQ states probs)).PosSemidef := (unflat_psd _).mpr (cloneQ_psd states probs hp)
  have h := hedging_reps_multiplicative (fun _ : Fin n => opOf (cloneQ states probs)) (fun _ => X) (fun _ => Y)
    (fun _ => v) (fun _ => hQ) (fun _ => hX) (fun _ => hYh) (fun _ => hY) (fun _ => hv1) (fun _ => hv2)
  simpa using h

/-- **The permutations and traced systems the code builds are the stated reshuffles, for every number `n ≥ 2` of repetitions.**
`QuantumHedging.__init__`: `perm = [*sum(zip(range(n), range(n, n²)), ())]` is the interleaving — position `2k` of
`Y₁X₁…YₙXₙ` holds system `k` of `Y₁…YₙX₁…Xₙ` and position `2k+1` holds system `n+k` — and `_sys` is the set of even positions
(the `Y_k`); `optimal_clone`: position `i·n + j` of `Y₁…YₙZ₁…ZₙX₁…Xₙ` holds system `i + 3j` of `Y₁Z₁X₁…YₙZₙXₙ`, and the primal
traces the positions `≢ 2 (mod 3)` (the `Y_k`, `Z_k`).  These are the maps `splitIdx` / `regroup` of the repetition theorems. -/
theorem pperm_is_interleaving (n : ℕ) (hn : 2 ≤ n) :
    (∀ k, k < n → (hedgePerm n)[2 * k]? = some k ∧ (hedgePerm n)[2 * k + 1]? = some (n + k)) ∧
      (∀ e, e ∈ hedgeSys n ↔ e < 2 * n ∧ e % 2 = 0) ∧
      (∀ i j, i < 3 → j < n → (clonePerm n)[i * n + j]? = some (i + 3 * j)) ∧
      (∀ e, e ∈ cloneSys n ↔ e + 1 < 3 * n ∧ e % 3 ≠ 2) :=
  ⟨fun k hk => hedgePerm_getElem n hn k hk, mem_hedgeSys n, fun i j hi hj => clonePerm_getElem n i j hi hj, mem_cloneSys n⟩

/-- **Real ensembles: `Q` is invariant under exchanging the systems `Z` and `X`.**  `optimal_clone`'s primal program for two
repetitions pairs the objective operator `pperm (Q ⊗ Q) ppermᴴ` (order `Y₁Y₂Z₁Z₂X₁X₂`) with the constraint
`partial_trace(X, [0, 1, 3, 4], [2]*6) == 1`, which in that order keeps the positions of `Z₁` and `X₂`: it is the correct program
with `Z₁` and `X₁` exchanged.  The function accepts real state vectors only, and for those the exchange leaves `Q` — hence the
optimum — unchanged: `Q[(i₁ i₃ i₂), (j₁ j₃ j₂)] = Q[(i₁ i₂ i₃), (j₁ j₂ j₃)]` for every dimension `m`, every list of real states and all
priors.  (The harness stream `prog_embedding` plugs the certified points with the two positions exchanged.) -/
theorem cloneQ_exchange_invariant_real {m : Nat} (states : List (EMat m 1)) (probs : List Rat)
    (hreal : ∀ s ∈ states, ∀ i, (s.get i ⟨0, Nat.one_pos⟩).im = 0) (p q : Fin (m * m * m)) :
    (cloneQ states probs).toM (swap23 p) (swap23 q) = (cloneQ states probs).toM p q :=
  cloneQ_swap23_real states probs hreal p q

/-! ### Two repetitions on the operators as toqito stores them (model level) -/

section Reps2
variable {kq kp kd : Nat}

/-- toqito's order `Y₁X₁Y₂X₂` read through the checked permutation `hedgeSigma2` is the order (outputs `Y₁Y₂`, inputs
`X₁X₂`) of `np.kron(Q₁, Q₂)` -/
theorem hedgeSigma2_isRepArrangement :
    IsRepArrangement (a₁ := 2) (b₁ := 2) (a₂ := 2) (b₂ := 2) (arrangement hedgeSigma2 hedgeSigma2_isSurj) := by
  intro y x
  show hedgeSigma2 (finProdFinEquiv (y, x)) = _
  revert y x
  decide

/-- exchange of the two middle bits of a 4-bit label: `(y₁ z₁ y₂ z₂) ↔ (y₁ y₂ z₁ z₂)` -/
def swapMid (p : Fin (4 * 4)) : Fin (4 * 4) :=
  ⟨(8 * bit 4 p.val 0 + 4 * bit 4 p.val 2 + 2 * bit 4 p.val 1 + bit 4 p.val 3) % 16, Nat.mod_lt _ (by decide)⟩

theorem swapMid_involutive : Function.Involutive swapMid := by
  have h : ∀ p : Fin (4 * 4), swapMid (swapMid p) = p := by decide
  exact h

/-- the order `Y₁Y₂Z₁Z₂ X₁X₂` produced by the code's `permutation_operator(2, [0, 3, 1, 4, 2, 5])`, read through the
checked permutation `cloneSigma2`, is — up to the order of the output systems, which the constraints do not see — the order
(outputs `(Y₁Z₁)(Y₂Z₂)`, inputs `X₁X₂`) of `np.kron(Q₁, Q₂)` -/
theorem cloneSigma2_isRepArrangement :
    IsRepArrangement (a₁ := 4) (b₁ := 2) (a₂ := 4) (b₂ := 2)
      ((Equiv.prodCongr swapMid_involutive.toPerm (Equiv.refl (Fin (2 * 2)))).trans
        (arrangement cloneSigma2 cloneSigma2_isSurj)) := by
  intro y x
  show cloneSigma2 (finProdFinEquiv (swapMid y, x)) = _
  revert y x
  decide

/-- **Hedging, two repetitions, on toqito's arrays.**  Let `Q₁, Q₂` be `4 × 4` operators certified positive semidefinite,
with accepted single-shot certificates: primal `X_i` of value `v_i`, dual `Y_i` of value `w_i`.  For `Q = np.kron(Q₁, Q₂)`
(the argument of `QuantumHedging(Q, 2)`, order `Y₁X₁Y₂X₂`): `np.kron(X₁, X₂)` is feasible for the two-fold primal program with
value `v₁ v₂`, and every feasible point has value at most `w₁ w₂`.  (With `v_i = w_i`: the two-fold optimum is the product.) -/
theorem hedge2_product_bracket (Q₁ X₁ Q₂ X₂ : EMat (2 * 2) (2 * 2)) (Y₁ Y₂ : EMat 2 2)
    (LQ₁ LQ₂ : EMat (2 * 2) kq) (L₁ L₂ : EMat (2 * 2) kp) (L₁' L₂' : EMat (2 * 2) kd) (v₁ w₁ v₂ w₂ : Rat)
    (hQ₁ : psdCert Q₁ LQ₁ = true) (hQ₂ : psdCert Q₂ LQ₂ = true)
    (hp₁ : checkHedgeMaxPrimal 2 2 Q₁ X₁ L₁ = some v₁) (hd₁ : checkHedgeMaxDual 2 2 Q₁ Y₁ L₁' = some w₁)
    (hp₂ : checkHedgeMaxPrimal 2 2 Q₂ X₂ L₂ = some v₂) (hd₂ : checkHedgeMaxDual 2 2 Q₂ Y₂ L₂' = some w₂) :
    HedgeFeasible ((kronE X₁ X₂).toM.submatrix (arrangement hedgeSigma2 hedgeSigma2_isSurj)
        (arrangement hedgeSigma2 hedgeSigma2_isSurj)) ∧
      ((kronE Q₁ Q₂).toM * (kronE X₁ X₂).toM).trace.re = (v₁ : ℝ) * (v₂ : ℝ) ∧
      ∀ X : Matrix (Fin (4 * 4)) (Fin (4 * 4)) ℂ,
        HedgeFeasible (X.submatrix (arrangement hedgeSigma2 hedgeSigma2_isSurj) (arrangement hedgeSigma2 hedgeSigma2_isSurj)) →
        ((kronE Q₁ Q₂).toM * X).trace.re ≤ (w₁ : ℝ) * (w₂ : ℝ) := by
  obtain ⟨-, hf₁, hv₁⟩ := checkHedgePrimal_sound Q₁ X₁ L₁ v₁ hp₁
  obtain ⟨-, hf₂, hv₂⟩ := checkHedgePrimal_sound Q₂ X₂ L₂ v₂ hp₂
  obtain ⟨hh₁, hs₁, hw₁⟩ := Toq.ExtGames.checkHedgeMaxDual_sound Q₁ Y₁ L₁' w₁ hd₁
  obtain ⟨hh₂, hs₂, hw₂⟩ := Toq.ExtGames.checkHedgeMaxDual_sound Q₂ Y₂ L₂' w₂ hd₂
  obtain ⟨g1, g2, -, -, g5⟩ := rep2_flat_bracket (a₁ := 2) (b₁ := 2) (a₂ := 2) (b₂ := 2)
    (arrangement hedgeSigma2 hedgeSigma2_isSurj) hedgeSigma2_isRepArrangement Q₁.toM X₁.toM Y₁.toM Q₂.toM X₂.toM Y₂.toM
    (psdCert_sound _ _ hQ₁) (psdCert_sound _ _ hQ₂) hf₁ hf₂ hh₁ hh₂ hs₁ hs₂
  unfold unflat at hv₁ hv₂
  rw [trace_mul_submatrix_equiv] at hv₁ hv₂
  refine ⟨?_, ?_, fun X hX => ?_⟩
  · rw [toM_kronE]; exact g1
  · rw [toM_kronE, toM_kronE, g2, hv₁, hv₂]
  · rw [toM_kronE, ← hw₁, ← hw₂]; exact g5 X hX

/-- **Cloning, two repetitions, on toqito's arrays** (`Q = tensor(Q₁, 2)`-style product `np.kron(Q₁, Q₂)` in the order
`Y₁Z₁X₁Y₂Z₂X₂`, read through `cloneSigma2`): same statement as `hedge2_product_bracket` with `a = 4`, `b = 2`. -/
theorem clone2_product_bracket (Q₁ X₁ Q₂ X₂ : EMat (4 * 2) (4 * 2)) (Y₁ Y₂ : EMat 2 2)
    (LQ₁ LQ₂ : EMat (4 * 2) kq) (L₁ L₂ : EMat (4 * 2) kp) (L₁' L₂' : EMat (4 * 2) kd) (v₁ w₁ v₂ w₂ : Rat)
    (hQ₁ : psdCert Q₁ LQ₁ = true) (hQ₂ : psdCert Q₂ LQ₂ = true)
    (hp₁ : checkHedgeMaxPrimal 4 2 Q₁ X₁ L₁ = some v₁) (hd₁ : checkHedgeMaxDual 4 2 Q₁ Y₁ L₁' = some w₁)
    (hp₂ : checkHedgeMaxPrimal 4 2 Q₂ X₂ L₂ = some v₂) (hd₂ : checkHedgeMaxDual 4 2 Q₂ Y₂ L₂' = some w₂) :
    HedgeFeasible ((kronE X₁ X₂).toM.submatrix (arrangement cloneSigma2 cloneSigma2_isSurj)
        (arrangement cloneSigma2 cloneSigma2_isSurj)) ∧
      ((kronE Q₁ Q₂).toM * (kronE X₁ X₂).toM).trace.re = (v₁ : ℝ) * (v₂ : ℝ) ∧
      ∀ X : Matrix (Fin (16 * 4)) (Fin (16 * 4)) ℂ,
        HedgeFeasible (X.submatrix (arrangement cloneSigma2 cloneSigma2_isSurj) (arrangement cloneSigma2 cloneSigma2_isSurj)) →
        ((kronE Q₁ Q₂).toM * X).trace.re ≤ (w₁ : ℝ) * (w₂ : ℝ) := by
  obtain ⟨-, hf₁, hv₁⟩ := checkHedgePrimal_sound Q₁ X₁ L₁ v₁ hp₁
  obtain ⟨-, hf₂, hv₂⟩ := checkHedgePrimal_sound Q₂ X₂ L₂ v₂ hp₂
  obtain ⟨hh₁, hs₁, hw₁⟩ := Toq.ExtGames.checkHedgeMaxDual_sound Q₁ Y₁ L₁' w₁ hd₁
  obtain ⟨hh₂, hs₂, hw₂⟩ := Toq.ExtGames.checkHedgeMaxDual_sound Q₂ Y₂ L₂' w₂ hd₂
  obtain ⟨g1, g2, -, -, g5⟩ := rep2_flat_bracket_perm (a₁ := 4) (b₁ := 2) (a₂ := 4) (b₂ := 2)
    (arrangement cloneSigma2 cloneSigma2_isSurj) swapMid_involutive.toPerm cloneSigma2_isRepArrangement
    Q₁.toM X₁.toM Y₁.toM Q₂.toM X₂.toM Y₂.toM
    (psdCert_sound _ _ hQ₁) (psdCert_sound _ _ hQ₂) hf₁ hf₂ hh₁ hh₂ hs₁ hs₂
  unfold unflat at hv₁ hv₂
  rw [trace_mul_submatrix_equiv] at hv₁ hv₂
  refine ⟨?_, ?_, fun X hX => ?_⟩
  · rw [toM_kronE]; exact g1
  · rw [toM_kronE, toM_kronE, g2, hv₁, hv₂]
  · rw [toM_kronE, ← hw₁, ← hw₂]; exact g5 X hX

end Reps2

/-! ## Closed forms -/

section Closed

/-- **Wiesner's quantum money: the optimal counterfeiting probability is exactly 3/4.**  For the ensemble
`{|0⟩, |1⟩, |+⟩, |−⟩}` with uniform priors (`wiesnerQ` is its operator `Q = cloneQ …`, see `Toq/Proofs/ExtGamesClosed.lean`)
there is a cloning channel of success probability `3/4` (the Molina–Vidick–Watrous cloner, exact rational Choi operator) and
no channel does better (dual point `Y = (3/8)·1`; exact certificate). -/
theorem wiesner_three_quarters :
    (∃ X : Matrix (Fin 4 × Fin 2) (Fin 4 × Fin 2) ℂ, HedgeFeasible X ∧ (opOf wiesnerQ * X).trace.re = 3 / 4) ∧
      ∀ X : Matrix (Fin 4 × Fin 2) (Fin 4 × Fin 2) ℂ, HedgeFeasible X → (opOf wiesnerQ * X).trace.re ≤ 3 / 4 := by
  constructor
  · obtain ⟨X, hX, hv⟩ := checkHedgeMaxPrimal_sound wiesnerQ wiesnerX wiesnerLX (3 / 4) wiesner_primal_accepts
    exact ⟨X, hX, by rw [hv]; norm_num⟩
  · intro X hX
    have h := checkHedgeMaxDual_sound wiesnerQ wiesnerY wiesnerLY (3 / 4) wiesner_dual_accepts X hX
    refine h.trans (le_of_eq ?_)
    norm_num

/-- **`n` Wiesner banknotes: exactly `(3/4)ⁿ`, for every `n`.**  The `n`-fold counterfeiting program
(operator `Q^{⊗n}` in toqito's order `Y₁Z₁X₁ … YₙZₙXₙ`) has a feasible point of value `(3/4)ⁿ` and none of larger value. -/
theorem wiesner_n_fold (n : ℕ) :
    (∃ X' : Matrix (Fin n → Fin 4 × Fin 2) (Fin n → Fin 4 × Fin 2) ℂ, HedgeFeasible (regroup X') ∧
        (piKron (fun _ : Fin n => opOf wiesnerQ) * X').trace.re = (3 / 4 : ℝ) ^ n) ∧
      ∀ X' : Matrix (Fin n → Fin 4 × Fin 2) (Fin n → Fin 4 × Fin 2) ℂ, HedgeFeasible (regroup X') →
        (piKron (fun _ : Fin n => opOf wiesnerQ) * X').trace.re ≤ (3 / 4 : ℝ) ^ n := by
  obtain ⟨-, hf, hv⟩ := checkHedgePrimal_sound wiesnerQ wiesnerX wiesnerLX (3 / 4) wiesner_primal_accepts
  obtain ⟨hYh, hY, hw⟩ := Toq.ExtGames.checkHedgeMaxDual_sound wiesnerQ wiesnerY wiesnerLY (3 / 4) wiesner_dual_accepts
  have hQ : (opOf wiesnerQ).PosSemidef :=
    (unflat_psd _).mpr (cloneQ_psd wiesnerStates wiesnerProbs (by
      intro q hq
      simp only [wiesnerProbs, List.mem_cons, List.not_mem_nil, or_false] at hq
      rcases hq with rfl | rfl | rfl | rfl <;> norm_num))
  have h := hedging_reps_multiplicative (fun _ : Fin n => opOf wiesnerQ) (fun _ => unflat wiesnerX.toM)
    (fun _ => wiesnerY.toM) (fun _ => (3 / 4 : ℝ)) (fun _ => hQ) (fun _ => hf) (fun _ => hYh) (fun _ => hY)
    (fun _ => by rw [show opOf wiesnerQ = unflat wiesnerQ.toM from rfl, hv]; norm_num) (fun _ => by rw [hw]; norm_num)
  simpa only [Finset.prod_const, Finset.card_univ, Fintype.card_fin] using h

/-- **Rank-one operators in Schmidt form.**  For every dimension `m` and every `a ≥ 0`, with `Q = |w⟩⟨w|`,
`w = Σ_i a_i |i i⟩`: the maximum of `⟨Q, X⟩` over `X ⪰ 0`, `Tr_1 X = 1` is exactly `(Σ_i a_i)²` — attained at the Choi operator of
the identity channel, bounded by the dual point `Y = (Σ a)·diag(a)` (weighted Cauchy–Schwarz). -/
theorem hedging_rank_one_closed_form {m : ℕ} (a : Fin m → ℝ) (ha : ∀ i, 0 ≤ a i) :
    (∃ X : Matrix (Fin m × Fin m) (Fin m × Fin m) ℂ, HedgeFeasible X ∧ (rankOneQ a * X).trace.re = (∑ i, a i) ^ 2) ∧
      ∀ X : Matrix (Fin m × Fin m) (Fin m × Fin m) ℂ, HedgeFeasible X → (rankOneQ a * X).trace.re ≤ (∑ i, a i) ^ 2 := by
  constructor
  · exact ⟨_, idChoi_feasible, by rw [rankOne_value, Complex.ofReal_re]⟩
  · intro X hX
    have h := hedging_weak_duality (rankOneQ a) X (rankOneY a) hX (rankOne_dual_psd a ha)
    rwa [rankOneY_trace, Complex.ofReal_re] at h

/-- **Molina–Watrous: the single-shot optimum is `cos²(π/8)`.**  For `Q = q₁ = w wᵀ`,
`w = cos(π/8)/√2 |00⟩ + sin(π/8)/√2 |11⟩` (the operator of the docstring of `QuantumHedging`, `α = 1/√2`, `θ = π/8`) the
program `max_prob_outcome_a_primal` / `_dual` has optimum exactly `cos²(π/8)`. -/
theorem molina_watrous_cos_sq :
    (∃ X : Matrix (Fin 2 × Fin 2) (Fin 2 × Fin 2) ℂ, HedgeFeasible X ∧
        (rankOneQ mwCoeff * X).trace.re = Real.cos (Real.pi / 8) ^ 2) ∧
      ∀ X : Matrix (Fin 2 × Fin 2) (Fin 2 × Fin 2) ℂ, HedgeFeasible X →
        (rankOneQ mwCoeff * X).trace.re ≤ Real.cos (Real.pi / 8) ^ 2 := by
  have h := hedging_rank_one_closed_form mwCoeff mwCoeff_nonneg
  rwa [mwCoeff_sum_sq] at h

/-- **Molina–Watrous, `n` repetitions: `cos²ⁿ(π/8)` for every `n`** (the probability of winning ALL of `n` games cannot be
hedged). -/
theorem molina_watrous_n_fold (n : ℕ) :
    (∃ X' : Matrix (Fin n → Fin 2 × Fin 2) (Fin n → Fin 2 × Fin 2) ℂ, HedgeFeasible (regroup X') ∧
        (piKron (fun _ : Fin n => rankOneQ mwCoeff) * X').trace.re = (Real.cos (Real.pi / 8) ^ 2) ^ n) ∧
      ∀ X' : Matrix (Fin n → Fin 2 × Fin 2) (Fin n → Fin 2 × Fin 2) ℂ, HedgeFeasible (regroup X') →
        (piKron (fun _ : Fin n => rankOneQ mwCoeff) * X').trace.re ≤ (Real.cos (Real.pi / 8) ^ 2) ^ n := by
  have hY : (rankOneY mwCoeff).IsHermitian := by
    rw [rankOneY, Matrix.IsHermitian, Matrix.diagonal_conjTranspose]
    congr 1; funext i; simp
  have h := hedging_reps_multiplicative (fun _ : Fin n => rankOneQ mwCoeff) (fun _ => rankOneQ fun _ => 1)
    (fun _ => rankOneY mwCoeff) (fun _ => Real.cos (Real.pi / 8) ^ 2)
    (fun _ => Matrix.posSemidef_vecMulVec_self_star _) (fun _ => idChoi_feasible) (fun _ => hY)
    (fun _ => rankOne_dual_psd mwCoeff mwCoeff_nonneg)
    (fun _ => by rw [rankOne_value, Complex.ofReal_re, mwCoeff_sum_sq])
    (fun _ => by rw [rankOneY_trace, Complex.ofReal_re, mwCoeff_sum_sq])
  simpa only [Finset.prod_const, Finset.card_univ, Fintype.card_fin] using h

/-- **Molina–Watrous: the outcome `q₁` can be avoided with certainty** (`min_prob_outcome_a = 0` for `Q = q₁`, and for every
`Q = |w⟩⟨w|`, `w = a₀|00⟩ + a₁|11⟩`): the channel that answers the flipped basis state is feasible with value `0`, and no
feasible point has a negative value. -/
theorem molina_watrous_min_zero (a : Fin 2 → ℝ) :
    (∃ X : Matrix (Fin 2 × Fin 2) (Fin 2 × Fin 2) ℂ, HedgeFeasible X ∧ (rankOneQ a * X).trace.re = 0) ∧
      ∀ X : Matrix (Fin 2 × Fin 2) (Fin 2 × Fin 2) ℂ, HedgeFeasible X → 0 ≤ (rankOneQ a * X).trace.re := by
  refine ⟨⟨Matrix.diagonal fun p : Fin 2 × Fin 2 => if p.1 = p.2 then 0 else 1, ⟨?_, ?_⟩, ?_⟩,
    fun X hX => psd_trace_mul_nonneg (Matrix.posSemidef_vecMulVec_self_star _) hX.1⟩
  · refine Matrix.PosSemidef.diagonal fun p => ?_
    split <;> simp
  · ext j j'
    fin_cases j <;> fin_cases j' <;> simp [ptrace1, Fin.sum_univ_two]
  · have h : rankOneQ a * (Matrix.diagonal fun p : Fin 2 × Fin 2 => if p.1 = p.2 then (0 : ℂ) else 1) = 0 := by
      ext p q
      rw [Matrix.mul_diagonal]
      simp only [rankOneQ, Matrix.vecMulVec_apply, star_diagVec, diagVec, Matrix.zero_apply]
      by_cases hq : q.1 = q.2 <;> simp [hq]
    rw [h]; simp

end Closed

/-! ## Feasibility embedding: unentangled strategies are feasible points of the NPA relaxation for extended games

`commuting_measurement_value_upper_bound(k)` calls `npa_constraints(mat, k, referee_dim = d)`: the moment matrix has
`d × d` blocks indexed by pairs of words, `mat[x, y]` has the blocks `K(a,b|x,y)`.  An unentangled strategy — answer
functions `f`, `g` and a referee state `ρ` — defines the point `R = ρ ⊗ z zᵀ` (`extR`; `z` = word values),
`K(a,b|x,y) = [a = f x][b = g y] ρ`.  The theorems below say that this point satisfies what the generator emits and that
the objective there is the strategy's value; the harness stream `ext_embedding` evaluates the captured cvxpy constraints
at the same point.  (`unent_le_ns` above is the corresponding statement for `nonsignaling_value`.) -/

section ExtEmbedding
open Toq.Npa Toq.Games

variable {d : Nat}

/-- **The embedded moment matrix is positive semidefinite.**  For every PSD referee operator `ρ` (in particular every
state), every number `n` of words and every vector `z` of word values, the matrix `ρ ⊗ z zᵀ` laid out as the code lays
out `r_var` (flat index `i + n·p`: block `(i, j)` is `r_var[i::n, j::n]`) is positive semidefinite — a Kronecker product
of positive semidefinite matrices.  This is the constraint `r_var >> 0` at the embedded point. -/
theorem ext_embed_psd (n : Nat) (z : Nat → ℚ) (ρ : Matrix (Fin d) (Fin d) ℂ) (hρ : ρ.PosSemidef) :
    (extR n z ρ).PosSemidef :=
  extR_psd n z hρ

/-- **Blocks of the embedded moment matrix satisfy the block equations of `npa_constraints(…, referee_dim = d)`.**
For all answer functions `f`, `g`, every word list and every `ρ`, with `R = ρ ⊗ z zᵀ`, `z_i = val(words[i])`, and
`blk i j` the sub-matrix `r_var[i::dim, j::dim]` (rows `i + dim·p`, columns `j + dim·q`):
(1) the flat index of `(p, i)` is `i + dim·p`;
(2) `blk i j = val(wᵢ)·val(wⱼ) · ρ`;
(3) if the product word `wᵢ† wⱼ` reduces to the zero word (empty tuple, `wᵢ` containing a measurement) the block vanishes
    (constraint `sub_mat == 0`);
(4) two entries whose product words have the same non-empty reduced word have equal blocks (`sub_mat == old_sub_mat`);
(5) if the product word reduces to `A_{a|x} B_{b|y}` the block is `[f x = a][g y = b] · ρ`, i.e. the block `K(a,b|x,y)` of the
    assemblage of the unentangled strategy (`sub_mat == assemblage[x, y][a·d:(a+1)·d, b·d:(b+1)·d]`).
Rests on `Toq.C07.reduce_preserves_val`. -/
theorem ext_embed_blocks (f g : Nat → Nat) (words : List Word) (ρ : Matrix (Fin d) (Fin d) ℂ)
    (i j i' j' : Fin words.length) :
    let R := extR words.length (detZ f g words) ρ
    let blk := fun i j : Fin words.length =>
      Matrix.of fun p q : Fin d => R (finProdFinEquiv (p, i)) (finProdFinEquiv (q, j))
    (∀ p : Fin d, (finProdFinEquiv (p, i) : Fin (d * words.length)).val = i.val + words.length * p.val) ∧
    blk i j = (((val f g (wordAt words i) * val f g (wordAt words j) : ℚ)) : ℂ) • ρ ∧
    (entryWord words i j = [] → hasMeas (wordAt words i) → blk i j = 0) ∧
    (entryWord words i j ≠ [] → entryWord words i j = entryWord words i' j' → blk i j = blk i' j') ∧
    (∀ sa sb : Sym, sa.player = Player.alice → sb.player = Player.bob → entryWord words i j = [sa, sb] →
      blk i j = if f sa.question = sa.answer ∧ g sb.question = sb.answer then ρ else 0) := by
  intro R blk
  have hblk : ∀ i j : Fin words.length,
      blk i j = (((val f g ((wordAt words i).reverse ++ wordAt words j) : ℚ)) : ℂ) • ρ := by
    intro i j
    ext p q
    simp only [blk, R, Matrix.of_apply, extR_apply, Matrix.smul_apply, smul_eq_mul, detZ, val_append, val_reverse]
  refine ⟨fun p => by simp [finProdFinEquiv], ?_, ?_, ?_, ?_⟩
  · rw [hblk, val_append, val_reverse]
  · intro hnil hm
    have hm' : hasMeas ((wordAt words i).reverse ++ wordAt words j) := by
      obtain ⟨s, hs, hp⟩ := hm
      exact ⟨s, List.mem_append_left _ (List.mem_reverse.mpr hs), hp⟩
    rw [hblk, (Toq.C07.reduce_preserves_val f g _).2.1 hnil hm']
    simp
  · intro hne heq
    have h1 := (Toq.C07.reduce_preserves_val f g ((wordAt words i).reverse ++ wordAt words j)).1 hne
    have h2 := (Toq.C07.reduce_preserves_val f g ((wordAt words i').reverse ++ wordAt words j')).1
      (by rw [show reduceWord _ = entryWord words i' j' from rfl, ← heq]; exact hne)
    rw [hblk, hblk, ← h1, ← h2]
    show (((val f g (entryWord words i j) : ℚ)) : ℂ) • ρ = (((val f g (entryWord words i' j') : ℚ)) : ℂ) • ρ
    rw [heq]
  · intro sa sb ha hb hw
    have hne : entryWord words i j ≠ [] := by rw [hw]; simp
    have h1 := (Toq.C07.reduce_preserves_val f g ((wordAt words i).reverse ++ wordAt words j)).1 hne
    rw [hblk, ← h1, show reduceWord _ = entryWord words i j from rfl, hw, val_pair f g sa sb ha hb]
    unfold detK
    split <;> simp

/-- **Normalisation.**  For the word list of every level and all alphabet sizes the first word is the identity word, so
the `(0,0)` block of the embedded moment matrix is `ρ` and the code's normalisation
`sum(r_var[i * dim, i * dim] for i in range(referee_dim)) == 1` holds: the diagonal entries at flat indices `0 + dim·p`
sum to `tr ρ = 1`. -/
theorem ext_embed_normalised (f g : Nat → Nat) (base : Nat) (conf : List (Nat × Nat)) (ao ai bo bi : Nat)
    (ρ : Matrix (Fin d) (Fin d) ℂ) (htr : ρ.trace = 1) :
    let words := genWords base conf ao ai bo bi
    let i0 : Fin words.length := ⟨0, (wordAt_genWords_zero base conf ao ai bo bi).2⟩
    ∑ p : Fin d, extR words.length (detZ f g words) ρ (finProdFinEquiv (p, i0)) (finProdFinEquiv (p, i0)) = 1 := by
  intro words i0
  have hz : detZ f g words i0.val = 1 := by
    show val f g (wordAt words 0) = 1
    rw [(wordAt_genWords_zero base conf ao ai bo bi).1]
    simp [val, valSym, Sym.ident]
  simp only [extR_apply, hz]
  simpa [Matrix.trace] using htr

/-- **Objective.**  The objective of `commuting_measurement_value_upper_bound` / `nonsignaling_value`,
`Σ_{a,b,x,y} π(x,y) · Re tr(P(a,b,x,y)ᴴ · K(a,b|x,y))` (the code multiplies by `pred_mat[...].conj().T`), evaluated at the
assemblage `K(a,b|x,y) = [a = f x][b = g y] · ρ` of an unentangled strategy is the strategy's value
`Re tr(M_{f,g} ρ)`, `M_{f,g} = Σ_{x,y} π(x,y) P(f x, g y, x, y)`, for Hermitian referee operators. -/
theorem ext_embed_objective {A B X Y : Type*} [Fintype A] [Fintype B] [Fintype X] [Fintype Y] [DecidableEq A]
    [DecidableEq B] (π : X → Y → ℝ) (P : A → B → X → Y → Matrix (Fin d) (Fin d) ℂ)
    (hP : ∀ a b x y, (P a b x y).IsHermitian) (f : X → A) (g : Y → B) (ρ : Matrix (Fin d) (Fin d) ℂ) :
    ∑ a, ∑ b, ∑ x, ∑ y, π x y * ((P a b x y)ᴴ * (if a = f x ∧ b = g y then ρ else 0)).trace.re
      = unentValue π P f g ρ := by
  rw [sum4_comm]
  unfold unentValue avgMat
  rw [Finset.sum_mul, Matrix.trace_sum, Complex.re_sum]
  refine Finset.sum_congr rfl fun x _ => ?_
  rw [Finset.sum_mul, Matrix.trace_sum, Complex.re_sum]
  refine Finset.sum_congr rfl fun y _ => ?_
  rw [Matrix.smul_mul, Matrix.trace_smul, smul_eq_mul, Complex.re_ofReal_mul]
  rw [Finset.sum_eq_single (f x)]
  · rw [Finset.sum_eq_single (g y)]
    · simp [(hP _ _ _ _).eq]
    · intro b _ hb; simp [hb]
    · simp
  · intro a _ ha; simp [ha]
  · simp

/-- **Every constraint of `npa_constraints(…, referee_dim = d)` holds at every unentangled strategy — all sizes, all
levels, all referee dimensions.**  The generator runs the same loop as for `referee_dim = 1` and emits one block equation
per scalar equation; so its mirror `npaConstraints` is read with values in `d × d` blocks (`Blk d ρ`: the scalar `1` is
the block `ρ`, `≤` is the Loewner order).  For a density operator `ρ` and answer functions `f`, `g`, with
`z_i = val(words[i])`, moment blocks `Rb i j = z_i z_j · ρ` and assemblage blocks `Kb a b x y = [f x = a][g y = b] · ρ`:
* every emitted constraint holds blockwise: `Rb 0 0 = ρ` and `Σ_{a,b} Kb a b x y = ρ` (the code asks only for the traces of
  these two, `= tr ρ = 1`, last conjunct), forced zero blocks, blocks tied to the assemblage and to its marginals, equal
  blocks, `Kb ⪰ 0`, no-signalling marginals; and `r_var >> 0` holds for the flat matrix `ρ ⊗ z zᵀ`;
* the flat matrix has exactly these blocks at the positions `r_var[i::dim, j::dim]`;
* every assemblage block is Hermitian (the constraints `block == block.H` added by
  `commuting_measurement_value_upper_bound`) and positive semidefinite.
Obtained from `Toq.C07.npa_sound_det` through `sat_blk_of_sat`.  The harness (`ext_embedding`) plugs exactly this point
into the constraint objects toqito builds. -/
theorem ext_npa_sound_det (ao bo ai bi : Nat) (hai : 0 < ai) (hbi : 0 < bi) (k : LevelArg) (hwf : LevelWF k)
    (base : Nat) (conf : List (Nat × Nat)) (hk : levelSpec k = some (base, conf))
    (ρ : Matrix (Fin d) (Fin d) ℂ) (hρ : IsDensity ρ) (f : Fin ai → Fin ao) (g : Fin bi → Fin bo) :
    let words := genWords base conf ao ai bo bi
    let z := detZ (ext f) (ext g) words
    let Rb : Nat → Nat → Blk d ρ := fun i j => blkOf ρ (z i * z j)
    let Kb : Nat → Nat → Nat → Nat → Blk d ρ := fun a b x y => blkOf ρ (detK (ext f) (ext g) a b x y)
    (∀ c ∈ npaConstraints ao bo ai bi base conf, Sat (extR words.length z ρ).PosSemidef ao bo Rb Kb c) ∧
      (∀ (i j : Fin words.length) (p q : Fin d),
        extR words.length z ρ (finProdFinEquiv (p, i)) (finProdFinEquiv (q, j)) = (Rb i j).mat p q) ∧
      (∀ a b x y, (Kb a b x y).mat = if ext f x = a ∧ ext g y = b then ρ else 0) ∧
      (∀ a b x y, (Kb a b x y).mat.IsHermitian ∧ (Kb a b x y).mat.PosSemidef) ∧
      (1 : Blk d ρ).mat.trace = 1 := by
  intro words z Rb Kb
  have hK : ∀ a b x y, (Kb a b x y).mat = if ext f x = a ∧ ext g y = b then ρ else 0 := by
    intro a b x y
    show (((detK (ext f) (ext g) a b x y : ℚ)) : ℂ) • ρ = _
    unfold detK
    split <;> simp
  refine ⟨fun c hc => ?_, fun i j p q => ?_, hK, fun a b x y => ?_, hρ.2⟩
  · exact sat_blk_of_sat hρ.1 _ _ (fun _ => extR_psd _ _ hρ.1) ao bo _ _ c
      ((Toq.C07.npa_sound_det ao bo ai bi hai hbi k hwf base conf hk (fun _ _ => 0) (fun _ _ _ _ => 0) f g).1 c hc)
  · rw [extR_apply]; rfl
  · rw [hK]
    split
    · exact ⟨hρ.1.isHermitian, hρ.1⟩
    · exact ⟨Matrix.isHermitian_zero, Matrix.PosSemidef.zero⟩

/-- the hypotheses are satisfiable: the maximally mixed qubit state is a density operator -/
example : IsDensity (((1 / 2 : ℝ) : ℂ) • (1 : Matrix (Fin 2) (Fin 2) ℂ)) := by
  refine ⟨Matrix.PosSemidef.one.smul (Complex.zero_le_real.mpr (by norm_num)), ?_⟩
  simp [Matrix.trace_smul]

end ExtEmbedding

/-! ## Quantum (commuting-measurement) strategies of an extended game: quantum ≤ NPA(k) ≤ non-signalling, level monotonicity

`ExtQStrategy d D ao bo ai bi`: projective measurements `A x a`, `B y b` on one space `ℂ^D`, every operator of Alice commuting
with every operator of Bob, and a unit vector `u = Σ_p |p⟩ ⊗ ψ_p ∈ ℂ^d ⊗ ℂ^D` shared with the referee.  Its point of the
relaxation: assemblage `K(a,b|x,y)[p,q] = ⟨ψ_q| A B |ψ_p⟩`, moment blocks `R[i,j][p,q] = ⟨W_j ψ_q, W_i ψ_p⟩`, referee state
`ρ = K`-block of the identity.  (Helper lemmas: `Toq/Proofs/ExtGamesNpaQ.lean`.) -/

section ExtQuantum
open Toq.Npa Toq.Games
variable {d : Nat}

/-- **Every constraint that `npa_constraints(…, referee_dim = d)` emits holds at every commuting-measurement strategy** — every
referee dimension `d`, every dimension `D` of the players' space, all alphabet sizes, every level (integer or `'1+ab…'`).  The
flat moment matrix (layout `r_var[i::dim, j::dim]` = block `(i, j)`) is positive semidefinite (a Gram matrix), every block equation
of the generator holds, every assemblage block is Hermitian and positive semidefinite, and the referee's state is a density
operator.  Hence the value of every quantum strategy — in particular every value returned by `quantum_value_lower_bound` — is at
most the optimum of `commuting_measurement_value_upper_bound(k)` in the model.  Mirror of `Toq.C07.npa_sound_quantum`; rests on
`SymRep.reduceFuel_op` (`_reduce` is sound for commuting projectors). -/
theorem ext_npa_sound_quantum (D ao bo ai bi : Nat) (hai : 0 < ai) (hbi : 0 < bi) (k : LevelArg) (hwf : LevelWF k)
    (base : Nat) (conf : List (Nat × Nat)) (hk : levelSpec k = some (base, conf)) (S : ExtQStrategy d D ao bo ai bi) :
    let words := genWords base conf ao ai bo bi
    (∀ c ∈ npaConstraints ao bo ai bi base conf, Sat (S.Rflat words).PosSemidef ao bo (S.R words) S.K c) ∧
      (S.Rflat words).PosSemidef ∧
      (∀ (i j : Fin words.length) (p q : Fin d),
        S.Rflat words (finProdFinEquiv (p, i)) (finProdFinEquiv (q, j)) = (S.R words i j).mat p q) ∧
      (∀ a b x y, (S.K a b x y).mat.IsHermitian ∧ (S.K a b x y).mat.PosSemidef) ∧
      IsDensity S.rho :=
  ext_npa_sound_quantum_blocks d D ao bo ai bi hai hbi k hwf base conf hk S

/-- **The objective of the relaxation at the point of a quantum strategy is the strategy's winning probability**:
`Re Σ_{a,b,x,y} π(x,y) tr(P(a,b,x,y)ᴴ K(a,b|x,y)) = Σ π(x,y) Re ⟨u| P(a,b,x,y)ᴴ ⊗ A_a^x B_b^y |u⟩` (loop order of the code), and
`Pᴴ = P` for Hermitian referee operators. -/
theorem ext_npa_objective_quantum {D ao bo ai bi : Nat} (S : ExtQStrategy d D ao bo ai bi)
    (P : Nat → Nat → Nat → Nat → Matrix (Fin d) (Fin d) ℂ) (π : Nat → Nat → ℝ) :
    ((sumN ao fun a => sumN bo fun b => sumN ai fun x => sumN bi fun y =>
        (π x y : ℂ) * ((P a b x y)ᴴ * (S.K a b x y).mat).trace).re
      = sumN ao fun a => sumN bo fun b => sumN ai fun x => sumN bi fun y =>
        π x y * (star S.uvec ⬝ᵥ (((P a b x y)ᴴ ⊗ₖ (S.A x a * S.B y b)) *ᵥ S.uvec)).re) ∧
    ((∀ a b x y, (P a b x y).IsHermitian) →
      (sumN ao fun a => sumN bo fun b => sumN ai fun x => sumN bi fun y =>
        (π x y : ℂ) * ((P a b x y)ᴴ * (S.K a b x y).mat).trace).re
      = sumN ao fun a => sumN bo fun b => sumN ai fun x => sumN bi fun y =>
        π x y * (star S.uvec ⬝ᵥ ((P a b x y ⊗ₖ (S.A x a * S.B y b)) *ᵥ S.uvec)).re) :=
  ext_objective_quantum S P π

/-- **NPA ≤ non-signalling (model).**  The assemblage part of every feasible point of the block-valued NPA relaxation — any
level, any moment matrix — is a feasible point of the program solved by `nonsignaling_value` (`K ⪰ 0`, marginals `σ(a|x)`,
`ρ(b|y)` independent of the other question, summing to one density operator `τ = ρ`), with the same objective (which only reads
`K`).  Hence the optimum of `commuting_measurement_value_upper_bound(k)` is at most `nonsignaling_value()` in the model. -/
theorem ext_npa_le_ns {ρ : Matrix (Fin d) (Fin d) ℂ} (hρ : IsDensity ρ) (psd : Prop) (ao bo ai bi : Nat) (hai : 0 < ai)
    (hbi : 0 < bi) (R : Nat → Nat → Blk d ρ) (K : Nat → Nat → Nat → Nat → Blk d ρ)
    (h : ∀ c ∈ assemblageConstrs ao bo ai bi, Sat psd ao bo R K c) :
    NsBlocksFeasible d ao bo ai bi (fun a b x y => (K a b x y).mat) :=
  nsBlocksFeasible_of_assemblage_blk hρ psd ao bo ai bi hai hbi R K h

/-- **Level monotonicity with referee blocks (model).**  If the word list of the lower level is a sub-list of the word list of
the higher level, every feasible point `(R, K)` of the higher level restricts (blocks `R (φ i) (φ j)` for a strictly increasing
position map `φ`, the SAME `K`, hence the same objective) to a feasible point of the lower level: the bound of a higher level is
at most the bound of a lower level. -/
theorem ext_npa_level_mono {ρ : Matrix (Fin d) (Fin d) ℂ} (ao bo ai bi baseLo baseHi : Nat)
    (confLo confHi : List (Nat × Nat)) (hHi : ConfOK confHi)
    (hsub : List.Sublist (genWords baseLo confLo ao ai bo bi) (genWords baseHi confHi ao ai bo bi)) :
    ∃ φ : Nat → Nat, φ 0 = 0 ∧ (∀ i j, i < j → φ i < φ j) ∧
      (∀ i, i < (genWords baseLo confLo ao ai bo bi).length → φ i < (genWords baseHi confHi ao ai bo bi).length) ∧
      (∀ i, wordAt (genWords baseLo confLo ao ai bo bi) i = wordAt (genWords baseHi confHi ao ai bo bi) (φ i)) ∧
      ∀ (R : Nat → Nat → Blk d ρ) (K : Nat → Nat → Nat → Nat → Blk d ρ),
        (∀ c ∈ npaConstraints ao bo ai bi baseHi confHi,
          Sat (flatBlk (genWords baseHi confHi ao ai bo bi).length R).PosSemidef ao bo R K c) →
        ∀ c ∈ npaConstraints ao bo ai bi baseLo confLo,
          Sat (flatBlk (genWords baseLo confLo ao ai bo bi).length (fun i j => R (φ i) (φ j))).PosSemidef ao bo
            (fun i j => R (φ i) (φ j)) K c :=
  ext_npa_level_mono_blk ao bo ai bi baseLo baseHi confLo confHi hHi hsub

/-- **The levels the property names are nested**: a feasible point of level `2` restricts to one of level `'1+ab'`, and one of
level `'1+ab'` to one of level `1`, with the same assemblage — all alphabet sizes, every referee dimension. -/
theorem ext_npa_levels_chain {ρ : Matrix (Fin d) (Fin d) ℂ} (ao bo ai bi : Nat) (K : Nat → Nat → Nat → Nat → Blk d ρ) :
    ((∃ R : Nat → Nat → Blk d ρ, ∀ c ∈ npaConstraints ao bo ai bi 2 [],
        Sat (flatBlk (genWords 2 [] ao ai bo bi).length R).PosSemidef ao bo R K c) →
      ∃ R : Nat → Nat → Blk d ρ, ∀ c ∈ npaConstraints ao bo ai bi 1 [(1, 1)],
        Sat (flatBlk (genWords 1 [(1, 1)] ao ai bo bi).length R).PosSemidef ao bo R K c) ∧
    ((∃ R : Nat → Nat → Blk d ρ, ∀ c ∈ npaConstraints ao bo ai bi 1 [(1, 1)],
        Sat (flatBlk (genWords 1 [(1, 1)] ao ai bo bi).length R).PosSemidef ao bo R K c) →
      ∃ R : Nat → Nat → Blk d ρ, ∀ c ∈ npaConstraints ao bo ai bi 1 [],
        Sat (flatBlk (genWords 1 [] ao ai bo bi).length R).PosSemidef ao bo R K c) :=
  ext_npa_levels_chain_blk ao bo ai bi K

/-- **Why the moment blocks carry the adjoint.**  With the "naive" convention `R[i,j] = block of W_i† W_j` the flat matrix is the
partial transpose (in the referee index) of a Gram matrix and need not be positive semidefinite — there is a two-dimensional
counterexample; the harness and `ExtQStrategy.R` therefore use `R[i,j][p,q] = ⟨W_j ψ_q, W_i ψ_p⟩`. -/
theorem ext_moment_blocks_need_adjoint :
    ∃ (psi : Fin 2 → Fin 2 → ℂ) (W : Nat → Matrix (Fin 2) (Fin 2) ℂ),
      ¬ (flatBlk (ρ := blockOf psi 1) 2 (fun i j => Blk.of _ (blockOf psi ((W i)ᴴ * W j)))).PosSemidef :=
  naive_convention_not_psd

end ExtQuantum

/-! ## Parallel repetition of extended games (`ExtendedNonlocalGame(prob_mat, pred_mat, reps)`) -/

section ExtReps
variable {d d' : Nat}

/-- **Product strategies in the product game.**  `tensorGame G H` mirrors the arrays that `ExtendedNonlocalGame.__init__` stores
for `reps > 1` (`prob_mat ⊗ prob_mat`, `pred_mat2[:, :, a, b, x, y] = pred[…a₁b₁x₁y₁] ⊗ pred[…a₂b₂x₂y₂]` with big-endian digits of the
labels; `repGame` iterates it).  For the digit-wise answer functions `f = f₁ ⊗ f₂`, `g = g₁ ⊗ g₂` and the product state `ρ₁ ⊗ ρ₂`:
the question-averaged operator is `M_{f₁,g₁}(G) ⊗ M_{f₂,g₂}(H)`, `ρ₁ ⊗ ρ₂` is a state, and the value of the product strategy is the
product of the values.  Hence the unentangled value of the `n`-fold game is at least the `n`-th power of the single-shot value. -/
theorem ext_reps_product_strategy (G : Game d) (H : Game d') (f₁ g₁ f₂ g₂ : Nat → Nat)
    (hf₂ : ∀ x, x < H.nX → f₂ x < H.nA) (hg₂ : ∀ y, y < H.nY → g₂ y < H.nB)
    (ρ₁ : Matrix (Fin d) (Fin d) ℂ) (ρ₂ : Matrix (Fin d') (Fin d') ℂ) (h₁ : IsDensity ρ₁) (h₂ : IsDensity ρ₂) :
    (avgOperator (tensorGame G H) (prodFn H.nX H.nA f₁ f₂) (prodFn H.nY H.nB g₁ g₂)).toM
        = flatKron (avgOperator G f₁ g₁).toM (avgOperator H f₂ g₂).toM ∧
      IsDensity (flatKron ρ₁ ρ₂) ∧
      ((avgOperator (tensorGame G H) (prodFn H.nX H.nA f₁ f₂) (prodFn H.nY H.nB g₁ g₂)).toM * flatKron ρ₁ ρ₂).trace
        = ((avgOperator G f₁ g₁).toM * ρ₁).trace * ((avgOperator H f₂ g₂).toM * ρ₂).trace := by
  have h := toM_avgOperator_tensorGame G H f₁ g₁ f₂ g₂ hf₂ hg₂
  refine ⟨h, isDensity_flatKron h₁ h₂, ?_⟩
  rw [h, trace_flatKron_mul]

end ExtReps

/-! ## The checkers accept concrete instances -/

section Examples

/-- the game "Alice must echo her question" (`pred[:, :, x, b, x, 0] = 1₂`, two questions for Alice, one for
Bob, uniform): answer function `f = id` wins with certainty, constant answers win with probability `1/2` -/
private def echoGame : Game 2 :=
  { nA := 2, nB := 2, nX := 2, nY := 1, prob := fun _ _ => 1 / 2,
    pred := fun a _ x _ => if a = x then one else zero }

private def e0 : EMat 2 1 := EMat.ofRows #[#[1], #[0]] 2 1

/-- the unentangled value of the echo game is at least 1 … -/
example : checkUnentLower echoGame [0, 1] [0] e0 = some 1 := by decide +kernel
/-- … and at most 1 … -/
example : checkUnentUpper echoGame 1 (fun _ => zero) = true := by decide +kernel
/-- … while the number computed by the loop over constant answers is at most 1/2 (and at least 1/2). -/
example : checkUnentConstUpper echoGame (1 / 2) (fun _ => zero) = true := by decide +kernel
example : checkUnentConstLower echoGame 0 0 e0 = some (1 / 2) := by decide +kernel

private def r4 (rows : Array (Array Rat)) : EMat (2 * 2) (2 * 2) :=
  EMat.ofRows (rows.map fun r => r.map fun q => (⟨q, 0⟩ : QI)) (2 * 2) (2 * 2)
private def r2 (rows : Array (Array Rat)) : EMat 2 2 :=
  EMat.ofRows (rows.map fun r => r.map fun q => (⟨q, 0⟩ : QI)) 2 2

/-- `Q = |Φ⟩⟨Φ|`, `Φ = |00⟩ + |11⟩` -/
private def exQ : EMat (2 * 2) (2 * 2) := r4 #[#[1, 0, 0, 1], #[0, 0, 0, 0], #[0, 0, 0, 0], #[1, 0, 0, 1]]
private def exXmin : EMat (2 * 2) (2 * 2) := r4 #[#[0, 0, 0, 0], #[0, 1, 0, 0], #[0, 0, 1, 0], #[0, 0, 0, 0]]
private def z4 : EMat (2 * 2) (2 * 2) := zero

/-- maximum 4: `X = Q` is feasible with value 4 and `Y = 2·1` is dual feasible with `tr Y = 4` -/
example : checkHedgeMaxPrimal 2 2 exQ exQ z4 = some 4 := by decide +kernel
example : checkHedgeMaxDual 2 2 exQ (r2 #[#[2, 0], #[0, 2]]) z4 = some 4 := by decide +kernel
/-- minimum 0 -/
example : checkHedgeMinPrimal 2 2 exQ exXmin z4 = some 0 := by decide +kernel
example : checkHedgeMinDual 2 2 exQ (r2 #[#[0, 0], #[0, 0]]) z4 = some 0 := by decide +kernel

/-- the hypotheses of `hedge2_product_bracket` are satisfiable: two copies of `Q = |Φ⟩⟨Φ|` with the certificates above; the
two-fold maximum for `np.kron(Q, Q)` is therefore exactly `16` -/
example : ∀ X : Matrix (Fin (4 * 4)) (Fin (4 * 4)) ℂ,
    HedgeFeasible (X.submatrix (arrangement hedgeSigma2 hedgeSigma2_isSurj) (arrangement hedgeSigma2 hedgeSigma2_isSurj)) →
      ((kronE exQ exQ).toM * X).trace.re ≤ ((4 : Rat) : ℝ) * ((4 : Rat) : ℝ) :=
  (hedge2_product_bracket exQ exQ exQ exQ (r2 #[#[2, 0], #[0, 2]]) (r2 #[#[2, 0], #[0, 2]]) z4 z4 z4 z4 z4 z4 4 4 4 4
    (by decide +kernel) (by decide +kernel) (by decide +kernel) (by decide +kernel) (by decide +kernel)
    (by decide +kernel)).2.2

end Examples

end Toq.C09
