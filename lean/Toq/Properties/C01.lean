import Toq.Model.Perms
import Toq.Model.PermsArgs
import Toq.Proofs.Perms
import Toq.Proofs.PermsArgs
import Mathlib.Algebra.Group.Defs
import Mathlib.Algebra.Ring.Defs
/-!
# C01 — subsystem permutation is exactly tensor-factor relabelling

Property theorems only (helper lemmas live in `Toq/Proofs/Perms.lean`).  The mirror model
`Toq.Perms.permuteVec` follows `toqito/perms/permute_systems.py` line by line (F-order reshape to the
reversed dims, `np.transpose` by `n-1-perm[::-1]` or its `argsort`, F-order flatten); the theorems
say that for every number of subsystems, every dimension vector and every permutation this is the
relabelling of tensor factors: product vectors and product operators are relabelled, calls compose
like permutations, the inverse flag inverts, the permutation/swap operators are unitary permutation
matrices implementing exactly this action, `swap` is the transposition special case, and the omitted
`dim` form uses the exact integer root (`Toq/Model/PermsArgs.lean`).
-/
namespace Toq.C01
open Toq.Perms

/-- `perm` is a permutation of `0..n-1` (what `sorted(perm) == list(range(n))` checks) -/
structure IsPermN (n : Nat) (p : Nat → Nat) : Prop where
  lt : ∀ k, k < n → p k < n
  inj : ∀ a b, a < n → b < n → p a = p b → a = b

/-- the executable guard used by the driver decides `IsPermN` -/
theorem isPerm_iff (n : Nat) (p : Nat → Nat) : isPerm n p = true ↔ IsPermN n p := by
  unfold isPerm
  rw [Bool.and_eq_true, allBelow_iff, allBelow_iff]
  simp only [anyBelow_iff, beq_iff_eq, decide_eq_true_eq]
  constructor
  · rintro ⟨hs, hl⟩
    exact ⟨hl, inj_of_surj n p hl hs⟩
  · rintro ⟨hl, hi⟩
    exact ⟨surj_of_inj n p hl hi, hl⟩

/-- the model output at `j` is the input at the index whose `k`-th digit (radices `dims`) is the
    `perm⁻¹ k`-th digit of `j` (radices `dims ∘ perm`) -/
theorem permuteVec_eq_spec {α : Type} (v : Nat → α) (n : Nat) (perm dims : Nat → Nat)
    (hp : IsPermN n perm) (j : Nat) :
    permuteVec v n perm dims false j = v (specIndex n perm dims j) := by
  exact permuteVec_false_eq v n perm dims hp.lt hp.inj j

/-- the inverse option is the forward call with the inverse permutation -/
theorem permuteVec_inv_eq_spec {α : Type} (v : Nat → α) (n : Nat) (perm dims : Nat → Nat)
    (hp : IsPermN n perm) (j : Nat) :
    permuteVec v n perm dims true j = v (specIndex n (invPerm n perm) dims j) := by
  exact permuteVec_true_eq v n perm dims hp.lt hp.inj j

/-- **Relabelling**: the factor at position `perm i` moves to position `i`.  For every digit vector `y`
    (valid for the permuted radices), output entry `y` is input entry `y ∘ perm⁻¹`. -/
theorem permuteVec_relabel {α : Type} (v : Nat → α) (n : Nat) (perm dims y : Nat → Nat)
    (hp : IsPermN n perm) (hy : ∀ k, k < n → y k < dims (perm k)) :
    permuteVec v n perm dims false (enc (fun m => dims (perm m)) y n)
      = v (enc dims (fun k => y (invPerm n perm k)) n) := by
  rw [permuteVec_false_eq v n perm dims hp.lt hp.inj]
  congr 1
  unfold specIndex
  apply enc_congr _ _ _ _ _ (fun _ _ => rfl)
  intro k hk
  exact dec_enc (fun m => dims (perm m)) y n hy _ (invPerm_lt n perm hp.lt hp.inj k hk)

/-- entry `j` of `a 0 ⊗ a 1 ⊗ … ⊗ a (n-1)` where `a k` has length `dims k` -/
def kronVec {α : Type} [Mul α] [One α] (n : Nat) (a : Nat → Nat → α) (dims : Nat → Nat) (j : Nat) : α :=
  prodFn n (fun k => a k (dec dims n j k))

/-- **Product vectors**: `A_0 ⊗ … ⊗ A_{n-1}` becomes `A_{p 0} ⊗ … ⊗ A_{p (n-1)}`
    (over any commutative monoid of scalars). -/
theorem permute_kronVec {α : Type} [CommMonoid α] (n : Nat) (a : Nat → Nat → α) (perm dims : Nat → Nat)
    (hp : IsPermN n perm) (hd : ∀ k, k < n → 0 < dims k) (j : Nat) :
    permuteVec (kronVec n a dims) n perm dims false j
      = kronVec n (fun k => a (perm k)) (fun m => dims (perm m)) j := by
  rw [permuteVec_false_eq _ n perm dims hp.lt hp.inj]
  unfold kronVec
  rw [← prodFn_reindex n perm (fun k => a k (dec dims n (specIndex n perm dims j) k)) hp.lt hp.inj]
  apply prodFn_congr
  intro k hk
  show a (perm k) (dec dims n (specIndex n perm dims j) (perm k)) = _
  rw [dec_specIndex n perm dims hp.lt hp.inj hd j (perm k) (hp.lt k hk),
    invPerm_perm n perm hp.inj k hk]

/-- **Inverse option** undoes the forward call when given the permuted dimensions. -/
theorem permute_inv_undoes {α : Type} (v : Nat → α) (n : Nat) (perm dims : Nat → Nat)
    (hp : IsPermN n perm) (j : Nat) (hj : j < prodN dims n) :
    permuteVec (permuteVec v n perm dims false) n perm (fun m => dims (perm m)) true j = v j := by
  have hd := pos_of_lt_prodN dims n j hj
  have hq_lt := invPerm_lt n perm hp.lt hp.inj
  have hq_inj := invPerm_inj n perm hp.lt hp.inj
  have hd' : ∀ k, k < n → 0 < (fun m => dims (perm m)) k := fun k hk => hd _ (hp.lt k hk)
  rw [permuteVec_true_eq _ n perm _ hp.lt hp.inj, permuteVec_false_eq v n perm dims hp.lt hp.inj]
  congr 1
  have e : specIndex n perm dims (specIndex n (invPerm n perm) (fun m => dims (perm m)) j)
      = enc dims (dec dims n j) n := by
    unfold specIndex
    apply enc_congr _ _ _ _ _ (fun _ _ => rfl)
    intro k hk
    have h1 := dec_specIndex n (invPerm n perm) (fun m => dims (perm m)) hq_lt hq_inj hd' j
      (invPerm n perm k) (hq_lt k hk)
    unfold specIndex at h1
    rw [h1, invPerm_perm n (invPerm n perm) hq_inj k hk]
    apply dec_congr
    intro m hm
    show dims (perm (invPerm n perm m)) = dims m
    rw [perm_invPerm n perm hp.lt hp.inj m hm]
  rw [e, enc_dec dims n j hj]

/-- the index map sends every position into `0..N-1`; that it is a bijection of `0..N-1` (so the
    permutation operator is a permutation matrix) is `permOp_entries` / `permOp_orthogonal` below, and the
    inverse-flag map is its two-sided inverse (`permute_inv_undoes`, `permute_undoes_inv`) -/
theorem permIndex_lt (n : Nat) (perm dims : Nat → Nat) (hp : IsPermN n perm)
    (hd : ∀ k, k < n → 0 < dims k) (j : Nat) :
    permIndex n perm dims false j < prodN dims n := by
  unfold permIndex
  rw [permuteVec_false_eq _ n perm dims hp.lt hp.inj]
  exact specIndex_lt n perm dims hp.lt hp.inj hd j

/-- **Matrices**: rows and columns are relabelled independently (separate row/column dims, row-only
    and inverse flags). -/
theorem permuteMat_eq_spec {α : Type} (X : Nat → Nat → α) (n : Nat) (perm rd cd : Nat → Nat)
    (hp : IsPermN n perm) (i j : Nat) (rowOnly : Bool) :
    permuteMat X n perm rd cd rowOnly false i j
      = X (specIndex n perm rd i) (if rowOnly then j else specIndex n perm cd j) := by
  unfold permuteMat permIndex
  rw [permuteVec_false_eq _ n perm rd hp.lt hp.inj, permuteVec_false_eq _ n perm cd hp.lt hp.inj]

/-- **Row-only** = left multiplication by the permutation operator. -/
theorem rowOnly_eq_permOp_mul {α : Type} [Semiring α] (X : Nat → Nat → α) (n : Nat)
    (perm rd cd : Nat → Nat) (inv : Bool) (hp : IsPermN n perm) (hr : ∀ k, k < n → 0 < rd k) (i j : Nat) :
    permuteMat X n perm rd cd true inv i j
      = sumN (prodN rd n) (fun k => permOp (α := α) n perm rd inv i k * X k j) := by
  have hc : permIndex n perm rd inv i < prodN rd n := by
    unfold permIndex
    cases inv
    · rw [permuteVec_false_eq _ n perm rd hp.lt hp.inj]
      exact specIndex_lt n perm rd hp.lt hp.inj hr i
    · rw [permuteVec_true_eq _ n perm rd hp.lt hp.inj]
      exact specIndex_lt n (invPerm n perm) rd (invPerm_lt n perm hp.lt hp.inj)
        (invPerm_inj n perm hp.lt hp.inj) hr i
  unfold permOp permuteMat
  simp only [if_true]
  rw [sumN_ite_mul_of_lt (fun k => X k j) _ _ hc]

/-- **Swap** is the transposition special case: `swapPerm` is a permutation, its own inverse. -/
theorem swapPerm_isPerm (n s1 s2 : Nat) (h1 : s1 < n) (h2 : s2 < n) : IsPermN n (swapPerm s1 s2) := by
  constructor
  · intro k hk; unfold swapPerm; split
    · exact h2
    · split
      · exact h1
      · exact hk
  · intro a b _ _ hab; unfold swapPerm at hab
    split at hab <;> split at hab <;> (try split at hab) <;> (try split at hab) <;> omega

theorem swapPerm_involutive (s1 s2 k : Nat) : swapPerm s1 s2 (swapPerm s1 s2 k) = k := by
  unfold swapPerm
  split <;> split <;> (try split) <;> omega

/-- non-vacuity: the hypotheses are met by `dims = [2,3,2]`, `perm = [1,2,0]`, and the model
    computes the relabelling there -/
example : isPerm 3 (fnOfList [1, 2, 0]) = true ∧
    listOfFn 12 (permIndex 3 (fnOfList [1, 2, 0]) (fnOfList [2, 3, 2]) false)
      = [0, 6, 1, 7, 2, 8, 3, 9, 4, 10, 5, 11] := by decide

/-! ## Inverse and composite permutations, the inverse flag -/

/-- the inverse of a permutation (`np.argsort(perm)`) is a permutation -/
theorem invPerm_isPerm (n : Nat) (perm : Nat → Nat) (hp : IsPermN n perm) : IsPermN n (invPerm n perm) :=
  ⟨invPerm_lt n perm hp.lt hp.inj, invPerm_inj n perm hp.lt hp.inj⟩

/-- the composite `i ↦ p (q i)` of two permutations is a permutation -/
theorem comp_isPerm (n : Nat) (p q : Nat → Nat) (hp : IsPermN n p) (hq : IsPermN n q) :
    IsPermN n (fun i => p (q i)) :=
  ⟨permComp_lt n p q hp.lt hq.lt, permComp_inj n p q hp.inj hq.lt hq.inj⟩

/-- the inverse flag is the forward call with the inverse permutation `np.argsort(perm)`
    (so every forward theorem below also covers `inv_perm=True`) -/
theorem permuteVec_inv_eq_forward {α : Type} (v : Nat → α) (n : Nat) (perm dims : Nat → Nat)
    (hp : IsPermN n perm) (j : Nat) :
    permuteVec v n perm dims true j = permuteVec v n (invPerm n perm) dims false j := by
  rw [permuteVec_true_eq v n perm dims hp.lt hp.inj,
    permuteVec_false_eq v n _ dims (invPerm_isPerm n perm hp).lt (invPerm_isPerm n perm hp).inj]

/-- only the values `perm[0], …, perm[n-1]` matter (both flags): the model does not look at its
    total-function argument outside `0..n-1` -/
theorem permuteVec_congr_perm {α : Type} (v : Nat → α) (n : Nat) (p p' dims : Nat → Nat)
    (hp : IsPermN n p') (h : ∀ k, k < n → p k = p' k) (inv : Bool) (j : Nat) :
    permuteVec v n p dims inv j = permuteVec v n p' dims inv j := by
  have hlt : ∀ k, k < n → p k < n := fun k hk => by rw [h k hk]; exact hp.lt k hk
  have hinj : ∀ a b, a < n → b < n → p a = p b → a = b := fun a b ha hb hab =>
    hp.inj a b ha hb (by rw [← h a ha, ← h b hb]; exact hab)
  cases inv
  · rw [permuteVec_false_eq v n p dims hlt hinj, permuteVec_false_eq v n p' dims hp.lt hp.inj,
      specIndex_congr n p p' dims dims hlt h (fun _ _ => rfl)]
  · rw [permuteVec_true_eq v n p dims hlt hinj, permuteVec_true_eq v n p' dims hp.lt hp.inj,
      specIndex_congr n (invPerm n p) (invPerm n p') dims dims (invPerm_lt n p hlt hinj)
        (fun k _ => invPerm_congr n p p' k h) (fun _ _ => rfl)]

/-- the identity permutation does nothing -/
theorem permuteVec_id {α : Type} (v : Nat → α) (n : Nat) (dims : Nat → Nat) (j : Nat)
    (hj : j < prodN dims n) : permuteVec v n (fun k => k) dims false j = v j := by
  rw [permuteVec_false_eq v n _ dims (fun _ h => h) (fun _ _ _ _ h => h), specIndex_id n dims j hj]

/-! ## The permutation operator is a unitary permutation matrix and acts by relabelling -/

/-- **The permutation operator is orthogonal/unitary**: with `P = permutation_operator(dims, perm,
    inv)` of size `N = ∏ dims`, `P·Pᵀ = 1` and `Pᵀ·P = 1` entrywise, over every semiring, for every `n`,
    every dimension vector, every permutation and both flags.  (`P` is real, so `Pᵀ = P†`.) -/
theorem permOp_orthogonal {α : Type} [Semiring α] (n : Nat) (perm dims : Nat → Nat) (inv : Bool)
    (hp : IsPermN n perm) (i j : Nat) (hi : i < prodN dims n) (hj : j < prodN dims n) :
    sumN (prodN dims n) (fun k => permOp (α := α) n perm dims inv i k * permOp (α := α) n perm dims inv j k)
        = (if i = j then 1 else 0) ∧
    sumN (prodN dims n) (fun k => permOp (α := α) n perm dims inv k i * permOp (α := α) n perm dims inv k j)
        = (if i = j then 1 else 0) := by
  have hd := pos_of_lt_prodN dims n i hi
  obtain ⟨τ, h0, h1, h2, h3⟩ := permIndex_bij n perm dims inv hp.lt hp.inj hd
  simp only [permOp_apply]
  constructor
  · rw [sumN_ite_ite_row _ _ _ (h0 i)]
    by_cases hij : i = j
    · rw [if_pos hij, if_pos (by rw [hij])]
    · rw [if_neg hij, if_neg]
      intro h; apply hij
      rw [← h2 i hi, ← h2 j hj, h]
  · exact sumN_ite_ite_col _ τ _ i j hi (h1 i hi) h2 (h3 i hi)

/-- **The permutation operator is a permutation matrix**: every entry is 0 or 1; every row `i < N`
    is the indicator of exactly one column `c < N`; every column `k < N` is (among the rows `< N`) the
    indicator of exactly one row `r < N`. -/
theorem permOp_entries {α : Type} [Zero α] [One α] (n : Nat) (perm dims : Nat → Nat) (inv : Bool)
    (hp : IsPermN n perm) :
    (∀ i k, permOp (α := α) n perm dims inv i k = 0 ∨ permOp (α := α) n perm dims inv i k = 1) ∧
    (∀ i, i < prodN dims n → ∃ c, c < prodN dims n ∧
      ∀ k, permOp (α := α) n perm dims inv i k = if k = c then 1 else 0) ∧
    (∀ k, k < prodN dims n → ∃ r, r < prodN dims n ∧
      ∀ i, i < prodN dims n → permOp (α := α) n perm dims inv i k = if i = r then 1 else 0) := by
  refine ⟨?_, ?_, ?_⟩
  · intro i k; rw [permOp_apply]; split
    · exact Or.inr rfl
    · exact Or.inl rfl
  · intro i hi
    obtain ⟨τ, h0, _, _, _⟩ := permIndex_bij n perm dims inv hp.lt hp.inj (pos_of_lt_prodN dims n i hi)
    refine ⟨permIndex n perm dims inv i, h0 i, fun k => ?_⟩
    rw [permOp_apply]
    by_cases h : permIndex n perm dims inv i = k
    · rw [if_pos h, if_pos h.symm]
    · rw [if_neg h, if_neg (fun h' => h h'.symm)]
  · intro k hk
    obtain ⟨τ, _, h1, h2, h3⟩ := permIndex_bij n perm dims inv hp.lt hp.inj (pos_of_lt_prodN dims n k hk)
    refine ⟨τ k, h1 k hk, fun i hi => ?_⟩
    rw [permOp_apply]
    by_cases h : permIndex n perm dims inv i = k
    · rw [if_pos h, if_pos (by rw [← h, h2 i hi])]
    · rw [if_neg h, if_neg (fun h' => h (by rw [h', h3 k hk]))]

/-- the vector branch equals multiplication by the permutation operator (vector analogue of
    `rowOnly_eq_permOp_mul`), both flags -/
theorem permuteVec_eq_permOp_mul {α : Type} [Semiring α] (v : Nat → α) (n : Nat)
    (perm dims : Nat → Nat) (inv : Bool) (hp : IsPermN n perm) (i : Nat) (hi : i < prodN dims n) :
    permuteVec v n perm dims inv i
      = sumN (prodN dims n) (fun k => permOp (α := α) n perm dims inv i k * v k) := by
  obtain ⟨τ, h0, _, _, _⟩ := permIndex_bij n perm dims inv hp.lt hp.inj (pos_of_lt_prodN dims n i hi)
  simp only [permOp_apply]
  rw [sumN_ite_mul_of_lt v _ _ (h0 i)]
  rfl

/-- **Action on product vectors**: `P (a_0 ⊗ … ⊗ a_{n-1}) = a_{p 0} ⊗ … ⊗ a_{p (n-1)}` for
    `P = permutation_operator(dims, p)`, over every commutative semiring. -/
theorem permOp_action_kron {α : Type} [CommSemiring α] (n : Nat) (a : Nat → Nat → α)
    (perm dims : Nat → Nat) (hp : IsPermN n perm) (i : Nat) (hi : i < prodN dims n) :
    sumN (prodN dims n) (fun k => permOp (α := α) n perm dims false i k * kronVec n a dims k)
      = kronVec n (fun k => a (perm k)) (fun m => dims (perm m)) i := by
  have hd := pos_of_lt_prodN dims n i hi
  rw [← permuteVec_eq_permOp_mul (kronVec n a dims) n perm dims false hp i hi]
  exact permute_kronVec n a perm dims hp hd i

/-- … and with the inverse flag `P (a_0 ⊗ … ⊗ a_{n-1}) = a_{p⁻¹ 0} ⊗ … ⊗ a_{p⁻¹ (n-1)}` -/
theorem permOp_action_kron_inv {α : Type} [CommSemiring α] (n : Nat) (a : Nat → Nat → α)
    (perm dims : Nat → Nat) (hp : IsPermN n perm) (i : Nat) (hi : i < prodN dims n) :
    sumN (prodN dims n) (fun k => permOp (α := α) n perm dims true i k * kronVec n a dims k)
      = kronVec n (fun k => a (invPerm n perm k)) (fun m => dims (invPerm n perm m)) i := by
  have hd := pos_of_lt_prodN dims n i hi
  have hq := invPerm_isPerm n perm hp
  rw [← permuteVec_eq_permOp_mul (kronVec n a dims) n perm dims true hp i hi,
    permuteVec_inv_eq_forward _ n perm dims hp]
  exact permute_kronVec n a _ dims hq hd i

/-! ## Product operators -/

/-- entry `(i, j)` of `A 0 ⊗ … ⊗ A (n-1)` where `A k` is `rd k × cd k` -/
def kronOp {α : Type} [Mul α] [One α] (n : Nat) (A : Nat → Nat → Nat → α) (rd cd : Nat → Nat)
    (i j : Nat) : α :=
  prodFn n (fun k => A k (dec rd n i k) (dec cd n j k))

/-- **Product operators**: the matrix branch maps `A_0 ⊗ … ⊗ A_{n-1}` (rectangular factors, `A_k` of
    size `rd k × cd k`) to `A_{p 0} ⊗ … ⊗ A_{p (n-1)}` (sizes `rd (p k) × cd (p k)`), over every
    commutative monoid of scalars. -/
theorem permute_kronMat {α : Type} [CommMonoid α] (n : Nat) (A : Nat → Nat → Nat → α)
    (perm rd cd : Nat → Nat) (hp : IsPermN n perm) (hr : ∀ k, k < n → 0 < rd k)
    (hc : ∀ k, k < n → 0 < cd k) (i j : Nat) :
    permuteMat (kronOp n A rd cd) n perm rd cd false false i j
      = kronOp n (fun k => A (perm k)) (fun m => rd (perm m)) (fun m => cd (perm m)) i j := by
  unfold permuteMat
  rw [permIndex_false_eq n perm rd hp.lt hp.inj]
  simp only [Bool.false_eq_true, if_false]
  rw [permIndex_false_eq n perm cd hp.lt hp.inj]
  unfold kronOp
  rw [← prodFn_reindex n perm (fun k => A k (dec rd n (specIndex n perm rd i) k)
    (dec cd n (specIndex n perm cd j) k)) hp.lt hp.inj]
  apply prodFn_congr
  intro k hk
  show A (perm k) (dec rd n (specIndex n perm rd i) (perm k))
    (dec cd n (specIndex n perm cd j) (perm k)) = _
  rw [dec_specIndex n perm rd hp.lt hp.inj hr i (perm k) (hp.lt k hk),
    dec_specIndex n perm cd hp.lt hp.inj hc j (perm k) (hp.lt k hk),
    invPerm_perm n perm hp.inj k hk]

/-- matrix branch: the inverse flag is the forward call with the inverse permutation -/
theorem permuteMat_inv_eq_forward {α : Type} (X : Nat → Nat → α) (n : Nat) (perm rd cd : Nat → Nat)
    (hp : IsPermN n perm) (rowOnly : Bool) (i j : Nat) :
    permuteMat X n perm rd cd rowOnly true i j
      = permuteMat X n (invPerm n perm) rd cd rowOnly false i j := by
  have e : ∀ d m, permIndex n perm d true m = permIndex n (invPerm n perm) d false m := fun d m =>
    permuteVec_inv_eq_forward _ n perm d hp m
  unfold permuteMat
  rw [e rd i, e cd j]

/-- … and with the inverse flag `A_0 ⊗ … ⊗ A_{n-1}` becomes `A_{p⁻¹ 0} ⊗ … ⊗ A_{p⁻¹ (n-1)}` -/
theorem permute_kronMat_inv {α : Type} [CommMonoid α] (n : Nat) (A : Nat → Nat → Nat → α)
    (perm rd cd : Nat → Nat) (hp : IsPermN n perm) (hr : ∀ k, k < n → 0 < rd k)
    (hc : ∀ k, k < n → 0 < cd k) (i j : Nat) :
    permuteMat (kronOp n A rd cd) n perm rd cd false true i j
      = kronOp n (fun k => A (invPerm n perm k)) (fun m => rd (invPerm n perm m))
          (fun m => cd (invPerm n perm m)) i j := by
  rw [permuteMat_inv_eq_forward _ n perm rd cd hp]
  exact permute_kronMat n A _ rd cd (invPerm_isPerm n perm hp) hr hc i j

/-! ## Composition and inversion -/

/-- **Composition**: permuting by `p` and then by `q` (handing the second call the permuted dimensions
    `dims ∘ p`) is permuting once by the composite `i ↦ p (q i)`: output position `i` takes factor
    `p (q i)` of the original. -/
theorem permute_comp {α : Type} (v : Nat → α) (n : Nat) (p q dims : Nat → Nat)
    (hp : IsPermN n p) (hq : IsPermN n q) (hd : ∀ k, k < n → 0 < dims k) (j : Nat) :
    permuteVec (permuteVec v n p dims false) n q (fun m => dims (p m)) false j
      = permuteVec v n (fun i => p (q i)) dims false j := by
  have hpq := comp_isPerm n p q hp hq
  rw [permuteVec_false_eq _ n q _ hq.lt hq.inj, permuteVec_false_eq v n p dims hp.lt hp.inj,
    permuteVec_false_eq v n _ dims hpq.lt hpq.inj,
    specIndex_comp n p q hp.lt hp.inj hq.lt hq.inj dims hd j]

/-- **Composition, matrices** (separate row/column dimensions, either row-only setting) -/
theorem permute_comp_mat {α : Type} (X : Nat → Nat → α) (n : Nat) (p q rd cd : Nat → Nat)
    (hp : IsPermN n p) (hq : IsPermN n q) (hr : ∀ k, k < n → 0 < rd k)
    (hc : ∀ k, k < n → 0 < cd k) (rowOnly : Bool) (i j : Nat) :
    permuteMat (permuteMat X n p rd cd rowOnly false) n q (fun m => rd (p m)) (fun m => cd (p m))
        rowOnly false i j
      = permuteMat X n (fun i => p (q i)) rd cd rowOnly false i j := by
  have e : ∀ d, (∀ k, k < n → 0 < d k) → ∀ m,
      permIndex n p d false (permIndex n q (fun m => d (p m)) false m)
        = permIndex n (fun i => p (q i)) d false m := fun d hd m =>
    permute_comp (fun j => j) n p q d hp hq hd m
  unfold permuteMat
  cases rowOnly
  · simp only [Bool.false_eq_true, if_false]; rw [e rd hr i, e cd hc j]
  · simp only [if_true]; rw [e rd hr i]

/-- **Inverse option, matrices**: the inverse call with the permuted row/column dimensions undoes the
    forward call (with `row_only` the columns are untouched, so only the row index has to be in range). -/
theorem permute_inv_undoes_mat {α : Type} (X : Nat → Nat → α) (n : Nat) (perm rd cd : Nat → Nat)
    (hp : IsPermN n perm) (rowOnly : Bool) (i j : Nat) (hi : i < prodN rd n)
    (hj : rowOnly = false → j < prodN cd n) :
    permuteMat (permuteMat X n perm rd cd rowOnly false) n perm (fun m => rd (perm m))
        (fun m => cd (perm m)) rowOnly true i j = X i j := by
  have e : ∀ d m, m < prodN d n →
      permIndex n perm d false (permIndex n perm (fun m => d (perm m)) true m) = m := fun d m hm =>
    permute_inv_undoes (fun j => j) n perm d hp m hm
  unfold permuteMat
  cases rowOnly
  · simp only [Bool.false_eq_true, if_false]; rw [e rd i hi, e cd j (hj rfl)]
  · simp only [if_true]; rw [e rd i hi]

/-- … and the other way round: the forward call (with the dimensions `dims ∘ p⁻¹` of the inverse call's
    output) undoes the inverse call -/
theorem permute_undoes_inv {α : Type} (v : Nat → α) (n : Nat) (perm dims : Nat → Nat)
    (hp : IsPermN n perm) (j : Nat) (hj : j < prodN dims n) :
    permuteVec (permuteVec v n perm dims true) n perm (fun m => dims (invPerm n perm m)) false j
      = v j := by
  have hq := invPerm_isPerm n perm hp
  have hd := pos_of_lt_prodN dims n j hj
  have e : ∀ m, permuteVec v n perm dims true m = permuteVec v n (invPerm n perm) dims false m :=
    permuteVec_inv_eq_forward v n perm dims hp
  rw [permuteVec_false_eq _ n perm _ hp.lt hp.inj, e,
    ← permuteVec_false_eq (permuteVec v n (invPerm n perm) dims false) n perm _ hp.lt hp.inj,
    permute_comp v n (invPerm n perm) perm dims hq hp hd j,
    permuteVec_congr_perm v n _ (fun k => k) dims ⟨fun _ h => h, fun _ _ _ _ h => h⟩
      (fun k hk => invPerm_perm n perm hp.inj k hk) false j]
  exact permuteVec_id v n dims j hj

/-! ## Swap -/

/-- `swapPerm s1 s2` is the transposition `(s1 s2)` -/
theorem swapPerm_apply (s1 s2 : Nat) :
    swapPerm s1 s2 s1 = s2 ∧ swapPerm s1 s2 s2 = s1 ∧ ∀ k, k ≠ s1 → k ≠ s2 → swapPerm s1 s2 k = k := by
  unfold swapPerm
  refine ⟨by simp, ?_, fun k h1 h2 => by simp [h1, h2]⟩
  by_cases h : s2 = s1
  · simp [h]
  · simp [h]

/-- **Swap is the transposition special case**: the list `swap.py` builds by
    `perm = arange(n); perm[sys] = perm[sys[::-1]]` is the transposition `(s1 s2)` (0-indexed) in one-line
    notation, and `swap` on vectors and on matrices (any `row_only`) is `permute_systems` with that
    transposition. -/
theorem swap_eq_transposition {α : Type} (n s1 s2 : Nat) (h1 : s1 < n) (h2 : s2 < n) :
    swapPermList n s1 s2 = listOfFn n (swapPerm s1 s2) ∧
    (∀ (v : Nat → α) (dims : Nat → Nat) (j : Nat),
      swapSysVec v n s1 s2 dims j = permuteVec v n (swapPerm s1 s2) dims false j) ∧
    (∀ (X : Nat → Nat → α) (rd cd : Nat → Nat) (rowOnly : Bool) (i j : Nat),
      swapSysMat X n s1 s2 rd cd rowOnly i j = permuteMat X n (swapPerm s1 s2) rd cd rowOnly false i j) := by
  have hs := swapPerm_isPerm n s1 s2 h1 h2
  have hc : ∀ k, k < n → (fnOfList (swapPermList n s1 s2)) k = swapPerm s1 s2 k := fun k hk =>
    swapPermList_apply n s1 s2 k h1 h2 hk
  refine ⟨swapPermList_eq n s1 s2 h1 h2, ?_, ?_⟩
  · intro v dims j
    exact permuteVec_congr_perm v n _ _ dims hs hc false j
  · intro X rd cd rowOnly i j
    have e : ∀ d m, permIndex n (fnOfList (swapPermList n s1 s2)) d false m
        = permIndex n (swapPerm s1 s2) d false m := fun d m =>
      permuteVec_congr_perm _ n _ _ d hs hc false m
    unfold swapSysMat permuteMat
    rw [e rd i, e cd j]

/-- swapping the same two subsystems twice (second call with the swapped dimensions) is the identity -/
theorem swap_swap {α : Type} (v : Nat → α) (n s1 s2 : Nat) (h1 : s1 < n) (h2 : s2 < n)
    (dims : Nat → Nat) (j : Nat) (hj : j < prodN dims n) :
    swapSysVec (swapSysVec v n s1 s2 dims) n s1 s2 (fun m => dims (swapPerm s1 s2 m)) j = v j := by
  have hs := swapPerm_isPerm n s1 s2 h1 h2
  have hd := pos_of_lt_prodN dims n j hj
  obtain ⟨_, hv, _⟩ := swap_eq_transposition (α := α) n s1 s2 h1 h2
  rw [hv, permuteVec_false_eq _ n _ _ hs.lt hs.inj, hv,
    ← permuteVec_false_eq (permuteVec v n (swapPerm s1 s2) dims false) n _ _ hs.lt hs.inj,
    permute_comp v n _ _ dims hs hs hd j,
    permuteVec_congr_perm v n _ (fun k => k) dims ⟨fun _ h => h, fun _ _ _ _ h => h⟩
      (fun k _ => swapPerm_involutive s1 s2 k) false j]
  exact permuteVec_id v n dims j hj

/-- … also for matrices (separate row/column dimensions, either row-only setting) -/
theorem swap_swap_mat {α : Type} (X : Nat → Nat → α) (n s1 s2 : Nat) (h1 : s1 < n) (h2 : s2 < n)
    (rd cd : Nat → Nat) (rowOnly : Bool) (i j : Nat) (hi : i < prodN rd n)
    (hj : rowOnly = false → j < prodN cd n) :
    swapSysMat (swapSysMat X n s1 s2 rd cd rowOnly) n s1 s2 (fun m => rd (swapPerm s1 s2 m))
      (fun m => cd (swapPerm s1 s2 m)) rowOnly i j = X i j := by
  have e : ∀ d m, m < prodN d n → permIndex n (fnOfList (swapPermList n s1 s2)) d false
      (permIndex n (fnOfList (swapPermList n s1 s2)) (fun m => d (swapPerm s1 s2 m)) false m) = m :=
    fun d m hm => swap_swap (fun j => j) n s1 s2 h1 h2 d m hm
  unfold swapSysMat permuteMat
  cases rowOnly
  · simp only [Bool.false_eq_true, if_false]; rw [e rd i hi, e cd j (hj rfl)]
  · simp only [if_true]; rw [e rd i hi]

/-- `swap_operator(dims)` is `permutation_operator(dims, [1, 0, 2, …, n-1])`; with `permOp_orthogonal`
    and `permOp_entries` it is therefore a unitary permutation matrix -/
theorem swapOp_eq_permOp {α : Type} [Zero α] [One α] (n : Nat) (hn : 2 ≤ n) (dims : Nat → Nat)
    (i k : Nat) : swapOperator (α := α) n dims i k = permOp (α := α) n (swapPerm 0 1) dims false i k := by
  obtain ⟨_, _, hm⟩ := swap_eq_transposition (α := α) n 0 1 (by omega) (by omega)
  unfold swapOperator permOp
  exact hm _ dims dims true i k

/-- the swap operator exchanges the first two tensor factors: `W (a_0 ⊗ a_1 ⊗ …) = a_1 ⊗ a_0 ⊗ …` -/
theorem swapOp_action_kron {α : Type} [CommSemiring α] (n : Nat) (hn : 2 ≤ n) (a : Nat → Nat → α)
    (dims : Nat → Nat) (i : Nat) (hi : i < prodN dims n) :
    sumN (prodN dims n) (fun k => swapOperator (α := α) n dims i k * kronVec n a dims k)
      = kronVec n (fun k => a (swapPerm 0 1 k)) (fun m => dims (swapPerm 0 1 m)) i := by
  simp only [swapOp_eq_permOp n hn]
  exact permOp_action_kron n a _ dims (swapPerm_isPerm n 0 1 (by omega) (by omega)) i hi

/-! ## The omitted-`dim` form -/

/-- **Omitted `dim`**: the exact integer root the driver uses for `dim=None` returns `r` exactly when
    `r ^ k = N` (`k = len(perm) ≥ 1` subsystems, `N` rows/columns) … -/
theorem dim_omitted_root (N k r : Nat) (hk : 0 < k) : iroot N k = some r ↔ r ^ k = N := by
  unfold iroot
  rw [List.find?_range_eq_some]
  simp only [beq_iff_eq, List.mem_range, Bool.not_eq_true', beq_eq_false_iff_ne, ne_eq]
  constructor
  · exact fun h => h.1
  · intro h
    have hle : r ≤ N := by
      rw [← h]; exact Nat.le_self_pow (by omega) r
    refine ⟨h, by omega, fun j hj hjN => ?_⟩
    have := Nat.pow_lt_pow_left hj (by omega : k ≠ 0)
    omega

/-- … and reports failure (→ `InvalidDim`, as the size check in the code does) exactly when `N` is not
    a perfect `k`-th power -/
theorem dim_omitted_none (N k : Nat) : iroot N k = none ↔ ∀ r, r ^ k ≠ N := by
  unfold iroot
  rw [List.find?_range_eq_none]
  simp only [Bool.not_eq_true', beq_eq_false_iff_ne, ne_eq]
  constructor
  · intro h r hr
    rcases Nat.eq_zero_or_pos k with hk | hk
    · subst hk
      exact h 0 (by omega) (by rw [← hr]; rfl)
    · have hle : r ≤ N := by rw [← hr]; exact Nat.le_self_pow (by omega) r
      exact h r (by omega) hr
  · exact fun h i _ => h i

/-- the uniform dimension list `[r] * n` chosen for the omitted `dim` multiplies to `N`, so it passes
    the size check and the theorems above apply with `dims = fun _ => r` -/
theorem dim_omitted_dims (N n r : Nat) (h : iroot N n = some r) :
    prodN (fnOfList (List.replicate n r)) n = N := by
  have hr : r ^ n = N := by
    unfold iroot at h
    rw [List.find?_range_eq_some] at h
    simpa using h.1
  rw [prodN_replicate r n n (Nat.le_refl n), hr]

/-- non-vacuity of the composition law on a non-uniform, non-involutive instance: `dims = [2,3,2]`,
    `p = [1,2,0]` (so the intermediate dims are `[3,2,2]`), `q = [1,0,2]`, composite `i ↦ p (q i) = [2,1,0]`;
    the composite differs from `p` -/
example :
    isPerm 3 (fnOfList [1, 2, 0]) = true ∧ isPerm 3 (fnOfList [1, 0, 2]) = true ∧
    listOfFn 12 (permuteVec (permIndex 3 (fnOfList [1, 2, 0]) (fnOfList [2, 3, 2]) false) 3
        (fnOfList [1, 0, 2]) (fnOfList [3, 2, 2]) false)
      = listOfFn 12 (permIndex 3 (fnOfList [2, 1, 0]) (fnOfList [2, 3, 2]) false) ∧
    listOfFn 12 (permIndex 3 (fnOfList [2, 1, 0]) (fnOfList [2, 3, 2]) false)
      ≠ listOfFn 12 (permIndex 3 (fnOfList [1, 2, 0]) (fnOfList [2, 3, 2]) false) := by decide

/-- non-vacuity: the permutation operator for `dims = [2,3]`, `perm = [1,0]` is the 6×6 permutation
    matrix with ones at `(0,0),(1,3),(2,1),(3,4),(4,2),(5,5)`; it equals `swap_operator([2,3])` -/
example :
    listOfFn 6 (fun i => listOfFn 6 (permOp (α := Int) 2 (fnOfList [1, 0]) (fnOfList [2, 3]) false i))
      = [[1,0,0,0,0,0],[0,0,0,1,0,0],[0,1,0,0,0,0],[0,0,0,0,1,0],[0,0,1,0,0,0],[0,0,0,0,0,1]] ∧
    listOfFn 6 (fun i => listOfFn 6 (swapOperator (α := Int) 2 (fnOfList [2, 3]) i))
      = listOfFn 6 (fun i => listOfFn 6 (permOp (α := Int) 2 (fnOfList [1, 0]) (fnOfList [2, 3]) false i)) ∧
    swapPermList 4 0 2 = [2, 1, 0, 3] := by decide

/-- non-vacuity: exact roots -/
example : iroot 27 3 = some 3 ∧ iroot 16 2 = some 4 ∧ iroot 12 2 = none ∧ iroot 1 5 = some 1 := by decide

end Toq.C01
