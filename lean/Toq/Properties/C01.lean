import Toq.Model.Perms
import Toq.Proofs.Idx
namespace Toq.C01
theorem placeholder_enc_dec (d : Nat → Nat) (n i : Nat) (h : i < prodN d n) : enc d (dec d n i) n = i :=
  enc_dec d n i h
end Toq.C01
