import Toq.Model.Perms
import Toq.Proofs.Perms
import Mathlib.Algebra.Group.Defs
import Mathlib.Algebra.Ring.Defs
/-!
# C01 — subsystem permutation is exactly tensor-factor relabelling

Property theorems only (helper lemmas live in `Toq/Proofs/Perms.lean`).  The mirror model
`Toq.Perms.permuteVec` follows `toqito/perms/permute_systems.py` line by line (F-order reshape to the
reversed dims, `np.transpose` by `n-1-perm[::-1]` or its `argsort`, F-order flatten); the theorems
say that for every number of subsystems, every dimension vector and every permutation this is the
relabelling of tensor factors.
-/
namespace Toq.C01
open Toq.Perms

/-- `perm` is a permutation of `0..n-1` (what `sorted(perm) == list(range(n))` checks) -/
structure IsPermN (n : Nat) (p : Nat → Nat) : Prop where
  lt : ∀ k, k < n → p k < n
  inj : ∀ a b, a < n → b < n → p a = p b → a = b

/-- the executable guard used by the driver decides `IsPermN` -/
theorem isPerm_iff (n : Nat) (p : Nat → Nat) : isPerm n p = true ↔ IsPermN n p := by
  unfold isPerm
  rw [Bool.and_eq_true, allBelow_iff, allBelow_iff]
  simp only [anyBelow_iff, beq_iff_eq, decide_eq_true_eq]
  constructor
  · rintro ⟨hs, hl⟩
    exact ⟨hl, inj_of_surj n p hl hs⟩
  · rintro ⟨hl, hi⟩
    exact ⟨surj_of_inj n p hl hi, hl⟩

/-- the model output at `j` is the input at the index whose `k`-th digit (radices `dims`) is the
    `perm⁻¹ k`-th digit of `j` (radices `dims ∘ perm`) -/
theorem permuteVec_eq_spec {α : Type} (v : Nat → α) (n : Nat) (perm dims : Nat → Nat)
    (hp : IsPermN n perm) (hd : ∀ k, k < n → 0 < dims k) (j : Nat)
    (hj : j < prodN (fun m => dims (perm m)) n) :
    permuteVec v n perm dims false j = v (specIndex n perm dims j) := by
  exact permuteVec_false_eq v n perm dims hp.lt hp.inj j

/-- the inverse option is the forward call with the inverse permutation -/
theorem permuteVec_inv_eq_spec {α : Type} (v : Nat → α) (n : Nat) (perm dims : Nat → Nat)
    (hp : IsPermN n perm) (hd : ∀ k, k < n → 0 < dims k) (j : Nat)
    (hj : j < prodN (fun m => dims (invPerm n perm m)) n) :
    permuteVec v n perm dims true j = v (specIndex n (invPerm n perm) dims j) := by
  exact permuteVec_true_eq v n perm dims hp.lt hp.inj j

/-- **Relabelling**: the factor at position `perm i` moves to position `i`.  For every digit vector `y`
    (valid for the permuted radices), output entry `y` is input entry `y ∘ perm⁻¹`. -/
theorem permuteVec_relabel {α : Type} (v : Nat → α) (n : Nat) (perm dims y : Nat → Nat)
    (hp : IsPermN n perm) (hd : ∀ k, k < n → 0 < dims k) (hy : ∀ k, k < n → y k < dims (perm k)) :
    permuteVec v n perm dims false (enc (fun m => dims (perm m)) y n)
      = v (enc dims (fun k => y (invPerm n perm k)) n) := by
  rw [permuteVec_false_eq v n perm dims hp.lt hp.inj]
  congr 1
  unfold specIndex
  apply enc_congr _ _ _ _ _ (fun _ _ => rfl)
  intro k hk
  exact dec_enc (fun m => dims (perm m)) y n hy _ (invPerm_lt n perm hp.lt hp.inj k hk)

/-- entry `j` of `a 0 ⊗ a 1 ⊗ … ⊗ a (n-1)` where `a k` has length `dims k` -/
def kronVec {α : Type} [Mul α] [One α] (n : Nat) (a : Nat → Nat → α) (dims : Nat → Nat) (j : Nat) : α :=
  prodFn n (fun k => a k (dec dims n j k))

/-- **Product vectors**: `A_0 ⊗ … ⊗ A_{n-1}` becomes `A_{p 0} ⊗ … ⊗ A_{p (n-1)}`
    (over any commutative monoid of scalars). -/
theorem permute_kronVec {α : Type} [CommMonoid α] (n : Nat) (a : Nat → Nat → α) (perm dims : Nat → Nat)
    (hp : IsPermN n perm) (hd : ∀ k, k < n → 0 < dims k) (j : Nat)
    (hj : j < prodN (fun m => dims (perm m)) n) :
    permuteVec (kronVec n a dims) n perm dims false j
      = kronVec n (fun k => a (perm k)) (fun m => dims (perm m)) j := by
  rw [permuteVec_false_eq _ n perm dims hp.lt hp.inj]
  unfold kronVec
  rw [← prodFn_reindex n perm (fun k => a k (dec dims n (specIndex n perm dims j) k)) hp.lt hp.inj]
  apply prodFn_congr
  intro k hk
  show a (perm k) (dec dims n (specIndex n perm dims j) (perm k)) = _
  rw [dec_specIndex n perm dims hp.lt hp.inj hd j (perm k) (hp.lt k hk),
    invPerm_perm n perm hp.inj k hk]

/-- **Inverse option** undoes the forward call when given the permuted dimensions. -/
theorem permute_inv_undoes {α : Type} (v : Nat → α) (n : Nat) (perm dims : Nat → Nat)
    (hp : IsPermN n perm) (hd : ∀ k, k < n → 0 < dims k) (j : Nat) (hj : j < prodN dims n) :
    permuteVec (permuteVec v n perm dims false) n perm (fun m => dims (perm m)) true j = v j := by
  have hq_lt := invPerm_lt n perm hp.lt hp.inj
  have hq_inj := invPerm_inj n perm hp.lt hp.inj
  have hd' : ∀ k, k < n → 0 < (fun m => dims (perm m)) k := fun k hk => hd _ (hp.lt k hk)
  rw [permuteVec_true_eq _ n perm _ hp.lt hp.inj, permuteVec_false_eq v n perm dims hp.lt hp.inj]
  congr 1
  have e : specIndex n perm dims (specIndex n (invPerm n perm) (fun m => dims (perm m)) j)
      = enc dims (dec dims n j) n := by
    unfold specIndex
    apply enc_congr _ _ _ _ _ (fun _ _ => rfl)
    intro k hk
    have h1 := dec_specIndex n (invPerm n perm) (fun m => dims (perm m)) hq_lt hq_inj hd' j
      (invPerm n perm k) (hq_lt k hk)
    unfold specIndex at h1
    rw [h1, invPerm_perm n (invPerm n perm) hq_inj k hk]
    apply dec_congr
    intro m hm
    show dims (perm (invPerm n perm m)) = dims m
    rw [perm_invPerm n perm hp.lt hp.inj m hm]
  rw [e, enc_dec dims n j hj]

/-- the index map is a bijection of `0..N-1` (so the permutation operator is a permutation matrix):
    it maps into range and has the inverse-flag map as two-sided inverse -/
theorem permIndex_lt (n : Nat) (perm dims : Nat → Nat) (hp : IsPermN n perm)
    (hd : ∀ k, k < n → 0 < dims k) (j : Nat) (hj : j < prodN (fun m => dims (perm m)) n) :
    permIndex n perm dims false j < prodN dims n := by
  unfold permIndex
  rw [permuteVec_false_eq _ n perm dims hp.lt hp.inj]
  exact specIndex_lt n perm dims hp.lt hp.inj hd j

/-- **Matrices**: rows and columns are relabelled independently (separate row/column dims, row-only
    and inverse flags). -/
theorem permuteMat_eq_spec {α : Type} (X : Nat → Nat → α) (n : Nat) (perm rd cd : Nat → Nat)
    (hp : IsPermN n perm) (hr : ∀ k, k < n → 0 < rd k) (hc : ∀ k, k < n → 0 < cd k) (i j : Nat)
    (hi : i < prodN (fun m => rd (perm m)) n) (hj : j < prodN (fun m => cd (perm m)) n) (rowOnly : Bool) :
    permuteMat X n perm rd cd rowOnly false i j
      = X (specIndex n perm rd i) (if rowOnly then j else specIndex n perm cd j) := by
  unfold permuteMat permIndex
  rw [permuteVec_false_eq _ n perm rd hp.lt hp.inj, permuteVec_false_eq _ n perm cd hp.lt hp.inj]

/-- **Row-only** = left multiplication by the permutation operator. -/
theorem rowOnly_eq_permOp_mul {α : Type} [Semiring α] (X : Nat → Nat → α) (n : Nat)
    (perm rd cd : Nat → Nat) (inv : Bool) (hp : IsPermN n perm) (hr : ∀ k, k < n → 0 < rd k) (i j : Nat)
    (hi : i < prodN rd n) :
    permuteMat X n perm rd cd true inv i j
      = sumN (prodN rd n) (fun k => permOp (α := α) n perm rd inv i k * X k j) := by
  have hc : permIndex n perm rd inv i < prodN rd n := by
    unfold permIndex
    cases inv
    · rw [permuteVec_false_eq _ n perm rd hp.lt hp.inj]
      exact specIndex_lt n perm rd hp.lt hp.inj hr i
    · rw [permuteVec_true_eq _ n perm rd hp.lt hp.inj]
      exact specIndex_lt n (invPerm n perm) rd (invPerm_lt n perm hp.lt hp.inj)
        (invPerm_inj n perm hp.lt hp.inj) hr i
  unfold permOp permuteMat
  simp only [if_true]
  rw [sumN_ite_mul_of_lt (fun k => X k j) _ _ hc]

/-- **Swap** is the transposition special case: `swapPerm` is a permutation, its own inverse. -/
theorem swapPerm_isPerm (n s1 s2 : Nat) (h1 : s1 < n) (h2 : s2 < n) : IsPermN n (swapPerm s1 s2) := by
  constructor
  · intro k hk; unfold swapPerm; split
    · exact h2
    · split
      · exact h1
      · exact hk
  · intro a b _ _ hab; unfold swapPerm at hab
    split at hab <;> split at hab <;> (try split at hab) <;> (try split at hab) <;> omega

theorem swapPerm_involutive (s1 s2 k : Nat) : swapPerm s1 s2 (swapPerm s1 s2 k) = k := by
  unfold swapPerm
  split <;> split <;> (try split) <;> omega

/-- non-vacuity: the hypotheses are met by `dims = [2,3,2]`, `perm = [1,2,0]`, and the model
    computes the relabelling there -/
example : isPerm 3 (fnOfList [1, 2, 0]) = true ∧
    listOfFn 12 (permIndex 3 (fnOfList [1, 2, 0]) (fnOfList [2, 3, 2]) false)
      = [0, 6, 1, 7, 2, 8, 3, 9, 4, 10, 5, 11] := by decide

end Toq.C01
