import Toq.Model.PartialOps
import Toq.Spec.PartialTranspose
import Toq.Proofs.PartialTranspose
/-!
# C03 — partial transpose exchanges exactly the digits in `S`; realignment sends `A ⊗ B` to `vec(A) vec(B)ᵀ`

Property theorems only (helper lemmas live in `Toq/Proofs/PartialTranspose.lean`, the specification in
`Toq/Spec/PartialTranspose.lean`).  The mirror models `Toq.PartialOps.partialTranspose` and
`Toq.PartialOps.realignment` follow `toqito/channels/partial_transpose.py` and
`toqito/channels/realignment.py` line by line (`permute_systems` with `perm = sys ++ rest`, F-order
reshape to four axes, `np.transpose(…, [0,3,2,1])`, F-order reshape back, inverse `permute_systems`
with the flipped and permuted dims).  The theorems hold for every scalar type, every number `n` of
subsystems, all (possibly different) row and column dimension vectors, and every duplicate-free list
`S` of subsystems.

Conventions: a matrix is a function `Nat → Nat → α`; `rd`, `cd` are the row / column dimensions of the
`n` subsystems; `pTRowDims rd cd S`, `pTColDims rd cd S` are the dimensions of the result (row and
column dimension exchanged on `S`); `enc d x n` is the index with digits `x` in the mixed radix `d`.
-/
namespace Toq.C03
open Toq.Perms Toq.PartialOps Toq.Spec Toq.C01

/-! ## 1. the model is the digit exchange -/

/-- **The Python algorithm computes the digit exchange.**  For every scalar type, every `n`, all
    positive row dims `rd` and column dims `cd` (the operator may be rectangular) and every
    duplicate-free list `S` of subsystems `< n`, entry `(i, j)` of the model output is entry
    `(i', j')` of the input where the row digits of `i'` are the column digits of `j` on `S` and the
    row digits of `i` elsewhere, and symmetrically for `j'`.  It holds for all `i j`, in particular
    for all `i < prodN (pTRowDims rd cd S) n`, `j < prodN (pTColDims rd cd S) n`, the entries of the
    result. -/
theorem pT_eq_spec {α : Type} (X : Nat → Nat → α) (n : Nat) (rd cd : Nat → Nat) (S : List Nat)
    (hr : ∀ k, k < n → 0 < rd k) (hc : ∀ k, k < n → 0 < cd k)
    (hnd : S.Nodup) (hS : ∀ s, s ∈ S → s < n) (i j : Nat) :
    partialTranspose X n rd cd S i j = pTSpec X n rd cd S i j :=
  partialTranspose_eq_spec X n rd cd S hr hc hnd hS i j

/-- **Digit form.**  If `a` are valid row digits and `b` valid column digits of the result, then
    result entry `(a, b)` is input entry `(a', b')` with `a' k = b k`, `b' k = a k` for `k ∈ S` and
    `a' k = a k`, `b' k = b k` for `k ∉ S`: the row and column index of exactly the subsystems in `S`
    are exchanged and every other index stays in place. -/
theorem pT_digits {α : Type} (X : Nat → Nat → α) (n : Nat) (rd cd : Nat → Nat) (S : List Nat)
    (hr : ∀ k, k < n → 0 < rd k) (hc : ∀ k, k < n → 0 < cd k)
    (hnd : S.Nodup) (hS : ∀ s, s ∈ S → s < n) (a b : Nat → Nat)
    (ha : ∀ k, k < n → a k < pTRowDims rd cd S k) (hb : ∀ k, k < n → b k < pTColDims rd cd S k) :
    partialTranspose X n rd cd S (enc (pTRowDims rd cd S) a n) (enc (pTColDims rd cd S) b n)
      = X (enc rd (fun k => if k ∈ S then b k else a k) n)
          (enc cd (fun k => if k ∈ S then a k else b k) n) := by
  rw [pT_eq_spec X n rd cd S hr hc hnd hS]
  exact pTSpec_enc X n rd cd S a b ha hb

/-- The entry read by the model lies inside the input matrix (`rows × cols = prodN rd n × prodN cd n`),
    so the result only depends on the entries of the operator. -/
theorem pT_source_in_range (n : Nat) (rd cd : Nat → Nat) (S : List Nat)
    (hr : ∀ k, k < n → 0 < rd k) (hc : ∀ k, k < n → 0 < cd k) (i j : Nat) :
    enc rd (fun k => if k ∈ S then dec (pTColDims rd cd S) n j k
                     else dec (pTRowDims rd cd S) n i k) n < prodN rd n ∧
    enc cd (fun k => if k ∈ S then dec (pTRowDims rd cd S) n i k
                     else dec (pTColDims rd cd S) n j k) n < prodN cd n :=
  pTSpec_src_lt n rd cd S hr hc i j

/-! ## 2. involution, full transpose, complement -/

/-- **Involution.**  Applying the partial transpose over `S` to the result (whose dims are the
    flipped ones) gives the operator back, entry by entry. -/
theorem pT_involutive {α : Type} (X : Nat → Nat → α) (n : Nat) (rd cd : Nat → Nat) (S : List Nat)
    (hr : ∀ k, k < n → 0 < rd k) (hc : ∀ k, k < n → 0 < cd k)
    (hnd : S.Nodup) (hS : ∀ s, s ∈ S → s < n) (i j : Nat) (hi : i < prodN rd n) (hj : j < prodN cd n) :
    partialTranspose (partialTranspose X n rd cd S) n (pTRowDims rd cd S) (pTColDims rd cd S) S i j
      = X i j := by
  have e : partialTranspose X n rd cd S = pTSpec X n rd cd S :=
    funext fun i => funext fun j => pT_eq_spec X n rd cd S hr hc hnd hS i j
  rw [e, pT_eq_spec _ n _ _ S (pTRowDims_pos n rd cd S hr hc) (pTColDims_pos n rd cd S hr hc) hnd hS]
  exact pTSpec_involutive X n rd cd S hr hc i j hi hj

/-- the dims of the twice-transposed operator are the original ones -/
theorem pT_involutive_dims (rd cd : Nat → Nat) (S : List Nat) :
    pTRowDims (pTRowDims rd cd S) (pTColDims rd cd S) S = rd ∧
    pTColDims (pTRowDims rd cd S) (pTColDims rd cd S) S = cd :=
  ⟨pTRowDims_flip rd cd S, pTColDims_flip rd cd S⟩

/-- **All subsystems = ordinary transpose.**  If `S` lists every subsystem, the result is the
    `prodN cd n × prodN rd n` matrix `Xᵀ`. -/
theorem pT_all_eq_transpose {α : Type} (X : Nat → Nat → α) (n : Nat) (rd cd : Nat → Nat) (S : List Nat)
    (hr : ∀ k, k < n → 0 < rd k) (hc : ∀ k, k < n → 0 < cd k)
    (hnd : S.Nodup) (hS : ∀ s, s ∈ S → s < n) (hall : ∀ k, k < n → k ∈ S)
    (i j : Nat) (hi : i < prodN cd n) (hj : j < prodN rd n) :
    partialTranspose X n rd cd S i j = transposeM X i j := by
  rw [pT_eq_spec X n rd cd S hr hc hnd hS]
  exact pTSpec_all X n rd cd S hall i j hi hj

/-- when `S` lists every subsystem the result has `prodN cd n` rows and `prodN rd n` columns -/
theorem pT_all_dims (n : Nat) (rd cd : Nat → Nat) (S : List Nat) (hall : ∀ k, k < n → k ∈ S) :
    prodN (pTRowDims rd cd S) n = prodN cd n ∧ prodN (pTColDims rd cd S) n = prodN rd n :=
  ⟨prodN_congr _ _ n (fun k hk => by simp [pTRowDims, hall k hk]),
   prodN_congr _ _ n (fun k hk => by simp [pTColDims, hall k hk])⟩

/-- **Complement.**  If `T` lists exactly the subsystems not in `S`, the partial transpose over `T`
    is the full transpose of the partial transpose over `S` (for all entries). -/
theorem pT_compl {α : Type} (X : Nat → Nat → α) (n : Nat) (rd cd : Nat → Nat) (S T : List Nat)
    (hr : ∀ k, k < n → 0 < rd k) (hc : ∀ k, k < n → 0 < cd k)
    (hnd : S.Nodup) (hS : ∀ s, s ∈ S → s < n) (hndT : T.Nodup) (hT : ∀ s, s ∈ T → s < n)
    (hcompl : ∀ k, k < n → (k ∈ T ↔ k ∉ S)) (i j : Nat) :
    partialTranspose X n rd cd T i j = transposeM (partialTranspose X n rd cd S) i j := by
  show _ = partialTranspose X n rd cd S j i
  rw [pT_eq_spec X n rd cd S hr hc hnd hS, pT_eq_spec X n rd cd T hr hc hndT hT]
  exact pTSpec_compl X n rd cd S T hcompl i j

/-- … with the right dims: the row dims over the complement are the column dims over `S` and
    vice versa -/
theorem pT_compl_dims (n : Nat) (rd cd : Nat → Nat) (S T : List Nat)
    (hcompl : ∀ k, k < n → (k ∈ T ↔ k ∉ S)) (k : Nat) (hk : k < n) :
    pTRowDims rd cd T k = pTColDims rd cd S k ∧ pTColDims rd cd T k = pTRowDims rd cd S k := by
  unfold pTRowDims pTColDims
  by_cases h : k ∈ S
  · rw [if_neg (fun h' => (hcompl k hk).1 h' h), if_neg (fun h' => (hcompl k hk).1 h' h), if_pos h,
      if_pos h]; exact ⟨rfl, rfl⟩
  · rw [if_pos ((hcompl k hk).2 h), if_pos ((hcompl k hk).2 h), if_neg h, if_neg h]; exact ⟨rfl, rfl⟩

/-- the complement computed by the Python code (`set(range(n)) - set(sys)`) qualifies as `T` -/
theorem pT_compl_setDiff {α : Type} (X : Nat → Nat → α) (n : Nat) (rd cd : Nat → Nat) (S : List Nat)
    (hr : ∀ k, k < n → 0 < rd k) (hc : ∀ k, k < n → 0 < cd k)
    (hnd : S.Nodup) (hS : ∀ s, s ∈ S → s < n) (i j : Nat) :
    partialTranspose X n rd cd (setDiff n S) i j = transposeM (partialTranspose X n rd cd S) i j :=
  pT_compl X n rd cd S (setDiff n S) hr hc hnd hS
    (by unfold setDiff; exact List.Nodup.filter _ List.nodup_range)
    (fun s hs => ((mem_setDiff n S s).1 hs).1)
    (fun k hk => ⟨fun h => ((mem_setDiff n S k).1 h).2, fun h => (mem_setDiff n S k).2 ⟨hk, h⟩⟩) i j

/-! ## 3. product operators -/

/-- **Product operators.**  The partial transpose over `S` of `A 0 ⊗ … ⊗ A (n-1)` (`A k` of size
    `rd k × cd k`) is `B 0 ⊗ … ⊗ B (n-1)` with `B k = (A k)ᵀ` for `k ∈ S` and `B k = A k` otherwise. -/
theorem pT_kron {α : Type} [Mul α] [One α] (n : Nat) (A : Nat → Nat → Nat → α) (rd cd : Nat → Nat)
    (S : List Nat) (hr : ∀ k, k < n → 0 < rd k) (hc : ∀ k, k < n → 0 < cd k)
    (hnd : S.Nodup) (hS : ∀ s, s ∈ S → s < n) (i j : Nat) :
    partialTranspose (kronMat n A rd cd) n rd cd S i j
      = kronMat n (fun k => if k ∈ S then transposeM (A k) else A k)
          (pTRowDims rd cd S) (pTColDims rd cd S) i j := by
  rw [pT_eq_spec _ n rd cd S hr hc hnd hS]
  exact pTSpec_kron n A rd cd S hr hc i j

/-! ## 4. realignment -/

/-- **Realignment, index form.**  For a bipartite operator with row dims `[r0, r1]` and column dims
    `[c0, c1]` the model output is the `(r0*c0) × (r1*c1)` matrix with
    `out[a*c0 + a', b*c1 + b'] = X[a*r1 + b, a'*c1 + b']`: row `i` encodes the entry position `(a, a')`
    of the first factor in row-major order, column `j` the entry position `(b, b')` of the second. -/
theorem realign_eq_spec {α : Type} (X : Nat → Nat → α) (r0 r1 c0 c1 : Nat)
    (hr0 : 0 < r0) (hr1 : 0 < r1) (hc0 : 0 < c0) (hc1 : 0 < c1) (i j : Nat)
    (hi : i < r0 * c0) (hj : j < r1 * c1) :
    realignment X r0 r1 c0 c1 i j = X ((i / c0) * r1 + j / c1) ((i % c0) * c1 + j % c1) :=
  realignment_eq_spec X r0 r1 c0 c1 hr0 hr1 hc0 hc1 i j hi hj

/-- **Realignment of a product is rank one.**  If `X = A ⊗ B` with `A` of size `r0 × c0` and `B` of
    size `r1 × c1`, the realignment is `vec(A) vec(B)ᵀ` with row-major vectorisation:
    entry `(i, j)` is `A[i / c0, i % c0] * B[j / c1, j % c1]`. -/
theorem realign_kron {α : Type} [Mul α] (X A B : Nat → Nat → α) (r0 r1 c0 c1 : Nat)
    (hr0 : 0 < r0) (hr1 : 0 < r1) (hc0 : 0 < c0) (hc1 : 0 < c1)
    (hX : ∀ a b a' b', a < r0 → b < r1 → a' < c0 → b' < c1 →
      X (a * r1 + b) (a' * c1 + b') = A a a' * B b b')
    (i j : Nat) (hi : i < r0 * c0) (hj : j < r1 * c1) :
    realignment X r0 r1 c0 c1 i j = A (i / c0) (i % c0) * B (j / c1) (j % c1) := by
  rw [realign_eq_spec X r0 r1 c0 c1 hr0 hr1 hc0 hc1 i j hi hj]
  exact hX _ _ _ _ ((Nat.div_lt_iff_lt_mul hc0).2 hi) ((Nat.div_lt_iff_lt_mul hc1).2 hj)
    (Nat.mod_lt _ hc0) (Nat.mod_lt _ hc1)

/-- **The realignment index map is a bijection** between the positions of the `(r0*c0) × (r1*c1)`
    output and the positions of the `(r0*r1) × (c0*c1)` input: it maps into range and
    `(I, J) ↦ ((I / r1) * c0 + J / c1, (I % r1) * c1 + J % c1)` is a two-sided inverse. -/
theorem realign_index_bij (r0 r1 c0 c1 : Nat) (hr1 : 0 < r1) (hc0 : 0 < c0) (hc1 : 0 < c1) :
    (∀ i j, i < r0 * c0 → j < r1 * c1 →
      realignRow r1 c0 c1 i j < r0 * r1 ∧ realignCol c0 c1 i j < c0 * c1 ∧
      realignRowInv r1 c0 c1 (realignRow r1 c0 c1 i j) (realignCol c0 c1 i j) = i ∧
      realignColInv r1 c1 (realignRow r1 c0 c1 i j) (realignCol c0 c1 i j) = j) ∧
    (∀ I J, I < r0 * r1 → J < c0 * c1 →
      realignRowInv r1 c0 c1 I J < r0 * c0 ∧ realignColInv r1 c1 I J < r1 * c1 ∧
      realignRow r1 c0 c1 (realignRowInv r1 c0 c1 I J) (realignColInv r1 c1 I J) = I ∧
      realignCol c0 c1 (realignRowInv r1 c0 c1 I J) (realignColInv r1 c1 I J) = J) :=
  ⟨fun i j hi hj => realign_idx r0 r1 c0 c1 i j hc0 hc1 hi hj,
   fun I J hI hJ => realign_idx r0 c0 r1 c1 I J hr1 hc1 hI hJ⟩

/-- **Realignment preserves every entrywise sum**, in particular the squared Frobenius norm
    (`f x = |x|²`): summing `f` over all entries of the realigned matrix gives the same value as
    summing `f` over all entries of the operator (values in any commutative monoid; sums are the
    left folds `sumN` used by the models). -/
theorem realign_frobenius {α β : Type} [AddCommMonoid β] (f : α → β) (X : Nat → Nat → α)
    (r0 r1 c0 c1 : Nat) (hr0 : 0 < r0) (hr1 : 0 < r1) (hc0 : 0 < c0) (hc1 : 0 < c1) :
    sumN (r0 * c0) (fun i => sumN (r1 * c1) (fun j => f (realignment X r0 r1 c0 c1 i j)))
      = sumN (r0 * r1) (fun I => sumN (c0 * c1) (fun J => f (X I J))) := by
  rw [← sumN_realign (fun I J => f (X I J)) r0 r1 c0 c1 hr1 hc0 hc1]
  apply sumN_congr
  intro i hi
  apply sumN_congr
  intro j hj
  rw [realign_eq_spec X r0 r1 c0 c1 hr0 hr1 hc0 hc1 i j hi hj]
  rfl

/-- the squared Frobenius norm `Σ x²` as the special case `f x = x * x` -/
theorem realign_frobenius_sq {α : Type} [Mul α] [AddCommMonoid α] (X : Nat → Nat → α)
    (r0 r1 c0 c1 : Nat) (hr0 : 0 < r0) (hr1 : 0 < r1) (hc0 : 0 < c0) (hc1 : 0 < c1) :
    sumN (r0 * c0) (fun i => sumN (r1 * c1) (fun j =>
        realignment X r0 r1 c0 c1 i j * realignment X r0 r1 c0 c1 i j))
      = sumN (r0 * r1) (fun I => sumN (c0 * c1) (fun J => X I J * X I J)) :=
  realign_frobenius (fun x => x * x) X r0 r1 c0 c1 hr0 hr1 hc0 hc1

/-! ## non-vacuity -/

/-- the hypotheses of `pT_eq_spec` are met by `rd = [2,3]`, `cd = [3,4]`, `S = [1]` (a rectangular
    `6 × 12` operator; the result is `8 × 9`), and there the model (evaluated) equals the spec on all
    `72` entries of an operator with pairwise distinct entries -/
example :
    ((∀ k, k < 2 → 0 < (fnOfList [2, 3]) k) ∧ (∀ k, k < 2 → 0 < (fnOfList [3, 4]) k) ∧
      [1].Nodup ∧ (∀ s, s ∈ [1] → s < 2)) ∧
    prodN (pTRowDims (fnOfList [2, 3]) (fnOfList [3, 4]) [1]) 2 = 8 ∧
    prodN (pTColDims (fnOfList [2, 3]) (fnOfList [3, 4]) [1]) 2 = 9 ∧
    (listOfFn 8 fun i => listOfFn 9 fun j =>
        partialTranspose (fun i j => 100 * i + j) 2 (fnOfList [2, 3]) (fnOfList [3, 4]) [1] i j)
      = (listOfFn 8 fun i => listOfFn 9 fun j =>
        pTSpec (fun i j => 100 * i + j) 2 (fnOfList [2, 3]) (fnOfList [3, 4]) [1] i j) := by
  decide

/-- … and the result is not the input: entry `(1, 3)` of the result is entry `(0, 5)` of the operator
    (row digits `(0,1)`, column digits `(1,0)` become row digits `(0,0)`, column digits `(1,1)`) -/
example :
    partialTranspose (fun i j => (i, j)) 2 (fnOfList [2, 3]) (fnOfList [3, 4]) [1] 1 3 = (0, 5) := by
  decide

/-- realignment with `r = [2,3]`, `c = [3,4]`: the `6 × 12` operator becomes a `6 × 12` matrix
    (`r0*c0 × r1*c1`) and the model equals the index formula on every entry -/
example :
    (listOfFn 6 fun i => listOfFn 12 fun j => realignment (fun i j => 100 * i + j) 2 3 3 4 i j)
      = (listOfFn 6 fun i => listOfFn 12 fun j =>
          realignSpec (fun i j => 100 * i + j) 3 3 4 i j) := by
  decide

/-- the product hypothesis of `realign_kron` is satisfiable: the entry formula of `A ⊗ B` -/
example (A B : Nat → Nat → Nat) (r0 r1 c0 c1 : Nat) (_hr1 : 0 < r1) (_hc1 : 0 < c1) :
    ∀ a b a' b', a < r0 → b < r1 → a' < c0 → b' < c1 →
      (fun I J => A (I / r1) (J / c1) * B (I % r1) (J % c1)) (a * r1 + b) (a' * c1 + b')
        = A a a' * B b b' := by
  intro a b a' b' _ hb _ hb'
  show A ((a * r1 + b) / r1) ((a' * c1 + b') / c1) * B ((a * r1 + b) % r1) ((a' * c1 + b') % c1) = _
  rw [mul_add_div _ _ _ hb, mul_add_div _ _ _ hb', mul_add_mod _ _ _ hb, mul_add_mod _ _ _ hb']

end Toq.C03
