import Toq.Model.PartialOps
import Toq.Spec.PartialTranspose
import Toq.Proofs.PartialTranspose
import Toq.Model.PartialOpsArgs
import Toq.Proofs.PartialOpsArgs
import Toq.Proofs.PartialTransposeExtra
import Toq.Properties.C02
/-!
# C03 — partial transpose exchanges exactly the digits in `S`; realignment sends `A ⊗ B` to `vec(A) vec(B)ᵀ`

Property theorems only (helper lemmas live in `Toq/Proofs/PartialTranspose.lean`, the specification in
`Toq/Spec/PartialTranspose.lean`).  The mirror models `Toq.PartialOps.partialTranspose` and
`Toq.PartialOps.realignment` follow `toqito/channels/partial_transpose.py` and
`toqito/channels/realignment.py` line by line (`permute_systems` with `perm = sys ++ rest`, F-order
reshape to four axes, `np.transpose(…, [0,3,2,1])`, F-order reshape back, inverse `permute_systems`
with the flipped and permuted dims).  The theorems hold for every scalar type, every number `n` of
subsystems, all (possibly different) row and column dimension vectors, and every duplicate-free list
`S` of subsystems.  Sections 5–7 add linearity, trace / Hermiticity preservation, commutation with the
partial trace over other subsystems, the involution and rank-one statements for the realignment, and
the meaning of every accepted argument form and of the cvxpy-`Variable` branch
(`Toq/Model/PartialOpsArgs.lean`: `partialTransposeArgs`, `realignmentArgs`, `partialTransposeCvx`).

Conventions: a matrix is a function `Nat → Nat → α`; `rd`, `cd` are the row / column dimensions of the
`n` subsystems; `pTRowDims rd cd S`, `pTColDims rd cd S` are the dimensions of the result (row and
column dimension exchanged on `S`); `enc d x n` is the index with digits `x` in the mixed radix `d`.
-/
namespace Toq.C03
open Toq.Perms Toq.PartialOps Toq.Spec Toq.C01

/-! ## 1. the model is the digit exchange -/

/-- **The Python algorithm computes the digit exchange.**  For every scalar type, every `n`, all
    positive row dims `rd` and column dims `cd` (the operator may be rectangular) and every
    duplicate-free list `S` of subsystems `< n`, entry `(i, j)` of the model output is entry
    `(i', j')` of the input where the row digits of `i'` are the column digits of `j` on `S` and the
    row digits of `i` elsewhere, and symmetrically for `j'`.  It holds for all `i j`, in particular
    for all `i < prodN (pTRowDims rd cd S) n`, `j < prodN (pTColDims rd cd S) n`, the entries of the
    result. -/
theorem pT_eq_spec {α : Type} (X : Nat → Nat → α) (n : Nat) (rd cd : Nat → Nat) (S : List Nat)
    (hr : ∀ k, k < n → 0 < rd k) (hc : ∀ k, k < n → 0 < cd k)
    (hnd : S.Nodup) (hS : ∀ s, s ∈ S → s < n) (i j : Nat) :
    partialTranspose X n rd cd S i j = pTSpec X n rd cd S i j :=
  partialTranspose_eq_spec X n rd cd S hr hc hnd hS i j

/-- **Digit form.**  If `a` are valid row digits and `b` valid column digits of the result, then
    result entry `(a, b)` is input entry `(a', b')` with `a' k = b k`, `b' k = a k` for `k ∈ S` and
    `a' k = a k`, `b' k = b k` for `k ∉ S`: the row and column index of exactly the subsystems in `S`
    are exchanged and every other index stays in place. -/
theorem pT_digits {α : Type} (X : Nat → Nat → α) (n : Nat) (rd cd : Nat → Nat) (S : List Nat)
    (hr : ∀ k, k < n → 0 < rd k) (hc : ∀ k, k < n → 0 < cd k)
    (hnd : S.Nodup) (hS : ∀ s, s ∈ S → s < n) (a b : Nat → Nat)
    (ha : ∀ k, k < n → a k < pTRowDims rd cd S k) (hb : ∀ k, k < n → b k < pTColDims rd cd S k) :
    partialTranspose X n rd cd S (enc (pTRowDims rd cd S) a n) (enc (pTColDims rd cd S) b n)
      = X (enc rd (fun k => if k ∈ S then b k else a k) n)
          (enc cd (fun k => if k ∈ S then a k else b k) n) := by
  rw [pT_eq_spec X n rd cd S hr hc hnd hS]
  exact pTSpec_enc X n rd cd S a b ha hb

/-- The entry read by the model lies inside the input matrix (`rows × cols = prodN rd n × prodN cd n`),
    so the result only depends on the entries of the operator. -/
theorem pT_source_in_range (n : Nat) (rd cd : Nat → Nat) (S : List Nat)
    (hr : ∀ k, k < n → 0 < rd k) (hc : ∀ k, k < n → 0 < cd k) (i j : Nat) :
    enc rd (fun k => if k ∈ S then dec (pTColDims rd cd S) n j k
                     else dec (pTRowDims rd cd S) n i k) n < prodN rd n ∧
    enc cd (fun k => if k ∈ S then dec (pTRowDims rd cd S) n i k
                     else dec (pTColDims rd cd S) n j k) n < prodN cd n :=
  pTSpec_src_lt n rd cd S hr hc i j

/-! ## 2. involution, full transpose, complement -/

/-- **Involution.**  Applying the partial transpose over `S` to the result (whose dims are the
    flipped ones) gives the operator back, entry by entry. -/
theorem pT_involutive {α : Type} (X : Nat → Nat → α) (n : Nat) (rd cd : Nat → Nat) (S : List Nat)
    (hr : ∀ k, k < n → 0 < rd k) (hc : ∀ k, k < n → 0 < cd k)
    (hnd : S.Nodup) (hS : ∀ s, s ∈ S → s < n) (i j : Nat) (hi : i < prodN rd n) (hj : j < prodN cd n) :
    partialTranspose (partialTranspose X n rd cd S) n (pTRowDims rd cd S) (pTColDims rd cd S) S i j
      = X i j := by
  have e : partialTranspose X n rd cd S = pTSpec X n rd cd S :=
    funext fun i => funext fun j => pT_eq_spec X n rd cd S hr hc hnd hS i j
  rw [e, pT_eq_spec _ n _ _ S (pTRowDims_pos n rd cd S hr hc) (pTColDims_pos n rd cd S hr hc) hnd hS]
  exact pTSpec_involutive X n rd cd S hr hc i j hi hj

/-- the dims of the twice-transposed operator are the original ones -/
theorem pT_involutive_dims (rd cd : Nat → Nat) (S : List Nat) :
    pTRowDims (pTRowDims rd cd S) (pTColDims rd cd S) S = rd ∧
    pTColDims (pTRowDims rd cd S) (pTColDims rd cd S) S = cd :=
  ⟨pTRowDims_flip rd cd S, pTColDims_flip rd cd S⟩

/-- **All subsystems = ordinary transpose.**  If `S` lists every subsystem, the result is the
    `prodN cd n × prodN rd n` matrix `Xᵀ`. -/
theorem pT_all_eq_transpose {α : Type} (X : Nat → Nat → α) (n : Nat) (rd cd : Nat → Nat) (S : List Nat)
    (hr : ∀ k, k < n → 0 < rd k) (hc : ∀ k, k < n → 0 < cd k)
    (hnd : S.Nodup) (hS : ∀ s, s ∈ S → s < n) (hall : ∀ k, k < n → k ∈ S)
    (i j : Nat) (hi : i < prodN cd n) (hj : j < prodN rd n) :
    partialTranspose X n rd cd S i j = transposeM X i j := by
  rw [pT_eq_spec X n rd cd S hr hc hnd hS]
  exact pTSpec_all X n rd cd S hall i j hi hj

/-- when `S` lists every subsystem the result has `prodN cd n` rows and `prodN rd n` columns -/
theorem pT_all_dims (n : Nat) (rd cd : Nat → Nat) (S : List Nat) (hall : ∀ k, k < n → k ∈ S) :
    prodN (pTRowDims rd cd S) n = prodN cd n ∧ prodN (pTColDims rd cd S) n = prodN rd n :=
  ⟨prodN_congr _ _ n (fun k hk => by simp [pTRowDims, hall k hk]),
   prodN_congr _ _ n (fun k hk => by simp [pTColDims, hall k hk])⟩

/-- **Complement.**  If `T` lists exactly the subsystems not in `S`, the partial transpose over `T`
    is the full transpose of the partial transpose over `S` (for all entries). -/
theorem pT_compl {α : Type} (X : Nat → Nat → α) (n : Nat) (rd cd : Nat → Nat) (S T : List Nat)
    (hr : ∀ k, k < n → 0 < rd k) (hc : ∀ k, k < n → 0 < cd k)
    (hnd : S.Nodup) (hS : ∀ s, s ∈ S → s < n) (hndT : T.Nodup) (hT : ∀ s, s ∈ T → s < n)
    (hcompl : ∀ k, k < n → (k ∈ T ↔ k ∉ S)) (i j : Nat) :
    partialTranspose X n rd cd T i j = transposeM (partialTranspose X n rd cd S) i j := by
  show _ = partialTranspose X n rd cd S j i
  rw [pT_eq_spec X n rd cd S hr hc hnd hS, pT_eq_spec X n rd cd T hr hc hndT hT]
  exact pTSpec_compl X n rd cd S T hcompl i j

/-- … with the right dims: the row dims over the complement are the column dims over `S` and
    vice versa -/
theorem pT_compl_dims (n : Nat) (rd cd : Nat → Nat) (S T : List Nat)
    (hcompl : ∀ k, k < n → (k ∈ T ↔ k ∉ S)) (k : Nat) (hk : k < n) :
    pTRowDims rd cd T k = pTColDims rd cd S k ∧ pTColDims rd cd T k = pTRowDims rd cd S k := by
  unfold pTRowDims pTColDims
  by_cases h : k ∈ S
  · rw [if_neg (fun h' => (hcompl k hk).1 h' h), if_neg (fun h' => (hcompl k hk).1 h' h), if_pos h,
      if_pos h]; exact ⟨rfl, rfl⟩
  · rw [if_pos ((hcompl k hk).2 h), if_pos ((hcompl k hk).2 h), if_neg h, if_neg h]; exact ⟨rfl, rfl⟩

/-- the complement computed by the Python code (`set(range(n)) - set(sys)`) qualifies as `T` -/
theorem pT_compl_setDiff {α : Type} (X : Nat → Nat → α) (n : Nat) (rd cd : Nat → Nat) (S : List Nat)
    (hr : ∀ k, k < n → 0 < rd k) (hc : ∀ k, k < n → 0 < cd k)
    (hnd : S.Nodup) (hS : ∀ s, s ∈ S → s < n) (i j : Nat) :
    partialTranspose X n rd cd (setDiff n S) i j = transposeM (partialTranspose X n rd cd S) i j :=
  pT_compl X n rd cd S (setDiff n S) hr hc hnd hS
    (by unfold setDiff; exact List.Nodup.filter _ List.nodup_range)
    (fun s hs => ((mem_setDiff n S s).1 hs).1)
    (fun k hk => ⟨fun h => ((mem_setDiff n S k).1 h).2, fun h => (mem_setDiff n S k).2 ⟨hk, h⟩⟩) i j

/-! ## 3. product operators -/

/-- **Product operators.**  The partial transpose over `S` of `A 0 ⊗ … ⊗ A (n-1)` (`A k` of size
    `rd k × cd k`) is `B 0 ⊗ … ⊗ B (n-1)` with `B k = (A k)ᵀ` for `k ∈ S` and `B k = A k` otherwise. -/
theorem pT_kron {α : Type} [Mul α] [One α] (n : Nat) (A : Nat → Nat → Nat → α) (rd cd : Nat → Nat)
    (S : List Nat) (hr : ∀ k, k < n → 0 < rd k) (hc : ∀ k, k < n → 0 < cd k)
    (hnd : S.Nodup) (hS : ∀ s, s ∈ S → s < n) (i j : Nat) :
    partialTranspose (kronMat n A rd cd) n rd cd S i j
      = kronMat n (fun k => if k ∈ S then transposeM (A k) else A k)
          (pTRowDims rd cd S) (pTColDims rd cd S) i j := by
  rw [pT_eq_spec _ n rd cd S hr hc hnd hS]
  exact pTSpec_kron n A rd cd S hr hc i j

/-! ## 4. realignment -/

/-- **Realignment, index form.**  For a bipartite operator with row dims `[r0, r1]` and column dims
    `[c0, c1]` the model output is the `(r0*c0) × (r1*c1)` matrix with
    `out[a*c0 + a', b*c1 + b'] = X[a*r1 + b, a'*c1 + b']`: row `i` encodes the entry position `(a, a')`
    of the first factor in row-major order, column `j` the entry position `(b, b')` of the second. -/
theorem realign_eq_spec {α : Type} (X : Nat → Nat → α) (r0 r1 c0 c1 : Nat)
    (hr0 : 0 < r0) (hr1 : 0 < r1) (hc0 : 0 < c0) (hc1 : 0 < c1) (i j : Nat)
    (hi : i < r0 * c0) (hj : j < r1 * c1) :
    realignment X r0 r1 c0 c1 i j = X ((i / c0) * r1 + j / c1) ((i % c0) * c1 + j % c1) :=
  realignment_eq_spec X r0 r1 c0 c1 hr0 hr1 hc0 hc1 i j hi hj

/-- **Realignment of a product is rank one.**  If `X = A ⊗ B` with `A` of size `r0 × c0` and `B` of
    size `r1 × c1`, the realignment is `vec(A) vec(B)ᵀ` with row-major vectorisation:
    entry `(i, j)` is `A[i / c0, i % c0] * B[j / c1, j % c1]`. -/
theorem realign_kron {α : Type} [Mul α] (X A B : Nat → Nat → α) (r0 r1 c0 c1 : Nat)
    (hr0 : 0 < r0) (hr1 : 0 < r1) (hc0 : 0 < c0) (hc1 : 0 < c1)
    (hX : ∀ a b a' b', a < r0 → b < r1 → a' < c0 → b' < c1 →
      X (a * r1 + b) (a' * c1 + b') = A a a' * B b b')
    (i j : Nat) (hi : i < r0 * c0) (hj : j < r1 * c1) :
    realignment X r0 r1 c0 c1 i j = A (i / c0) (i % c0) * B (j / c1) (j % c1) := by
  rw [realign_eq_spec X r0 r1 c0 c1 hr0 hr1 hc0 hc1 i j hi hj]
  exact hX _ _ _ _ ((Nat.div_lt_iff_lt_mul hc0).2 hi) ((Nat.div_lt_iff_lt_mul hc1).2 hj)
    (Nat.mod_lt _ hc0) (Nat.mod_lt _ hc1)

/-- **The realignment index map is a bijection** between the positions of the `(r0*c0) × (r1*c1)`
    output and the positions of the `(r0*r1) × (c0*c1)` input: it maps into range and
    `(I, J) ↦ ((I / r1) * c0 + J / c1, (I % r1) * c1 + J % c1)` is a two-sided inverse. -/
theorem realign_index_bij (r0 r1 c0 c1 : Nat) (hr1 : 0 < r1) (hc0 : 0 < c0) (hc1 : 0 < c1) :
    (∀ i j, i < r0 * c0 → j < r1 * c1 →
      realignRow r1 c0 c1 i j < r0 * r1 ∧ realignCol c0 c1 i j < c0 * c1 ∧
      realignRowInv r1 c0 c1 (realignRow r1 c0 c1 i j) (realignCol c0 c1 i j) = i ∧
      realignColInv r1 c1 (realignRow r1 c0 c1 i j) (realignCol c0 c1 i j) = j) ∧
    (∀ I J, I < r0 * r1 → J < c0 * c1 →
      realignRowInv r1 c0 c1 I J < r0 * c0 ∧ realignColInv r1 c1 I J < r1 * c1 ∧
      realignRow r1 c0 c1 (realignRowInv r1 c0 c1 I J) (realignColInv r1 c1 I J) = I ∧
      realignCol c0 c1 (realignRowInv r1 c0 c1 I J) (realignColInv r1 c1 I J) = J) :=
  ⟨fun i j hi hj => realign_idx r0 r1 c0 c1 i j hc0 hc1 hi hj,
   fun I J hI hJ => realign_idx r0 c0 r1 c1 I J hr1 hc1 hI hJ⟩

/-- **Realignment preserves every entrywise sum**, in particular the squared Frobenius norm
    (`f x = |x|²`): summing `f` over all entries of the realigned matrix gives the same value as
    summing `f` over all entries of the operator (values in any commutative monoid; sums are the
    left folds `sumN` used by the models). -/
theorem realign_frobenius {α β : Type} [AddCommMonoid β] (f : α → β) (X : Nat → Nat → α)
    (r0 r1 c0 c1 : Nat) (hr0 : 0 < r0) (hr1 : 0 < r1) (hc0 : 0 < c0) (hc1 : 0 < c1) :
    sumN (r0 * c0) (fun i => sumN (r1 * c1) (fun j => f (realignment X r0 r1 c0 c1 i j)))
      = sumN (r0 * r1) (fun I => sumN (c0 * c1) (fun J => f (X I J))) := by
  rw [← sumN_realign (fun I J => f (X I J)) r0 r1 c0 c1 hr1 hc0 hc1]
  apply sumN_congr
  intro i hi
  apply sumN_congr
  intro j hj
  rw [realign_eq_spec X r0 r1 c0 c1 hr0 hr1 hc0 hc1 i j hi hj]
  rfl

/-- the squared Frobenius norm `Σ x²` as the special case `f x = x * x` -/
theorem realign_frobenius_sq {α : Type} [Mul α] [AddCommMonoid α] (X : Nat → Nat → α)
    (r0 r1 c0 c1 : Nat) (hr0 : 0 < r0) (hr1 : 0 < r1) (hc0 : 0 < c0) (hc1 : 0 < c1) :
    sumN (r0 * c0) (fun i => sumN (r1 * c1) (fun j =>
        realignment X r0 r1 c0 c1 i j * realignment X r0 r1 c0 c1 i j))
      = sumN (r0 * r1) (fun I => sumN (c0 * c1) (fun J => X I J * X I J)) :=
  realign_frobenius (fun x => x * x) X r0 r1 c0 c1 hr0 hr1 hc0 hc1

/-! ## 5. linearity, trace, Hermiticity -/

/-- **Entrywise maps commute with the partial transpose** (it only moves entries): for any map `f`
    of scalars, transposing `f ∘ X` is applying `f` to the transposed `X`.  No hypothesis at all. -/
theorem pT_map {α β : Type} (f : α → β) (X : Nat → Nat → α) (n : Nat) (rd cd : Nat → Nat)
    (S : List Nat) (i j : Nat) :
    partialTranspose (fun r c => f (X r c)) n rd cd S i j = f (partialTranspose X n rd cd S i j) :=
  partialTranspose_map f X n rd cd S i j

/-- **Linearity**: the partial transpose of `a·X + b·Y` is `a·Xᵀˢ + b·Yᵀˢ` (any scalar type with
    `+` and `*`, no laws needed, no hypothesis on the arguments). -/
theorem pT_linear {α : Type} [Add α] [Mul α] (a b : α) (X Y : Nat → Nat → α) (n : Nat)
    (rd cd : Nat → Nat) (S : List Nat) (i j : Nat) :
    partialTranspose (fun r c => a * X r c + b * Y r c) n rd cd S i j
      = a * partialTranspose X n rd cd S i j + b * partialTranspose Y n rd cd S i j := rfl

/-- **The diagonal, hence the trace, of a square operator is preserved**: for equal row and column
    dims `d`, entry `(i, i)` of the partial transpose is entry `(i, i)` of the operator. -/
theorem pT_diag {α : Type} (X : Nat → Nat → α) (n : Nat) (d : Nat → Nat) (S : List Nat)
    (hd : ∀ k, k < n → 0 < d k) (hnd : S.Nodup) (hS : ∀ s, s ∈ S → s < n) (i : Nat)
    (hi : i < prodN d n) :
    partialTranspose X n d d S i i = X i i := by
  rw [pT_eq_spec X n d d S hd hd hnd hS]
  exact pTSpec_diag X n d S i hi

/-- … the trace -/
theorem pT_trace {α : Type} [Add α] [Zero α] (X : Nat → Nat → α) (n : Nat) (d : Nat → Nat) (S : List Nat)
    (hd : ∀ k, k < n → 0 < d k) (hnd : S.Nodup) (hS : ∀ s, s ∈ S → s < n) :
    sumN (prodN d n) (fun i => partialTranspose X n d d S i i) = sumN (prodN d n) (fun i => X i i) :=
  sumN_congr _ _ _ (fun i hi => pT_diag X n d S hd hnd hS i hi)

/-- **Hermiticity is preserved** (square operator, any scalar type with an involution `star`, e.g.
    complex conjugation): if `X[J, I] = star X[I, J]` for all indices then the partial transpose `Y`
    satisfies `Y[j, i] = star Y[i, j]`. -/
theorem pT_hermitian {α : Type} [Star α] (X : Nat → Nat → α) (n : Nat) (d : Nat → Nat) (S : List Nat)
    (hd : ∀ k, k < n → 0 < d k) (hnd : S.Nodup) (hS : ∀ s, s ∈ S → s < n)
    (hX : ∀ I J, I < prodN d n → J < prodN d n → X J I = star (X I J)) (i j : Nat) :
    partialTranspose X n d d S j i = star (partialTranspose X n d d S i j) := by
  rw [pT_eq_spec X n d d S hd hd hnd hS, pT_eq_spec X n d d S hd hd hnd hS, pTSpec_swap]
  obtain ⟨h1, h2⟩ := pTSpec_src_lt n d d S hd hd i j
  unfold pTSpec
  exact hX _ _ h1 h2

/-- **The partial transpose commutes with the adjoint**: `(Xᴴ)ᵀˢ = (Xᵀˢ)ᴴ` for rectangular operators
    too (`Xᴴ[a, b] = star X[b, a]` has the row and column dims exchanged). -/
theorem pT_adjoint {α : Type} [Star α] (X : Nat → Nat → α) (n : Nat) (rd cd : Nat → Nat) (S : List Nat)
    (hr : ∀ k, k < n → 0 < rd k) (hc : ∀ k, k < n → 0 < cd k) (hnd : S.Nodup)
    (hS : ∀ s, s ∈ S → s < n) (i j : Nat) :
    partialTranspose (fun a b => star (X b a)) n cd rd S i j = star (partialTranspose X n rd cd S j i) := by
  rw [pT_eq_spec _ n cd rd S hc hr hnd hS, pT_eq_spec X n rd cd S hr hc hnd hS]
  unfold pTSpec
  have e1 : pTRowDims cd rd S = pTColDims rd cd S := by funext k; unfold pTRowDims pTColDims; rfl
  have e2 : pTColDims cd rd S = pTRowDims rd cd S := by funext k; unfold pTRowDims pTColDims; rfl
  rw [e1, e2]

/-- **The partial transpose commutes with the partial trace over other subsystems** (square operator
    with local dims `d`).  Let `T` be the traced subsystems and `S''` a list of the remaining subsystems,
    numbered within the remaining ones (`liftSys n T S''` are their original numbers, disjoint from `T`).
    Transposing them first and tracing out `T` afterwards is the same as tracing out `T` first and
    transposing `S''` in the reduced operator. -/
theorem pT_ptrace_commute {α : Type} [Add α] [Zero α] (X : Nat → Nat → α) (n : Nat) (d : Nat → Nat)
    (T S'' : List Nat) (hd : ∀ k, k < n → 0 < d k) (hndT : T.Nodup) (hltT : ∀ s ∈ T, s < n)
    (hndS : S''.Nodup) (hltS : ∀ q ∈ S'', q < (Toq.PTrace.others n T).length) (i j : Nat)
    (hi : i < Toq.PTrace.subDim d (Toq.PTrace.others n T))
    (hj : j < Toq.PTrace.subDim d (Toq.PTrace.others n T)) :
    partialTrace (partialTranspose X n d d (Toq.PTrace.liftSys n T S'')) n d T i j
      = partialTranspose (partialTrace X n d T) (Toq.PTrace.others n T).length
          (Toq.PTrace.subDims d (Toq.PTrace.others n T)) (Toq.PTrace.subDims d (Toq.PTrace.others n T)) S'' i j := by
  obtain ⟨hndL, hltL⟩ := liftSys_nodup_lt n T S'' hndS hltS
  have hpos : ∀ q, q < (Toq.PTrace.others n T).length → 0 < Toq.PTrace.subDims d (Toq.PTrace.others n T) q := by
    intro q hq
    exact hd _ (Toq.PTrace.mem_others.mp (Toq.PTrace.getD_mem _ q hq)).1
  rw [Toq.C02.ptrace_eq_spec _ n d T hd hndT hltT i j hi hj,
    pT_eq_spec (partialTrace X n d T) _ _ _ S'' hpos hpos hndS hltS i j]
  unfold pTSpec
  rw [pTRowDims_self, pTColDims_self]
  have hlt : ∀ a b : Nat, enc (Toq.PTrace.subDims d (Toq.PTrace.others n T))
      (fun q => if q ∈ S'' then dec (Toq.PTrace.subDims d (Toq.PTrace.others n T)) (Toq.PTrace.others n T).length a q
        else dec (Toq.PTrace.subDims d (Toq.PTrace.others n T)) (Toq.PTrace.others n T).length b q)
      (Toq.PTrace.others n T).length < Toq.PTrace.subDim d (Toq.PTrace.others n T) := by
    intro a b
    apply enc_lt
    intro q hq
    show (if q ∈ S'' then _ else _) < _
    split
    · exact dec_lt _ _ _ _ hq (hpos q hq)
    · exact dec_lt _ _ _ _ hq (hpos q hq)
  rw [Toq.C02.ptrace_eq_spec X n d T hd hndT hltT _ _ (hlt j i) (hlt i j)]
  unfold Toq.PTrace.ptraceSpec
  apply sumN_congr
  intro t _
  rw [pT_eq_spec X n d d _ hd hd hndL hltL]
  unfold pTSpec
  rw [pTRowDims_self, pTColDims_self, join_pT_mix n d T S'' hd hltS i j t, join_pT_mix n d T S'' hd hltS j i t]

/-! ## 6. realignment: linearity, involution, rank one -/

/-- **Entrywise maps commute with the realignment** (it only moves entries) … -/
theorem realign_map {α β : Type} (f : α → β) (X : Nat → Nat → α) (r0 r1 c0 c1 i j : Nat) :
    realignment (fun r c => f (X r c)) r0 r1 c0 c1 i j = f (realignment X r0 r1 c0 c1 i j) :=
  realignment_map f X r0 r1 c0 c1 i j

/-- … so it is **linear** -/
theorem realign_linear {α : Type} [Add α] [Mul α] (a b : α) (X Y : Nat → Nat → α)
    (r0 r1 c0 c1 i j : Nat) :
    realignment (fun r c => a * X r c + b * Y r c) r0 r1 c0 c1 i j
      = a * realignment X r0 r1 c0 c1 i j + b * realignment Y r0 r1 c0 c1 i j := rfl

/-- **Realignment is an involution up to the dimension swap**: the realigned operator is
    `(r0·c0) × (r1·c1)`; realigning it again with row dims `[r0, c0]` and column dims `[r1, c1]` gives
    back the `(r0·r1) × (c0·c1)` operator, for all (also rectangular) local dimensions. -/
theorem realign_involutive {α : Type} (X : Nat → Nat → α) (r0 r1 c0 c1 : Nat)
    (hr0 : 0 < r0) (hr1 : 0 < r1) (hc0 : 0 < c0) (hc1 : 0 < c1) (i j : Nat)
    (hi : i < r0 * r1) (hj : j < c0 * c1) :
    realignment (realignment X r0 r1 c0 c1) r0 c0 r1 c1 i j = X i j := by
  rw [realign_eq_spec _ r0 c0 r1 c1 hr0 hc0 hr1 hc1 i j hi hj]
  obtain ⟨h1, h2, h3, h4⟩ := (realign_index_bij r0 r1 c0 c1 hr1 hc0 hc1).2 i j hi hj
  unfold realignRowInv at h1
  unfold realignColInv at h2
  rw [realign_eq_spec X r0 r1 c0 c1 hr0 hr1 hc0 hc1 _ _ h1 h2]
  unfold realignRow realignRowInv realignColInv at h3
  unfold realignCol realignRowInv realignColInv at h4
  rw [h3, h4]

/-- **The realignment of `A ⊗ B` has rank at most one, for all sizes** (Mathlib's `Matrix.rank` over a
    field; `toMatR` reads the `(r0·c0) × (r1·c1)` block of the model output as a Mathlib matrix). -/
theorem realign_kron_rank {K : Type} [Field K] (X A B : Nat → Nat → K) (r0 r1 c0 c1 : Nat)
    (hr0 : 0 < r0) (hr1 : 0 < r1) (hc0 : 0 < c0) (hc1 : 0 < c1)
    (hX : ∀ a b a' b', a < r0 → b < r1 → a' < c0 → b' < c1 →
      X (a * r1 + b) (a' * c1 + b') = A a a' * B b b') :
    (toMatR (r0 * c0) (r1 * c1) (realignment X r0 r1 c0 c1)).rank ≤ 1 :=
  rank_outer_le_one _ _ (fun i => A (i / c0) (i % c0)) (fun j => B (j / c1) (j % c1)) _
    (fun i j hi hj => realign_kron X A B r0 r1 c0 c1 hr0 hr1 hc0 hc1 hX i j hi hj)

/-! ## 7. argument forms (`Toq/Model/PartialOpsArgs.lean` mirrors the normalisation blocks) -/

/-- **A bare integer `sys = s` means `[s]`, an omitted `sys` means `[1]`, a one-element `dim = [d]`
    means the scalar `d`, and a 2 × 1 `dim = [[r], [c]]` is read as the vector `[r, c]` of a square
    operator** (because `min(dim.shape) == 1`). -/
theorem pT_args_forms {α : Type} (X : Nat → Nat → α) (R C : Nat) (s : Int) (d r c : Nat)
    (sys : SysArg) (dim : PTDimArg) :
    partialTransposeArgs X R C (.int s) dim = partialTransposeArgs X R C (.list [s]) dim ∧
    partialTransposeArgs X R C .omitted dim = partialTransposeArgs X R C (.list [1]) dim ∧
    partialTransposeArgs X R C sys (.list [d]) = partialTransposeArgs X R C sys (.scalar d) ∧
    partialTransposeArgs X R C sys (.two [r] [c]) = partialTransposeArgs X R C sys (.list [r, c]) :=
  ⟨rfl, rfl, rfl, rfl⟩

/-- **Two-row dimension argument `[row dims, column dims]`: accepted exactly on the documented domain,
    and then the result is the digit exchange.**  For an `R × C` input with `R, C ≥ 1`, lists `rl`, `cl`
    of equal length `n ≠ 1` and a list `sys` of integers, `partial_transpose` returns iff `rl` multiplies
    to `R`, `cl` to `C`, and `sys` is a duplicate-free list of numbers in `0 … n-1`.  The result then has
    the shape `Π pTRowDims × Π pTColDims` and is the mirror model's output, i.e. `pTSpec`. -/
theorem pT_args_two {α : Type} (X : Nat → Nat → α) (R C : Nat) (hR : 0 < R) (hC : 0 < C)
    (rl cl : List Nat) (hlen : rl.length = cl.length) (hn : rl.length ≠ 1) (sys : List Int) :
    ((∃ r, partialTransposeArgs X R C (.list sys) (.two rl cl) = .ok r) ↔
      prodN (fnOfList rl) rl.length = R ∧ prodN (fnOfList cl) rl.length = C ∧
        ∃ S : List Nat, sys = S.map Int.ofNat ∧ S.Nodup ∧ ∀ s ∈ S, s < rl.length) ∧
    ∀ S : List Nat, sys = S.map Int.ofNat → S.Nodup → (∀ s ∈ S, s < rl.length) →
      prodN (fnOfList rl) rl.length = R → prodN (fnOfList cl) rl.length = C →
      partialTransposeArgs X R C (.list sys) (.two rl cl)
        = .ok (prodN (pTRowDims (fnOfList rl) (fnOfList cl) S) rl.length,
               prodN (pTColDims (fnOfList rl) (fnOfList cl) S) rl.length,
               partialTranspose X rl.length (fnOfList rl) (fnOfList cl) S) ∧
      ∀ i j, partialTranspose X rl.length (fnOfList rl) (fnOfList cl) S i j
        = pTSpec X rl.length (fnOfList rl) (fnOfList cl) S i j := by
  have hdec : ptDecodeDim R C (.two rl cl) = .ok (rl, cl) := ptDecodeDim_two R C rl cl hlen hn
  have main : ∀ S : List Nat, sys = S.map Int.ofNat → S.Nodup → (∀ s ∈ S, s < rl.length) →
      prodN (fnOfList rl) rl.length = R → prodN (fnOfList cl) rl.length = C →
      partialTransposeArgs X R C (.list sys) (.two rl cl)
        = .ok (prodN (pTRowDims (fnOfList rl) (fnOfList cl) S) rl.length,
               prodN (pTColDims (fnOfList rl) (fnOfList cl) S) rl.length,
               partialTranspose X rl.length (fnOfList rl) (fnOfList cl) S) ∧
      ∀ i j, partialTranspose X rl.length (fnOfList rl) (fnOfList cl) S i j
        = pTSpec X rl.length (fnOfList rl) (fnOfList cl) S i j := by
    intro S hS hnd hlt hpR hpC
    have hr : ∀ k, k < rl.length → 0 < fnOfList rl 0 k :=
      Toq.Perms.pos_of_lt_prodN _ _ 0 (by rw [hpR]; exact hR)
    have hc : ∀ k, k < rl.length → 0 < fnOfList cl 0 k :=
      Toq.Perms.pos_of_lt_prodN _ _ 0 (by rw [hpC]; exact hC)
    have hs : checkSys rl.length (SysArg.list sys).toList true = .ok S := by
      rw [hS]; exact checkSys_ok _ S true hnd hlt
    refine ⟨?_, fun i j => pT_eq_spec X _ _ _ S hr hc hnd (fun s h => hlt s h) i j⟩
    obtain ⟨e1, e2⟩ := pT_shape rl.length (fnOfList rl) (fnOfList cl) S hr hc hnd (fun s h => hlt s h)
    rw [partialTransposeArgs_of X R C (.list sys) (.two rl cl) rl cl S hdec hs hpR hpC, ← e1, ← e2, hpR, hpC]
  refine ⟨⟨?_, ?_⟩, main⟩
  · rintro ⟨r, hr⟩
    obtain ⟨rl', cl', S, hd', hs, hpR, hpC⟩ := partialTransposeArgs_ok_inv X R C _ _ r hr
    have h := hdec.symm.trans hd'
    injection h with h
    injection h with h1 h2
    subst h1 h2
    exact ⟨hpR, hpC, S, (checkSys_ok_iff _ _ _ _).mp hs⟩
  · rintro ⟨hpR, hpC, S, hS, hnd, hlt⟩
    exact ⟨_, (main S hS hnd hlt hpR hpC).1⟩

/-- **A dimension vector (square operator) means the same row and column dims** -/
theorem pT_args_list {α : Type} (X : Nat → Nat → α) (R C : Nat) (sys : SysArg) (l : List Nat)
    (hn : l.length ≠ 1) :
    partialTransposeArgs X R C sys (.list l) = partialTransposeArgs X R C sys (.two l l) := by
  have h1 : ptDecodeDim R C (.list l) = .ok (l, l) := ptDecodeDim_list R C l hn
  have h2 : ptDecodeDim R C (.two l l) = .ok (l, l) := ptDecodeDim_two R C l l rfl hn
  unfold partialTransposeArgs
  rw [h1, h2]

/-- **A scalar dimension `d` means the dimensions `[d, R/d]`** (rows and columns) when `d ≥ 1` divides
    the number of rows, and is rejected otherwise -/
theorem pT_args_scalar {α : Type} (X : Nat → Nat → α) (R C d : Nat) (sys : SysArg) :
    (0 < d → d ∣ R →
      partialTransposeArgs X R C sys (.scalar d) = partialTransposeArgs X R C sys (.list [d, R / d])) ∧
    ((d = 0 ∨ ¬ d ∣ R) → partialTransposeArgs X R C sys (.scalar d) = .error .InvalidDim) := by
  constructor
  · intro hd hdiv
    have h1 := ptDecodeDim_scalar R C d hd hdiv
    unfold partialTransposeArgs
    rw [h1]
    rfl
  · intro h
    have h1 := ptDecodeDim_scalar_reject R C d h
    unfold partialTransposeArgs
    rw [h1]
    rfl

/-- **Omitted `dim` means two equal subsystems** on rows (`R = a²`) and on columns (`C = b²`) -/
theorem pT_args_omitted {α : Type} (X : Nat → Nat → α) (a b : Nat) (sys : SysArg) :
    partialTransposeArgs X (a * a) (b * b) sys .omitted
      = partialTransposeArgs X (a * a) (b * b) sys (.two [a, a] [b, b]) := by
  unfold partialTransposeArgs
  show (do let (rl, cl) ← (Except.ok ([roundSqrt (a * a), roundSqrt (a * a)],
      [roundSqrt (b * b), roundSqrt (b * b)]) : Except Rej _); _) = _
  rw [Toq.C02.roundSqrt_square, Toq.C02.roundSqrt_square]
  rfl

/-- **A numeric array and a cvxpy variable holding that array give the same result**: for every
    argument form the variable call is accepted iff the numeric call is, with the same shape, and the
    value of the returned expression at `(i, j)` is entry `(i, j)` of the numeric result (any value
    type with `+` and `0`; the expressions are single atoms, so nothing is ever added). -/
theorem pT_cvx_value {β : Type} [Add β] [Zero β] (val : Nat → Nat → β) (R C : Nat) (sys : SysArg)
    (dim : PTDimArg) :
    partialTransposeArgs val R C sys dim
      = (partialTransposeCvx R C sys dim).map
          (fun r => (r.1, r.2.1, fun i j => (r.2.2 i j).eval val)) := by
  unfold partialTransposeCvx partialTransposeArgs
  simp only [bind, Except.bind, Except.map]
  split
  · rfl
  split
  · rfl
  split
  · rfl
  · rfl

/-- **The returned expression at `(i, j)` is the single atom `V[i', j']`** with `(i', j')` the source
    position given by the digit exchange. -/
theorem pT_cvx_atom (n : Nat) (rd cd : Nat → Nat) (S : List Nat)
    (hr : ∀ k, k < n → 0 < rd k) (hc : ∀ k, k < n → 0 < cd k)
    (hnd : S.Nodup) (hS : ∀ s, s ∈ S → s < n) (i j : Nat) :
    partialTranspose exprAsNpArray n rd cd S i j
      = CvxExpr.index
          (enc rd (fun k => if k ∈ S then dec (pTColDims rd cd S) n j k else dec (pTRowDims rd cd S) n i k) n)
          (enc cd (fun k => if k ∈ S then dec (pTRowDims rd cd S) n i k else dec (pTColDims rd cd S) n j k) n) := by
  rw [pT_eq_spec exprAsNpArray n rd cd S hr hc hnd hS]
  rfl

/-- **Realignment, argument forms**: `[a, b]` means row dims = column dims = `[a, b]`; a scalar `d ≥ 1`
    means `[d, R / d]`; an omitted `dim` means `[round √R, round √C]` for rows and for columns (so it
    fits only square operators), in particular `[r, r]` for an `r² × r²` operator. -/
theorem realign_args_forms {α : Type} (X : Nat → Nat → α) (R C a b d r : Nat) (hd : 0 < d) :
    realignmentArgs X R C (.pair a b) = realignmentArgs X R C (.two a b a b) ∧
    realignmentArgs X R C (.scalar d) = realignmentArgs X R C (.pair d (R / d)) ∧
    realignmentArgs X R C .omitted = realignmentArgs X R C (.pair (roundSqrt R) (roundSqrt C)) ∧
    realignmentArgs X (r * r) (r * r) .omitted = realignmentArgs X (r * r) (r * r) (.two r r r r) := by
  refine ⟨rfl, ?_, rfl, ?_⟩
  · have h1 : realignDecodeDim R C (.scalar d) = .ok ((d, R / d), (d, R / d)) := by
      show (if d = 0 then _ else _) = _
      rw [if_neg (by omega)]
    unfold realignmentArgs
    rw [h1]
    rfl
  · have h1 : realignDecodeDim (r * r) (r * r) .omitted = .ok ((r, r), (r, r)) := by
      show Except.ok ((roundSqrt (r * r), roundSqrt (r * r)), (roundSqrt (r * r), roundSqrt (r * r))) = _
      rw [Toq.C02.roundSqrt_square]
    unfold realignmentArgs
    rw [h1]
    rfl

/-- **Realignment is accepted exactly when the local dimensions multiply to the shape of the input**,
    and then returns the `(r0·c0) × (r1·c1)` matrix of `realign_eq_spec` -/
theorem realign_args_two {α : Type} (X : Nat → Nat → α) (R C r0 r1 c0 c1 : Nat) :
    ((∃ r, realignmentArgs X R C (.two r0 r1 c0 c1) = .ok r) ↔ r0 * r1 = R ∧ c0 * c1 = C) ∧
    (r0 * r1 = R → c0 * c1 = C →
      realignmentArgs X R C (.two r0 r1 c0 c1) = .ok (r0 * c0, r1 * c1, realignment X r0 r1 c0 c1)) := by
  refine ⟨⟨?_, fun ⟨h1, h2⟩ => ⟨_, realignmentArgs_of X R C _ r0 r1 c0 c1 rfl h1 h2⟩⟩,
    fun h1 h2 => realignmentArgs_of X R C _ r0 r1 c0 c1 rfl h1 h2⟩
  rintro ⟨r, hr⟩
  obtain ⟨a0, a1, b0, b1, hd, h1, h2⟩ := realignmentArgs_ok_inv X R C _ r hr
  injection hd with hd
  injection hd with e1 e2
  injection e1 with e1 e1'
  injection e2 with e2 e2'
  subst e1 e1' e2 e2'
  exact ⟨h1, h2⟩

/-! ## non-vacuity -/

/-- the hypotheses of `pT_eq_spec` are met by `rd = [2,3]`, `cd = [3,4]`, `S = [1]` (a rectangular
    `6 × 12` operator; the result is `8 × 9`), and there the model (evaluated) equals the spec on all
    `72` entries of an operator with pairwise distinct entries -/
example :
    ((∀ k, k < 2 → 0 < (fnOfList [2, 3]) k) ∧ (∀ k, k < 2 → 0 < (fnOfList [3, 4]) k) ∧
      [1].Nodup ∧ (∀ s, s ∈ [1] → s < 2)) ∧
    prodN (pTRowDims (fnOfList [2, 3]) (fnOfList [3, 4]) [1]) 2 = 8 ∧
    prodN (pTColDims (fnOfList [2, 3]) (fnOfList [3, 4]) [1]) 2 = 9 ∧
    (listOfFn 8 fun i => listOfFn 9 fun j =>
        partialTranspose (fun i j => 100 * i + j) 2 (fnOfList [2, 3]) (fnOfList [3, 4]) [1] i j)
      = (listOfFn 8 fun i => listOfFn 9 fun j =>
        pTSpec (fun i j => 100 * i + j) 2 (fnOfList [2, 3]) (fnOfList [3, 4]) [1] i j) := by
  decide

/-- … and the result is not the input: entry `(1, 3)` of the result is entry `(0, 5)` of the operator
    (row digits `(0,1)`, column digits `(1,0)` become row digits `(0,0)`, column digits `(1,1)`) -/
example :
    partialTranspose (fun i j => (i, j)) 2 (fnOfList [2, 3]) (fnOfList [3, 4]) [1] 1 3 = (0, 5) := by
  decide

/-- realignment with `r = [2,3]`, `c = [3,4]`: the `6 × 12` operator becomes a `6 × 12` matrix
    (`r0*c0 × r1*c1`) and the model equals the index formula on every entry -/
example :
    (listOfFn 6 fun i => listOfFn 12 fun j => realignment (fun i j => 100 * i + j) 2 3 3 4 i j)
      = (listOfFn 6 fun i => listOfFn 12 fun j =>
          realignSpec (fun i j => 100 * i + j) 3 3 4 i j) := by
  decide

/-- the product hypothesis of `realign_kron` is satisfiable: the entry formula of `A ⊗ B` -/
example (A B : Nat → Nat → Nat) (r0 r1 c0 c1 : Nat) (_hr1 : 0 < r1) (_hc1 : 0 < c1) :
    ∀ a b a' b', a < r0 → b < r1 → a' < c0 → b' < c1 →
      (fun I J => A (I / r1) (J / c1) * B (I % r1) (J % c1)) (a * r1 + b) (a' * c1 + b')
        = A a a' * B b b' := by
  intro a b a' b' _ hb _ hb'
  show A ((a * r1 + b) / r1) ((a' * c1 + b') / c1) * B ((a * r1 + b) % r1) ((a' * c1 + b') % c1) = _
  rw [mul_add_div _ _ _ hb, mul_add_div _ _ _ hb', mul_add_mod _ _ _ hb, mul_add_mod _ _ _ hb']

/-- summary of a front-end result for the examples: shape and entries, or the rejection -/
inductive Shown where
  | rej (e : Rej)
  | ok (rows cols : Nat) (entries : List (List Int))
  deriving DecidableEq

def showResult : Except Rej (Nat × Nat × (Nat → Nat → Int)) → Shown
  | .ok p => .ok p.1 p.2.1 (listOfFn p.1 (fun i => listOfFn p.2.1 (p.2.2 i)))
  | .error e => .rej e

/-- argument forms of `partial_transpose` on the `2 × 3` ⊗ `3 × 2`-shaped labelled `6 × 6` matrix: the
    two-row form, and the `2 × 1` form `[[2],[3]]` that the code reads as the vector `[2, 3]` -/
example :
    showResult (partialTransposeArgs (fun i j => (10 * i + j : Int)) 4 4 .omitted .omitted)
      = .ok 4 4 [[0, 10, 2, 12], [1, 11, 3, 13], [20, 30, 22, 32], [21, 31, 23, 33]] ∧
    showResult (partialTransposeArgs (fun i j => (10 * i + j : Int)) 2 4 (.int 0) (.two [2, 1] [2, 2]))
      = .ok 2 4 [[0, 1, 10, 11], [2, 3, 12, 13]] := by decide

/-- rejected forms: repeated / negative / out-of-range subsystem, non-dividing scalar, omitted `dim` on
    a size that is not a perfect square, rows of different lengths -/
example :
    showResult (partialTransposeArgs (fun i j => (10 * i + j : Int)) 4 4 (.list [1, 1]) (.list [2, 2]))
      = .rej .InvalidPerm ∧
    showResult (partialTransposeArgs (fun i j => (10 * i + j : Int)) 4 4 (.int (-1)) (.list [2, 2]))
      = .rej .InvalidPerm ∧
    showResult (partialTransposeArgs (fun i j => (10 * i + j : Int)) 4 4 (.int 2) (.list [2, 2]))
      = .rej .IndexError := by decide

example :
    showResult (partialTransposeArgs (fun i j => (10 * i + j : Int)) 4 4 (.int 0) (.scalar 3))
      = .rej .InvalidDim ∧
    showResult (partialTransposeArgs (fun i j => (10 * i + j : Int)) 6 6 .omitted .omitted)
      = .rej .InvalidDim ∧
    showResult (partialTransposeArgs (fun i j => (10 * i + j : Int)) 4 4 (.int 0) (.two [2, 2] [4]))
      = .rej .InvalidDim := by decide

/-- realignment: the omitted `dim` on a `4 × 4` operator is `[[2,2],[2,2]]`; on a `4 × 9` operator it is
    rejected; realigning twice with the swapped dims gives the `6 × 12` operator back -/
example :
    showResult (realignmentArgs (fun i j => (10 * i + j : Int)) 4 4 .omitted)
      = showResult (realignmentArgs (fun i j => (10 * i + j : Int)) 4 4 (.two 2 2 2 2)) ∧
    showResult (realignmentArgs (fun i j => (10 * i + j : Int)) 4 9 .omitted)
      = .rej .InvalidDim := by decide

example :
    (listOfFn 6 fun i => listOfFn 12 fun j =>
        realignment (realignment (fun i j => 100 * i + j) 2 3 3 4) 2 3 3 4 i j)
      = (listOfFn 6 fun i => listOfFn 12 fun j => 100 * i + j) := by decide

/-- the cvxpy branch on `rd = [2,3]`, `cd = [3,4]`, `S = [1]`: entry `(1, 3)` of the returned expression
    is the atom `V[0, 5]` -/
example :
    partialTranspose exprAsNpArray 2 (fnOfList [2, 3]) (fnOfList [3, 4]) [1] 1 3 = CvxExpr.index 0 5 := by
  decide

/-- `pT_ptrace_commute` on `d = [2,3,2]`, `T = [1]`, `S'' = [1]` (original subsystem 2): transposing
    subsystem 2 and tracing out subsystem 1 commute -/
example : Toq.PTrace.liftSys 3 [1] [1] = [2] ∧
    (listOfFn 4 fun i => listOfFn 4 fun j =>
        partialTrace (partialTranspose (fun r c => 12 * r + c) 3 (fnOfList [2, 3, 2]) (fnOfList [2, 3, 2]) [2])
          3 (fnOfList [2, 3, 2]) [1] i j)
      = (listOfFn 4 fun i => listOfFn 4 fun j =>
          partialTranspose (partialTrace (fun r c => 12 * r + c) 3 (fnOfList [2, 3, 2]) [1]) 2
            (fnOfList [2, 2]) (fnOfList [2, 2]) [1] i j) := by
  decide

end Toq.C03
