import Toq.Proofs.MetricsLaws
import Toq.Proofs.MetricsCommuting
import Toq.Proofs.MetricsModel
import Toq.Proofs.MetricsFos
import Toq.Proofs.MetricsFosModel
import Toq.Proofs.MetricsFosPure
import Toq.Model.MetricsFos
import Mathlib.Analysis.SpecialFunctions.Trigonometric.Inverse
/-!
# C13 — state distance and fidelity measures: variational definitions, laws, certificate checkers

Everything is stated over `Matrix (Fin n) (Fin n) ℂ` with Mathlib's `Matrix.PosSemidef`.  The executable
checkers (`Toq.Model.Metrics`) work over exact Gaussian rationals; `EMat.toM` is the denotation of an
exact matrix, `Rat.cast` that of an exact number.

**Trace norm / trace distance.**  `IsContraction W` means `1 − W ⪰ 0` and `1 + W ⪰ 0` (so `W` is Hermitian
with spectrum in `[−1, 1]`).  The trace norm of a Hermitian `H` is taken in its max form
`traceNorm H = sup { Re tr(W H) : W contraction }`, and `traceDist ρ σ = traceNorm (ρ − σ) / 2`
(toqito: `trace_norm`, `trace_distance`, `helstrom_holevo = 1/2 + traceDist / 2`).  The min form
`min { tr P + tr Q : H = P − Q, P, Q ⪰ 0 }` gives the upper bounds.  Both forms are attained and equal `Σ|λ_i(H)|` — the
singular-value definition used by `numpy.linalg.norm(·, "nuc")` — (`traceNorm_eq_sum_abs_eigenvalues`, **proved**).

**Fidelity.**  `fid ρ σ` is the optimal value of Watrous' semidefinite program,
`sup { Re tr X : [[ρ, X], [Xᴴ, σ]] ⪰ 0 }`; its dual is `inf { (tr(Yρ) + tr(Zσ))/2 : [[Y, −1], [−1, Z]] ⪰ 0 }`.
toqito's `fidelity` returns the *root* fidelity `‖√ρ √σ‖₁ = tr √(√ρ σ √ρ)` (`docFidelity`).  **Proved** (formerly cited; Watrous,
TQI Thm 3.17): `fid = docFidelity` for all positive semidefinite pairs of every rank (`fid_eq_docFidelity`), with the special
values `Σ √(p_i q_i)` for commuting pairs and `√⟨ψ|σ|ψ⟩` for pure states.  `matsumoto ρ σ` is the same program restricted to
Hermitian `X`; it equals `tr(ρ # σ)` for invertible `ρ` (Cree–Sikora; `matsumoto_eq_trace_geoMean`, **proved**, formerly cited),
`matsumoto ≤ fid`, and `matsumoto = Σ √(p_i q_i)` for commuting pairs.  Nothing in this file is cited any more.

**Proved here for all dimensions and ranks** (formerly cited): the Fuchs–van de Graaf inequalities `1 − F ≤ T ≤ √(1 − F²)`,
`sub-fidelity ≤ F²` (Miszczak et al.), `Matsumoto ≤ F`, the extreme values (`F = 1 ⟺ ρ = σ ⟺ T = 0`, `F = 0 ⟺ ρσ = 0 ⟺ T = 1`),
the pure-state overlap formulas of `F`, `T`, Hilbert–Schmidt, Helstrom–Holevo, sub-fidelity, Bures; symmetry and unitary
invariance of every measure; the Bures distance/angle as the documented monotone functions of `F` with their extreme values
(the harness applies them to the endpoints of the certified enclosure of `F`, `bures_enclosure`), and the rounding to
`decimals` places inside them (`roundDec_spec`, `roundDecEncl_sound`).
-/

open Matrix
open scoped ComplexOrder MatrixOrder

namespace Toq.C13
open Toq.Metrics EMat

variable {n k r r' : Nat}

/-! ## The mathematical quantities -/

/-- density operator: positive semidefinite with unit trace -/
def IsDensity (ρ : Matrix (Fin n) (Fin n) ℂ) : Prop := ρ.PosSemidef ∧ ρ.trace = 1

/-- trace norm (max form) `sup { Re tr(W H) : −1 ⪯ W ⪯ 1 }` -/
noncomputable def traceNorm (H : Matrix (Fin n) (Fin n) ℂ) : ℝ := traceNormV H

/-- trace distance `‖ρ − σ‖₁ / 2` -/
noncomputable def traceDist (ρ σ : Matrix (Fin n) (Fin n) ℂ) : ℝ := traceNorm (ρ - σ) / 2

/-- Helstrom–Holevo optimal success probability for two equiprobable states: `1/2 + ‖ρ − σ‖₁ / 4` -/
noncomputable def helstromHolevo (ρ σ : Matrix (Fin n) (Fin n) ℂ) : ℝ := 1 / 2 + traceDist ρ σ / 2

/-- (root) fidelity as the optimal value of Watrous' program -/
noncomputable def fid (ρ σ : Matrix (Fin n) (Fin n) ℂ) : ℝ := fidV ρ σ

/-- the values `Re tr W` over all Hermitian feasible `W` -/
def matsSet (ρ σ : Matrix (Fin n) (Fin n) ℂ) : Set ℝ :=
  {x | ∃ W, W.IsHermitian ∧ FidFeasible ρ σ W ∧ W.trace.re = x}

/-- Matsumoto fidelity as the optimal value of the Hermitian-restricted program -/
noncomputable def matsumoto (ρ σ : Matrix (Fin n) (Fin n) ℂ) : ℝ := sSup (matsSet ρ σ)

/-! ## Trace norm: weak duality and certificate checkers -/

/-- Weak duality of the two variational forms: for every decomposition `H = P − Q` into positive
semidefinite parts and every contraction `W`, `Re tr(W H) ≤ tr P + tr Q`. -/
theorem traceNorm_weak_duality (H P Q W : Matrix (Fin n) (Fin n) ℂ) (hP : P.PosSemidef)
    (hQ : Q.PosSemidef) (hH : H = P - Q) (hW : IsContraction W) :
    (W * H).trace.re ≤ P.trace.re + Q.trace.re :=
  traceNorm_weak_duality_gen hP hQ hH hW

/-- If the lower-bound checker accepts with value `lo`, then `H` is Hermitian, `W` is a contraction with
`Re tr(W H) = lo`; hence `lo ≤ ‖H‖₁` (max form) and every decomposition `H = P − Q` has `tr P + tr Q ≥ lo`. -/
theorem checkTNLower_sound (H W : EMat n n) (L1 : EMat n r) (L2 : EMat n r') (lo : Rat)
    (h : checkTNLower H W L1 L2 = some lo) :
    IsContraction W.toM ∧ (W.toM * H.toM).trace.re = (lo : ℝ) ∧ (lo : ℝ) ≤ traceNorm H.toM ∧
      ∀ P Q : Matrix (Fin n) (Fin n) ℂ, P.PosSemidef → Q.PosSemidef → H.toM = P - Q →
        (lo : ℝ) ≤ P.trace.re + Q.trace.re := by
  obtain ⟨hH, hW, hv⟩ := checkTNLower_core H W L1 L2 lo h
  refine ⟨hW, hv, ?_, fun P Q hP hQ hPQ => ?_⟩
  · rw [← hv]; exact le_traceNormV_gen hH hW
  · rw [← hv]; exact traceNorm_weak_duality_gen hP hQ hPQ hW

/-- If the upper-bound checker accepts with value `hi`, then `H = P − Q` with `P, Q ⪰ 0` and
`tr P + tr Q = hi`; hence every contraction `W` has `Re tr(W H) ≤ hi`, and `‖H‖₁ ≤ hi`. -/
theorem checkTNUpper_sound (H P Q : EMat n n) (LP : EMat n r) (LQ : EMat n r') (hi : Rat)
    (h : checkTNUpper H P Q LP LQ = some hi) :
    (P.toM.PosSemidef ∧ Q.toM.PosSemidef ∧ H.toM = P.toM - Q.toM ∧
      P.toM.trace.re + Q.toM.trace.re = (hi : ℝ)) ∧
    (∀ W : Matrix (Fin n) (Fin n) ℂ, IsContraction W → (W * H.toM).trace.re ≤ (hi : ℝ)) ∧
    traceNorm H.toM ≤ (hi : ℝ) := by
  obtain ⟨hP, hQ, hPQ, hv⟩ := checkTNUpper_core H P Q LP LQ hi h
  refine ⟨⟨hP, hQ, hPQ, hv⟩, fun W hW => ?_, ?_⟩
  · rw [← hv]; exact traceNorm_weak_duality_gen hP hQ hPQ hW
  · rw [← hv]; exact traceNormV_le_gen hP hQ hPQ

/-- Accepted lower and upper certificates bracket the trace norm. -/
theorem traceNorm_lo_le_hi (H W P Q : EMat n n) (L1 L2 LP LQ : EMat n r) (lo hi : Rat)
    (hlo : checkTNLower H W L1 L2 = some lo) (hhi : checkTNUpper H P Q LP LQ = some hi) :
    (lo : ℝ) ≤ traceNorm H.toM ∧ traceNorm H.toM ≤ (hi : ℝ) :=
  ⟨(checkTNLower_sound H W L1 L2 lo hlo).2.2.1, (checkTNUpper_sound H P Q LP LQ hi hhi).2.2⟩

/-! ## Trace distance is a metric, bounded by 1, unitarily invariant -/

/-- Symmetry: `T(ρ, σ) = T(σ, ρ)` (via `W ↦ −W`). -/
theorem traceDist_symm (ρ σ : Matrix (Fin n) (Fin n) ℂ) : traceDist ρ σ = traceDist σ ρ := by
  unfold traceDist traceNorm traceNormV
  rw [← neg_sub σ ρ, tnSet_neg]

/-- Invariance under a common unitary: `T(UρUᴴ, UσUᴴ) = T(ρ, σ)`. -/
theorem traceDist_unitary_invariant (ρ σ U : Matrix (Fin n) (Fin n) ℂ) (hU : Uᴴ * U = 1) :
    traceDist (U * ρ * Uᴴ) (U * σ * Uᴴ) = traceDist ρ σ := by
  unfold traceDist traceNorm traceNormV
  have : U * ρ * Uᴴ - U * σ * Uᴴ = U * (ρ - σ) * Uᴴ := by
    rw [Matrix.mul_sub, Matrix.sub_mul]
  rw [this, tnSet_conj _ _ hU (mul_eq_one_comm.mp hU)]

/-- Triangle inequality `T(ρ, τ) ≤ T(ρ, σ) + T(σ, τ)` for Hermitian arguments. -/
theorem traceDist_triangle (ρ σ τ : Matrix (Fin n) (Fin n) ℂ) (hρ : ρ.IsHermitian)
    (hσ : σ.IsHermitian) (hτ : τ.IsHermitian) : traceDist ρ τ ≤ traceDist ρ σ + traceDist σ τ := by
  unfold traceDist traceNorm
  have h := traceNormV_add_le_gen (hρ.sub hσ) (hσ.sub hτ)
  rw [sub_add_sub_cancel] at h
  linarith

/-- `T(ρ, ρ) = 0`. -/
theorem traceDist_self (ρ : Matrix (Fin n) (Fin n) ℂ) : traceDist ρ ρ = 0 := by
  unfold traceDist traceNorm
  rw [sub_self, traceNormV_zero_gen, zero_div]

/-- `T(ρ, σ) ≥ 0` for Hermitian arguments. -/
theorem traceDist_nonneg (ρ σ : Matrix (Fin n) (Fin n) ℂ) (hρ : ρ.IsHermitian) (hσ : σ.IsHermitian) :
    0 ≤ traceDist ρ σ := by
  unfold traceDist traceNorm
  have := traceNormV_nonneg_gen (hρ.sub hσ)
  linarith

/-- Definiteness: for Hermitian arguments `T(ρ, σ) = 0` exactly when `ρ = σ`. -/
theorem traceDist_eq_zero_iff (ρ σ : Matrix (Fin n) (Fin n) ℂ) (hρ : ρ.IsHermitian)
    (hσ : σ.IsHermitian) : traceDist ρ σ = 0 ↔ ρ = σ := by
  constructor
  · intro h
    unfold traceDist traceNorm at h
    have h0 : traceNormV (ρ - σ) = 0 := by linarith
    exact sub_eq_zero.mp (eq_zero_of_traceNormV_eq_zero (hρ.sub hσ) h0)
  · rintro rfl; exact traceDist_self ρ

/-- `T(ρ, σ) ≤ 1` for density operators (decomposition `P = ρ`, `Q = σ`). -/
theorem traceDist_le_one (ρ σ : Matrix (Fin n) (Fin n) ℂ) (hρ : IsDensity ρ) (hσ : IsDensity σ) :
    traceDist ρ σ ≤ 1 := by
  unfold traceDist traceNorm
  have := traceNormV_le_gen hρ.1 hσ.1 (rfl : ρ - σ = ρ - σ)
  rw [hρ.2, hσ.2] at this
  norm_num at this
  linarith

/-- Orthogonal supports give the extreme value: if a contraction `W` acts as `+1` on `ρ` and as `−1` on
`σ` (e.g. `W = Π_ρ − Π_σ` for the support projections), then `T(ρ, σ) = 1`. -/
theorem traceDist_eq_one_of_orthogonal (ρ σ W : Matrix (Fin n) (Fin n) ℂ) (hρ : IsDensity ρ)
    (hσ : IsDensity σ) (hW : IsContraction W) (h1 : W * ρ = ρ) (h2 : W * σ = -σ) :
    traceDist ρ σ = 1 := by
  refine le_antisymm (traceDist_le_one ρ σ hρ hσ) ?_
  unfold traceDist traceNorm
  have h := le_traceNormV_gen (hρ.1.isHermitian.sub hσ.1.isHermitian) hW
  rw [Matrix.mul_sub, h1, h2, sub_neg_eq_add, Matrix.trace_add, hρ.2, hσ.2] at h
  norm_num at h
  linarith

/-- The Helstrom–Holevo quantity of two density operators lies in `[1/2, 1]`. -/
theorem helstromHolevo_mem (ρ σ : Matrix (Fin n) (Fin n) ℂ) (hρ : IsDensity ρ) (hσ : IsDensity σ) :
    1 / 2 ≤ helstromHolevo ρ σ ∧ helstromHolevo ρ σ ≤ 1 := by
  unfold helstromHolevo
  have h1 := traceDist_nonneg ρ σ hρ.1.isHermitian hσ.1.isHermitian
  have h2 := traceDist_le_one ρ σ hρ hσ
  constructor <;> linarith

/-! ## Fidelity: weak duality and certificate checkers -/

/-- Weak duality of Watrous' program: for feasible `X` (`[[ρ, X], [Xᴴ, σ]] ⪰ 0`) and dual-feasible `(Y, Z)`
(`[[Y, −1], [−1, Z]] ⪰ 0`), `Re tr X ≤ (Re tr(Yρ) + Re tr(Zσ)) / 2`.  No assumption on `ρ`, `σ`. -/
theorem fid_weak_duality (ρ σ X Y Z : Matrix (Fin n) (Fin n) ℂ) (hX : FidFeasible ρ σ X)
    (hD : FidDualFeasible Y Z) : X.trace.re ≤ dualVal ρ σ Y Z :=
  fid_weak_duality_gen hX hD

/-- If the primal checker accepts with value `lo`, then `X` is feasible with `Re tr X = lo`; hence
`lo ≤ fid ρ σ` and every dual-feasible pair has value at least `lo`. -/
theorem checkFidPrimal_sound (ρ σ X : EMat n n) (L : EMat (n + n) r) (lo : Rat)
    (h : checkFidPrimal ρ σ X L = some lo) :
    FidFeasible ρ.toM σ.toM X.toM ∧ X.toM.trace.re = (lo : ℝ) ∧ (lo : ℝ) ≤ fid ρ.toM σ.toM ∧
      ∀ Y Z : Matrix (Fin n) (Fin n) ℂ, FidDualFeasible Y Z → (lo : ℝ) ≤ dualVal ρ.toM σ.toM Y Z := by
  obtain ⟨hX, hv⟩ := checkFidPrimal_core ρ σ X L lo h
  refine ⟨hX, hv, ?_, fun Y Z hD => ?_⟩
  · rw [← hv]; exact le_fidV_gen hX
  · rw [← hv]; exact fid_weak_duality_gen hX hD

/-- The same for the congruence form of the certificate (`[[ρ, X], [Xᴴ, σ]] = B M Bᴴ` exactly, `M ⪰ 0`
certified), which also covers rank-deficient states. -/
theorem checkFidPrimalCong_sound (ρ σ X : EMat n n) (B : EMat (n + n) k) (M : EMat k k)
    (L : EMat k r) (lo : Rat) (h : checkFidPrimalCong ρ σ X B M L = some lo) :
    FidFeasible ρ.toM σ.toM X.toM ∧ X.toM.trace.re = (lo : ℝ) ∧ (lo : ℝ) ≤ fid ρ.toM σ.toM ∧
      ∀ Y Z : Matrix (Fin n) (Fin n) ℂ, FidDualFeasible Y Z → (lo : ℝ) ≤ dualVal ρ.toM σ.toM Y Z := by
  obtain ⟨hX, hv⟩ := checkFidPrimalCong_core ρ σ X B M L lo h
  refine ⟨hX, hv, ?_, fun Y Z hD => ?_⟩
  · rw [← hv]; exact le_fidV_gen hX
  · rw [← hv]; exact fid_weak_duality_gen hX hD

/-- If the dual checker accepts with value `hi`, then `(Y, Z)` is dual feasible with value `hi`; hence
every feasible `X` has `Re tr X ≤ hi`, and `fid ρ σ ≤ hi` for positive semidefinite `ρ`, `σ`. -/
theorem checkFidDual_sound (ρ σ Y Z : EMat n n) (L : EMat (n + n) r) (hi : Rat)
    (h : checkFidDual ρ σ Y Z L = some hi) :
    (FidDualFeasible Y.toM Z.toM ∧ dualVal ρ.toM σ.toM Y.toM Z.toM = (hi : ℝ)) ∧
    (∀ X : Matrix (Fin n) (Fin n) ℂ, FidFeasible ρ.toM σ.toM X → X.trace.re ≤ (hi : ℝ)) ∧
    (ρ.toM.PosSemidef → σ.toM.PosSemidef → fid ρ.toM σ.toM ≤ (hi : ℝ)) := by
  obtain ⟨hD, hv⟩ := checkFidDual_core ρ σ Y Z L hi h
  refine ⟨⟨hD, hv⟩, fun X hX => ?_, fun hρ hσ => ?_⟩
  · rw [← hv]; exact fid_weak_duality_gen hX hD
  · rw [← hv]; exact fidV_le_gen hρ hσ hD

/-- Accepted primal and dual certificates bracket the fidelity (the accepted primal certificate already
forces `ρ, σ ⪰ 0`). -/
theorem fid_lo_le_hi (ρ σ X Y Z : EMat n n) (L L' : EMat (n + n) r) (lo hi : Rat)
    (hlo : checkFidPrimal ρ σ X L = some lo) (hhi : checkFidDual ρ σ Y Z L' = some hi) :
    (lo : ℝ) ≤ fid ρ.toM σ.toM ∧ fid ρ.toM σ.toM ≤ (hi : ℝ) := by
  obtain ⟨hX, hv, hlo', -⟩ := checkFidPrimal_sound ρ σ X L lo hlo
  obtain ⟨⟨hD, hv'⟩, -, -⟩ := checkFidDual_sound ρ σ Y Z L' hi hhi
  refine ⟨hlo', ?_⟩
  unfold fid
  refine csSup_le ⟨_, X.toM, hX, rfl⟩ ?_
  rintro x ⟨X', hX', rfl⟩
  rw [← hv']; exact fid_weak_duality_gen hX' hD

/-! ## Laws of the fidelity -/

/-- Symmetry: `F(ρ, σ) = F(σ, ρ)` (swap the blocks, `X ↦ Xᴴ`). -/
theorem fid_symm (ρ σ : Matrix (Fin n) (Fin n) ℂ) : fid ρ σ = fid σ ρ := by
  unfold fid fidV
  rw [fidSet_symm]

/-- Invariance under a common unitary: `F(UρUᴴ, UσUᴴ) = F(ρ, σ)`. -/
theorem fid_unitary_invariant (ρ σ U : Matrix (Fin n) (Fin n) ℂ) (hU : Uᴴ * U = 1) :
    fid (U * ρ * Uᴴ) (U * σ * Uᴴ) = fid ρ σ := by
  unfold fid fidV
  rw [fidSet_conj ρ σ U hU]

/-- `F(ρ, ρ) = tr ρ` for positive semidefinite `ρ` (`X = ρ` is feasible; `Y = Z = 1` is dual feasible);
in particular `F(ρ, ρ) = 1` for a density operator. -/
theorem fid_self (ρ : Matrix (Fin n) (Fin n) ℂ) (hρ : ρ.PosSemidef) : fid ρ ρ = ρ.trace.re := by
  unfold fid
  refine le_antisymm ?_ (le_fidV_gen (fidFeasible_self hρ))
  have := fidV_le_gen hρ hρ (fidDualFeasible_one (ι := Fin n))
  unfold dualVal at this
  rw [Matrix.one_mul] at this
  linarith

/-- `0 ≤ F(ρ, σ) ≤ 1` for density operators. -/
theorem fid_mem_unit (ρ σ : Matrix (Fin n) (Fin n) ℂ) (hρ : IsDensity ρ) (hσ : IsDensity σ) :
    0 ≤ fid ρ σ ∧ fid ρ σ ≤ 1 := by
  unfold fid
  refine ⟨le_csSup (fidSet_bddAbove ρ σ) (zero_mem_fidSet hρ.1 hσ.1), ?_⟩
  have := fidV_le_gen hρ.1 hσ.1 (fidDualFeasible_one (ι := Fin n))
  unfold dualVal at this
  rw [Matrix.one_mul, Matrix.one_mul, hρ.2, hσ.2] at this
  norm_num at this
  exact this

/-- Orthogonal supports give the extreme value: if a Hermitian idempotent `Π` satisfies `Π ρ = ρ` and
`Π σ = 0`, then `F(ρ, σ) = 0`. -/
theorem fid_eq_zero_of_orthogonal (ρ σ P : Matrix (Fin n) (Fin n) ℂ) (hρ : ρ.PosSemidef)
    (hσ : σ.PosSemidef) (hP : P.IsHermitian) (hPP : P * P = P) (h1 : P * ρ = ρ) (h2 : P * σ = 0) :
    fid ρ σ = 0 :=
  fidV_eq_zero_gen hρ hσ hP hPP h1 h2

/-! ## Matsumoto fidelity -/

/-- Weak duality for the Hermitian-restricted program: Hermitian feasible `W`, dual block
`[[Y, C], [Cᴴ, Z]] ⪰ 0` with `C + Cᴴ = −2` give `Re tr W ≤ (Re tr(Yρ) + Re tr(Zσ)) / 2`. -/
theorem mats_weak_duality (ρ σ W Y Z C : Matrix (Fin n) (Fin n) ℂ) (hW : W.IsHermitian)
    (hF : FidFeasible ρ σ W) (hC : C + Cᴴ = (-2 : ℂ) • (1 : Matrix (Fin n) (Fin n) ℂ))
    (hD : DualBlockPsd Y Z C) : W.trace.re ≤ dualVal ρ σ Y Z :=
  mats_weak_duality_gen hW hF hC hD

/-- `Matsumoto ≤ F`: the Matsumoto program is the fidelity program with the extra constraint `W = Wᴴ`. -/
theorem matsumoto_le_fid (ρ σ : Matrix (Fin n) (Fin n) ℂ) (hρ : ρ.PosSemidef) (hσ : σ.PosSemidef) :
    matsumoto ρ σ ≤ fid ρ σ := by
  unfold matsumoto fid
  refine csSup_le ⟨0, 0, by simp, ?_, by simp⟩ ?_
  · unfold FidFeasible
    simpa using posSemidef_fromBlocks_diag hρ hσ
  · rintro x ⟨W, -, hF, rfl⟩
    exact le_fidV_gen hF

/-- If the Matsumoto primal checker accepts with value `lo`, then `W` is Hermitian and feasible with
`Re tr W = lo`; hence `lo ≤ matsumoto ρ σ` and `lo ≤ fid ρ σ`. -/
theorem checkMatsPrimal_sound (ρ σ W : EMat n n) (L : EMat (n + n) r) (lo : Rat)
    (h : checkMatsPrimal ρ σ W L = some lo) :
    W.toM.IsHermitian ∧ FidFeasible ρ.toM σ.toM W.toM ∧ W.toM.trace.re = (lo : ℝ) ∧
      (lo : ℝ) ≤ matsumoto ρ.toM σ.toM ∧ (lo : ℝ) ≤ fid ρ.toM σ.toM := by
  obtain ⟨hW, hF, hv⟩ := checkMatsPrimal_core ρ σ W L lo h
  refine ⟨hW, hF, hv, ?_, ?_⟩
  · rw [← hv]
    refine le_csSup ?_ ⟨W.toM, hW, hF, rfl⟩
    refine ⟨dualVal ρ.toM σ.toM 1 1, ?_⟩
    rintro x ⟨W', -, hF', rfl⟩
    exact fid_weak_duality_gen hF' fidDualFeasible_one
  · rw [← hv]; exact le_fidV_gen hF

/-- If the Matsumoto dual checker accepts with value `hi`, every Hermitian feasible `W` has
`Re tr W ≤ hi`; hence `matsumoto ρ σ ≤ hi` for positive semidefinite `ρ`, `σ`. -/
theorem checkMatsDual_sound (ρ σ Y Z C : EMat n n) (L : EMat (n + n) r) (hi : Rat)
    (h : checkMatsDual ρ σ Y Z C L = some hi) :
    (∀ W : Matrix (Fin n) (Fin n) ℂ, W.IsHermitian → FidFeasible ρ.toM σ.toM W →
      W.trace.re ≤ (hi : ℝ)) ∧
    (ρ.toM.PosSemidef → σ.toM.PosSemidef → matsumoto ρ.toM σ.toM ≤ (hi : ℝ)) := by
  obtain ⟨hC, hD, hv⟩ := checkMatsDual_core ρ σ Y Z C L hi h
  have key : ∀ W : Matrix (Fin n) (Fin n) ℂ, W.IsHermitian → FidFeasible ρ.toM σ.toM W →
      W.trace.re ≤ (hi : ℝ) := by
    intro W hW hF
    rw [← hv]; exact mats_weak_duality_gen hW hF hC hD
  refine ⟨key, fun hρ hσ => ?_⟩
  unfold matsumoto
  refine csSup_le ⟨0, 0, by simp, ?_, by simp⟩ ?_
  · unfold FidFeasible
    simpa using posSemidef_fromBlocks_diag hρ hσ
  · rintro x ⟨W, hW, hF, rfl⟩
    exact key W hW hF

/-! ## Exactly computable quantities -/

/-- `hsDist` is `Re tr((ρ − σ)²)`, the documented Hilbert–Schmidt distance. -/
theorem hsDist_eq (ρ σ : EMat n n) :
    ((hsDist ρ σ : Rat) : ℝ) = ((ρ.toM - σ.toM) * (ρ.toM - σ.toM)).trace.re :=
  hsDist_cast ρ σ

/-- For Hermitian arguments `tr((ρ − σ)²)` is the squared Frobenius norm `Σ_ij |(ρ − σ)_ij|²`
(the "`‖ρ − σ‖₂²`" of the documentation is the Schatten 2-norm, not the spectral norm). -/
theorem hsDist_eq_sum_sq (ρ σ : Matrix (Fin n) (Fin n) ℂ) (hρ : ρ.IsHermitian) (hσ : σ.IsHermitian) :
    ((ρ - σ) * (ρ - σ)).trace.re = ∑ i, ∑ j, ‖(ρ - σ) i j‖ ^ 2 := by
  have hH : (ρ - σ).IsHermitian := hρ.sub hσ
  have : ((ρ - σ) * (ρ - σ)).trace = ∑ i, ∑ j, (((‖(ρ - σ) i j‖ ^ 2 : ℝ)) : ℂ) := by
    simp only [Matrix.trace, Matrix.diag_apply, Matrix.mul_apply]
    refine Finset.sum_congr rfl fun i _ => Finset.sum_congr rfl fun j _ => ?_
    have : (ρ - σ) j i = star ((ρ - σ) i j) := by
      conv_lhs => rw [← hH.eq]
      rfl
    rw [this, Complex.star_def, Complex.mul_conj, Complex.normSq_eq_norm_sq]
  rw [this, Complex.re_sum]
  refine Finset.sum_congr rfl fun i _ => ?_
  rw [Complex.re_sum]
  refine Finset.sum_congr rfl fun j _ => ?_
  exact Complex.ofReal_re _

/-- `hsInner` is `tr(Aᴴ B)`. -/
theorem hsInner_eq (A B : EMat n k) : (hsInner A B).toC = (A.toMᴴ * B.toM).trace :=
  hsInner_toC A B

/-- `trProd` is `Re tr(ρ σ)` (the pure-state overlap `⟨ψ|σ|ψ⟩` when `ρ = |ψ⟩⟨ψ|`). -/
theorem trProd_eq (ρ σ : EMat n n) : ((trProd ρ σ : Rat) : ℝ) = (ρ.toM * σ.toM).trace.re :=
  trProd_cast ρ σ

/-- `subFidRad` is the radicand `2[(tr ρσ)² − tr(ρσρσ)]` of the sub-fidelity
`E(ρ, σ) = tr(ρσ) + √(2[(tr ρσ)² − tr(ρσρσ)])`. -/
theorem subFidRad_eq (ρ σ : EMat n n) :
    ((subFidRad ρ σ : Rat) : ℝ)
      = 2 * ((ρ.toM * σ.toM).trace.re ^ 2 - (ρ.toM * σ.toM * (ρ.toM * σ.toM)).trace.re) := by
  unfold subFidRad
  rw [Rat.cast_mul, Rat.cast_sub, Rat.cast_mul, trProd_cast, trProd4_cast]
  norm_num
  ring

/-! # Deepening: closed forms, Fuchs–van de Graaf, extreme values, commuting and pure states, sub-fidelity, Bures, guards

`conjDiag U f = U · diag(f) · Uᴴ` (for real `f`); `IsPureProj P` says `P = |ψ⟩⟨ψ|` abstractly (Hermitian idempotent of trace
one with `P M P = tr(P M) P`; `isPureProj_vecMulVec` shows that `vecMulVec ψ (star ψ)` for a unit vector `ψ` is one);
`cFid p q = Σ √(p_i q_i)`, `cTD p q = ½ Σ |p_i − q_i|`. -/

/-- Hilbert–Schmidt distance as documented, `tr((ρ − σ)²)` -/
noncomputable def hilbertSchmidt (ρ σ : Matrix (Fin n) (Fin n) ℂ) : ℝ := hsV ρ σ

/-- sub-fidelity `E(ρ, σ) = tr(ρσ) + √(2[(tr ρσ)² − tr(ρσρσ)])` -/
noncomputable def subFidelity (ρ σ : Matrix (Fin n) (Fin n) ℂ) : ℝ := subFidV ρ σ

/-- the fidelity in the closed form `tr √(√ρ σ √ρ)` (`CFC.sqrt` is the positive square root) -/
noncomputable def docFidelity (ρ σ : Matrix (Fin n) (Fin n) ℂ) : ℝ := docFid ρ σ

/-- Bures distance `√(2 (1 − F))` as documented by toqito (`F` = root fidelity) -/
noncomputable def buresDistance (ρ σ : Matrix (Fin n) (Fin n) ℂ) : ℝ := Real.sqrt (2 * (1 - fid ρ σ))

/-- Bures angle `arccos √F` as documented by toqito (`F` = root fidelity) -/
noncomputable def buresAngle (ρ σ : Matrix (Fin n) (Fin n) ℂ) : ℝ := Real.arccos (Real.sqrt (fid ρ σ))

/-! ## Trace norm: both variational forms are attained -/

/-- **The trace norm of a Hermitian matrix is the sum of the absolute values of its eigenvalues** (the singular-value
definition used by `numpy.linalg.norm(·, "nuc")`): the max form is attained at `W = sgn H`, the min form at the Jordan
decomposition.  (Formerly cited.) -/
theorem traceNorm_eq_sum_abs_eigenvalues (H : Matrix (Fin n) (Fin n) ℂ) (hH : H.IsHermitian) :
    traceNorm H = ∑ i, |hH.eigenvalues i| :=
  traceNormV_eq_sum_abs_eigenvalues hH

/-! ## Fuchs–van de Graaf inequalities (all dimensions, all ranks) -/

/-- **`1 − F ≤ T`** for all density operators (via Powers–Størmer `tr(√ρ − √σ)² ≤ ‖ρ − σ‖₁` and feasibility of `X = √ρ √σ`). -/
theorem fuchs_van_de_graaf_lower (ρ σ : Matrix (Fin n) (Fin n) ℂ) (hρ : IsDensity ρ) (hσ : IsDensity σ) :
    1 - fid ρ σ ≤ traceDist ρ σ :=
  fvdg_lower_gen hρ.1 hσ.1 hρ.2 hσ.2

/-- **`T² + F² ≤ 1`** for all density operators (measure in the eigenbasis of `ρ − σ`: `T` becomes the classical distance of
the outcome distributions, `F` can only grow, and the classical inequality is Cauchy–Schwarz). -/
theorem fuchs_van_de_graaf_upper_sq (ρ σ : Matrix (Fin n) (Fin n) ℂ) (hρ : IsDensity ρ) (hσ : IsDensity σ) :
    traceDist ρ σ ^ 2 + fid ρ σ ^ 2 ≤ 1 :=
  fvdg_upper_gen hρ.1 hσ.1 hρ.2 hσ.2

/-- **`T ≤ √(1 − F²)`** for all density operators. -/
theorem fuchs_van_de_graaf_upper (ρ σ : Matrix (Fin n) (Fin n) ℂ) (hρ : IsDensity ρ) (hσ : IsDensity σ) :
    traceDist ρ σ ≤ Real.sqrt (1 - fid ρ σ ^ 2) := by
  refine Real.le_sqrt_of_sq_le ?_
  linarith [fuchs_van_de_graaf_upper_sq ρ σ hρ hσ]

/-- The fidelity of a measured pair can only grow: for every projective measurement `{P_k}` the value of the fidelity program
is at most the classical fidelity of the outcome distributions `tr(P_k ρ)`, `tr(P_k σ)`. -/
theorem fid_le_measured {κ : Type*} [Fintype κ] [DecidableEq κ] (ρ σ : Matrix (Fin n) (Fin n) ℂ) (hρ : ρ.PosSemidef)
    (hσ : σ.PosSemidef) (P : κ → Matrix (Fin n) (Fin n) ℂ) (hP : IsPVM P) :
    fid ρ σ ≤ cFid (fun k => (P k * ρ).trace.re) (fun k => (P k * σ).trace.re) :=
  fidV_le_pvm hρ hσ hP

/-- Classical Fuchs–van de Graaf for probability vectors of every length: `1 − F ≤ T` and `T² + F² ≤ 1`, with
`0 ≤ F ≤ 1`, `F = 1 ⟺ p = q`, `T = 0 ⟺ p = q`, and the triangle inequality for `T`. -/
theorem classical_laws {ι : Type*} [Fintype ι] (p q r : ι → ℝ) (hp : IsProb p) (hq : IsProb q) :
    1 - cFid p q ≤ cTD p q ∧ cTD p q ^ 2 + cFid p q ^ 2 ≤ 1 ∧ 0 ≤ cFid p q ∧ cFid p q ≤ 1 ∧
      (cFid p q = 1 ↔ p = q) ∧ (cTD p q = 0 ↔ p = q) ∧ cTD p r ≤ cTD p q + cTD q r :=
  ⟨one_sub_cFid_le_cTD hp hq, cTD_sq_add_cFid_sq_le_one hp hq, cFid_nonneg p q, cFid_le_one hp hq,
    cFid_eq_one_iff hp hq, cTD_eq_zero_iff p q, cTD_triangle p q r⟩

/-! ## Extreme values are taken exactly on identical and on orthogonal states -/

/-- `F(ρ, σ) = 1` exactly when `ρ = σ` (density operators). -/
theorem fid_eq_one_iff (ρ σ : Matrix (Fin n) (Fin n) ℂ) (hρ : IsDensity ρ) (hσ : IsDensity σ) :
    fid ρ σ = 1 ↔ ρ = σ :=
  fidV_eq_one_iff hρ.1 hσ.1 hρ.2 hσ.2

/-- `F(ρ, σ) = 0` exactly when the supports are orthogonal, `ρ σ = 0` (density operators). -/
theorem fid_eq_zero_iff (ρ σ : Matrix (Fin n) (Fin n) ℂ) (hρ : IsDensity ρ) (hσ : IsDensity σ) :
    fid ρ σ = 0 ↔ ρ * σ = 0 :=
  fidV_eq_zero_iff hρ.1 hσ.1 hρ.2 hσ.2

/-- `T(ρ, σ) = 1` exactly when the supports are orthogonal, `ρ σ = 0` (density operators). -/
theorem traceDist_eq_one_iff (ρ σ : Matrix (Fin n) (Fin n) ℂ) (hρ : IsDensity ρ) (hσ : IsDensity σ) :
    traceDist ρ σ = 1 ↔ ρ * σ = 0 :=
  traceNormV_eq_two_iff hρ.1 hσ.1 hρ.2 hσ.2

/-! ## Commuting pairs: every measure is the classical function of the spectra -/

/-- For `ρ = U diag(p) Uᴴ`, `σ = U diag(q) Uᴴ` (common eigenbasis, `U` unitary): `T(ρ, σ) = ½ Σ |p_i − q_i|`. -/
theorem traceDist_commuting (U : Matrix (Fin n) (Fin n) ℂ) (hU : Uᴴ * U = 1) (p q : Fin n → ℝ) :
    traceDist (conjDiag U p) (conjDiag U q) = cTD p q :=
  traceNormV_sub_conjDiag hU (mul_eq_one_comm.mp hU) p q

/-- For `ρ = U diag(p) Uᴴ`, `σ = U diag(q) Uᴴ` with `p, q ≥ 0`: `F(ρ, σ) = Σ √(p_i q_i)`. -/
theorem fid_commuting (U : Matrix (Fin n) (Fin n) ℂ) (hU : Uᴴ * U = 1) (p q : Fin n → ℝ) (hp : ∀ i, 0 ≤ p i)
    (hq : ∀ i, 0 ≤ q i) : fid (conjDiag U p) (conjDiag U q) = cFid p q :=
  fidV_conjDiag hU (mul_eq_one_comm.mp hU) hp hq

/-- For a commuting pair with spectra `p, q ≥ 0` the Matsumoto fidelity (Hermitian-restricted program) is `Σ √(p_i q_i)` too
(`ρ # σ = U diag(√(p_i q_i)) Uᴴ`). -/
theorem matsumoto_commuting (U : Matrix (Fin n) (Fin n) ℂ) (hU : Uᴴ * U = 1) (p q : Fin n → ℝ) (hp : ∀ i, 0 ≤ p i)
    (hq : ∀ i, 0 ≤ q i) : matsumoto (conjDiag U p) (conjDiag U q) = cFid p q := by
  refine le_antisymm ?_ ?_
  · rw [← fid_commuting U hU p q hp hq]
    exact matsumoto_le_fid _ _ (conjDiag_posSemidef U hp) (conjDiag_posSemidef U hq)
  · have hfeas := fidFeasible_conjDiag hU hp hq
    have hmem : (conjDiag U fun i => Real.sqrt (p i) * Real.sqrt (q i)).trace.re ∈
        matsSet (conjDiag U p) (conjDiag U q) := ⟨_, conjDiag_isHermitian U _, hfeas, rfl⟩
    have hb : BddAbove (matsSet (conjDiag U p) (conjDiag U q)) := by
      refine ⟨dualVal (conjDiag U p) (conjDiag U q) 1 1, ?_⟩
      rintro x ⟨W', -, hF', rfl⟩
      exact fid_weak_duality_gen hF' fidDualFeasible_one
    have := le_csSup hb hmem
    rw [conjDiag_trace_re hU] at this
    refine le_trans (le_of_eq ?_) this
    unfold cFid
    exact Finset.sum_congr rfl fun i _ => Real.sqrt_mul (hp i) _

/-- For a commuting pair the closed form `tr √(√ρ σ √ρ)` is `Σ √(p_i q_i)` as well. -/
theorem docFidelity_commuting (U : Matrix (Fin n) (Fin n) ℂ) (hU : Uᴴ * U = 1) (p q : Fin n → ℝ) (hp : ∀ i, 0 ≤ p i)
    (hq : ∀ i, 0 ≤ q i) : docFidelity (conjDiag U p) (conjDiag U q) = cFid p q := by
  unfold docFidelity docFid
  rw [sqrt_conjDiag hU hp, conjDiag_mul hU, conjDiag_mul hU]
  have h0 : ∀ i, 0 ≤ Real.sqrt (p i) * q i * Real.sqrt (p i) := fun i =>
    mul_nonneg (mul_nonneg (Real.sqrt_nonneg _) (hq i)) (Real.sqrt_nonneg _)
  rw [sqrt_conjDiag hU h0, conjDiag_trace_re hU]
  unfold cFid
  refine Finset.sum_congr rfl fun i _ => ?_
  congr 1
  rw [show Real.sqrt (p i) * q i * Real.sqrt (p i) = (Real.sqrt (p i) * Real.sqrt (p i)) * q i by ring,
    Real.mul_self_sqrt (hp i)]

/-- For a commuting pair: `tr((ρ − σ)²) = Σ (p_i − q_i)²`, `tr(ρσ) = Σ p_i q_i`, `tr(ρσρσ) = Σ (p_i q_i)²`. -/
theorem traces_commuting (U : Matrix (Fin n) (Fin n) ℂ) (hU : Uᴴ * U = 1) (p q : Fin n → ℝ) :
    hilbertSchmidt (conjDiag U p) (conjDiag U q) = ∑ i, (p i - q i) ^ 2 ∧
    (conjDiag U p * conjDiag U q).trace.re = ∑ i, p i * q i ∧
    (conjDiag U p * conjDiag U q * (conjDiag U p * conjDiag U q)).trace.re = ∑ i, (p i * q i) ^ 2 := by
  refine ⟨?_, ?_, ?_⟩
  · unfold hilbertSchmidt hsV
    rw [conjDiag_sub, conjDiag_mul hU, conjDiag_trace_re hU]
    exact Finset.sum_congr rfl fun i _ => (sq _).symm
  · rw [conjDiag_mul hU, conjDiag_trace_re hU]
  · rw [conjDiag_mul hU, conjDiag_mul hU, conjDiag_trace_re hU]
    exact Finset.sum_congr rfl fun i _ => (sq _).symm

/-- The exact evaluators of the model on rational spectra are the measures of the commuting pair `U diag(p) Uᴴ`, `U diag(q) Uᴴ`:
`classTD` is the trace distance, `classHS` the Hilbert–Schmidt distance, `classTrProd + √classSubFidRad` the sub-fidelity. -/
theorem class_evaluators_sound (U : Matrix (Fin n) (Fin n) ℂ) (hU : Uᴴ * U = 1) (p q : Fin n → Rat) :
    traceDist (conjDiag U fun i => (p i : ℝ)) (conjDiag U fun i => (q i : ℝ)) = ((classTD p q : Rat) : ℝ) ∧
    hilbertSchmidt (conjDiag U fun i => (p i : ℝ)) (conjDiag U fun i => (q i : ℝ)) = ((classHS p q : Rat) : ℝ) ∧
    subFidelity (conjDiag U fun i => (p i : ℝ)) (conjDiag U fun i => (q i : ℝ))
      = ((classTrProd p q : Rat) : ℝ) + Real.sqrt ((classSubFidRad p q : Rat) : ℝ) := by
  obtain ⟨h1, h2, h3⟩ := traces_commuting U hU (fun i => (p i : ℝ)) (fun i => (q i : ℝ))
  refine ⟨?_, ?_, ?_⟩
  · rw [traceDist_commuting U hU, classTD_cast]
  · rw [h1, classHS_cast]
  · unfold subFidelity subFidV
    rw [h2, h3]
    unfold classSubFidRad
    rw [Rat.cast_mul, Rat.cast_sub, Rat.cast_mul, classTrProd_cast, classTrProd4_cast]
    norm_num
    ring_nf

/-- If the classical lower/upper certificate checkers accept (`s_i² ≤ p_i q_i`, resp. `p_i q_i ≤ s_i²`, `s_i ≥ 0`), the returned
sums bracket the fidelity of the commuting pair `U diag(p) Uᴴ`, `U diag(q) Uᴴ` (for spectra `p, q ≥ 0`). -/
theorem checkClassFid_sound (U : Matrix (Fin n) (Fin n) ℂ) (hU : Uᴴ * U = 1) (p q s t : Fin n → Rat) (lo hi : Rat)
    (hp : ∀ i, 0 ≤ p i) (hq : ∀ i, 0 ≤ q i) (hlo : checkClassFidLower p q s = some lo)
    (hhi : checkClassFidUpper p q t = some hi) :
    (lo : ℝ) ≤ fid (conjDiag U fun i => (p i : ℝ)) (conjDiag U fun i => (q i : ℝ)) ∧
      fid (conjDiag U fun i => (p i : ℝ)) (conjDiag U fun i => (q i : ℝ)) ≤ (hi : ℝ) := by
  rw [fid_commuting U hU _ _ (fun i => by exact_mod_cast hp i) (fun i => by exact_mod_cast hq i)]
  exact ⟨checkClassFidLower_core p q s lo hlo, checkClassFidUpper_core p q t hi hhi⟩

/-- The same bracket holds for the Matsumoto fidelity of the commuting pair. -/
theorem checkClassFid_sound_matsumoto (U : Matrix (Fin n) (Fin n) ℂ) (hU : Uᴴ * U = 1) (p q s t : Fin n → Rat) (lo hi : Rat)
    (hp : ∀ i, 0 ≤ p i) (hq : ∀ i, 0 ≤ q i) (hlo : checkClassFidLower p q s = some lo)
    (hhi : checkClassFidUpper p q t = some hi) :
    (lo : ℝ) ≤ matsumoto (conjDiag U fun i => (p i : ℝ)) (conjDiag U fun i => (q i : ℝ)) ∧
      matsumoto (conjDiag U fun i => (p i : ℝ)) (conjDiag U fun i => (q i : ℝ)) ≤ (hi : ℝ) := by
  rw [matsumoto_commuting U hU _ _ (fun i => by exact_mod_cast hp i) (fun i => by exact_mod_cast hq i)]
  exact ⟨checkClassFidLower_core p q s lo hlo, checkClassFidUpper_core p q t hi hhi⟩

/-! ## Pure states: overlap formulas -/

/-- **`F(|ψ⟩⟨ψ|, σ) = √⟨ψ|σ|ψ⟩`** for a unit vector `ψ` and positive semidefinite `σ`. -/
theorem fid_pure (ψ : Fin n → ℂ) (hψ : star ψ ⬝ᵥ ψ = 1) (σ : Matrix (Fin n) (Fin n) ℂ) (hσ : σ.PosSemidef) :
    fid (vecMulVec ψ (star ψ)) σ = Real.sqrt (star ψ ⬝ᵥ (σ *ᵥ ψ)).re := by
  unfold fid
  rw [fidV_pure (isPureProj_vecMulVec ψ hψ) hσ, trace_pure_mul]

/-- **`F(|ψ⟩⟨ψ|, |φ⟩⟨φ|) = |⟨ψ|φ⟩|`** for unit vectors. -/
theorem fid_pure_pure (ψ φ : Fin n → ℂ) (hψ : star ψ ⬝ᵥ ψ = 1) (hφ : star φ ⬝ᵥ φ = 1) :
    fid (vecMulVec ψ (star ψ)) (vecMulVec φ (star φ)) = ‖star ψ ⬝ᵥ φ‖ := by
  unfold fid
  rw [fidV_pure (isPureProj_vecMulVec ψ hψ) (isPureProj_vecMulVec φ hφ).posSemidef, trace_pure_mul_pure,
    Real.sqrt_sq (norm_nonneg _)]

/-- **`T(|ψ⟩⟨ψ|, |φ⟩⟨φ|) = √(1 − |⟨ψ|φ⟩|²)`** for unit vectors; in particular `T² + F² = 1` for pure states. -/
theorem traceDist_pure_pure (ψ φ : Fin n → ℂ) (hψ : star ψ ⬝ᵥ ψ = 1) (hφ : star φ ⬝ᵥ φ = 1) :
    traceDist (vecMulVec ψ (star ψ)) (vecMulVec φ (star φ)) = Real.sqrt (1 - ‖star ψ ⬝ᵥ φ‖ ^ 2) := by
  unfold traceDist traceNorm
  rw [traceNormV_pure_pure (isPureProj_vecMulVec ψ hψ) (isPureProj_vecMulVec φ hφ), trace_pure_mul_pure]

/-- Hilbert–Schmidt distance of two pure states: `tr((ρ − σ)²) = 2 − 2 |⟨ψ|φ⟩|²`. -/
theorem hilbertSchmidt_pure_pure (ψ φ : Fin n → ℂ) (hψ : star ψ ⬝ᵥ ψ = 1) (hφ : star φ ⬝ᵥ φ = 1) :
    hilbertSchmidt (vecMulVec ψ (star ψ)) (vecMulVec φ (star φ)) = 2 - 2 * ‖star ψ ⬝ᵥ φ‖ ^ 2 := by
  unfold hilbertSchmidt
  rw [hsV_pure_pure (isPureProj_vecMulVec ψ hψ) (isPureProj_vecMulVec φ hφ), trace_pure_mul_pure]

/-- For a pure `ρ = |ψ⟩⟨ψ|` the sub-fidelity is the overlap `⟨ψ|σ|ψ⟩`, which is `F(ρ, σ)²`. -/
theorem subFidelity_pure (ψ : Fin n → ℂ) (hψ : star ψ ⬝ᵥ ψ = 1) (σ : Matrix (Fin n) (Fin n) ℂ) (hσ : σ.PosSemidef) :
    subFidelity (vecMulVec ψ (star ψ)) σ = (star ψ ⬝ᵥ (σ *ᵥ ψ)).re ∧
      subFidelity (vecMulVec ψ (star ψ)) σ = fid (vecMulVec ψ (star ψ)) σ ^ 2 := by
  have hP := isPureProj_vecMulVec ψ hψ
  have h1 : subFidelity (vecMulVec ψ (star ψ)) σ = (star ψ ⬝ᵥ (σ *ᵥ ψ)).re := by
    unfold subFidelity
    rw [subFidV_pure hP hσ, trace_pure_mul]
  refine ⟨h1, ?_⟩
  rw [h1, fid_pure ψ hψ σ hσ, Real.sq_sqrt]
  rw [← trace_pure_mul]
  exact psd_trace_mul_nonneg hP.posSemidef hσ

/-! ## Sub-fidelity -/

/-- **`sub-fidelity ≤ F²`** for all positive semidefinite `ρ`, `σ` (Miszczak et al.), `F` the value of the fidelity program. -/
theorem subFidelity_le_fid_sq (ρ σ : Matrix (Fin n) (Fin n) ℂ) (hρ : ρ.PosSemidef) (hσ : σ.PosSemidef) :
    subFidelity ρ σ ≤ fid ρ σ ^ 2 :=
  subFidV_le_fidV_sq hρ hσ

/-- `sub-fidelity ≤ (tr √(√ρ σ √ρ))²`: the same with the closed form of the fidelity. -/
theorem subFidelity_le_docFidelity_sq (ρ σ : Matrix (Fin n) (Fin n) ℂ) (hρ : ρ.PosSemidef) (hσ : σ.PosSemidef) :
    subFidelity ρ σ ≤ docFidelity ρ σ ^ 2 :=
  subFidV_le_docFid_sq hρ hσ

/-- Symmetry of the sub-fidelity. -/
theorem subFidelity_symm (ρ σ : Matrix (Fin n) (Fin n) ℂ) : subFidelity ρ σ = subFidelity σ ρ :=
  subFidV_symm ρ σ

/-- Invariance of the sub-fidelity under a common unitary. -/
theorem subFidelity_unitary_invariant (ρ σ U : Matrix (Fin n) (Fin n) ℂ) (hU : Uᴴ * U = 1) :
    subFidelity (U * ρ * Uᴴ) (U * σ * Uᴴ) = subFidelity ρ σ :=
  subFidV_unitary_invariant hU ρ σ

/-- Orthogonal states have sub-fidelity `0`. -/
theorem subFidelity_eq_zero_of_orthogonal (ρ σ : Matrix (Fin n) (Fin n) ℂ) (h : ρ * σ = 0) : subFidelity ρ σ = 0 :=
  subFidV_of_orthogonal h

/-! ## Watrous' program and the closed form `tr √(√ρ σ √ρ)` -/

/-- The closed form is attained in the program: `tr √(√ρ σ √ρ) ≤ F(ρ, σ)` for all positive semidefinite `ρ`, `σ` (also singular). -/
theorem docFidelity_le_fid (ρ σ : Matrix (Fin n) (Fin n) ℂ) (hρ : ρ.PosSemidef) (hσ : σ.PosSemidef) :
    docFidelity ρ σ ≤ fid ρ σ :=
  docFid_le_fidV hρ hσ

/-- **Watrous' theorem: the optimal value of the program is the closed form `tr √(√ρ σ √ρ)`**, for all positive semidefinite
`ρ`, `σ` of every rank (formerly cited).  Proof: the positive definite case by the Fuchs–Caves measurement as dual certificate,
the general case by monotonicity of the program, symmetry of the closed form and an explicit continuity bound for `tr √·`. -/
theorem fid_eq_docFidelity (ρ σ : Matrix (Fin n) (Fin n) ℂ) (hρ : ρ.PosSemidef) (hσ : σ.PosSemidef) :
    fid ρ σ = docFidelity ρ σ :=
  fidV_eq_docFid hρ hσ

/-- The closed form is symmetric, `tr √(√ρ σ √ρ) = tr √(√σ ρ √σ)`; the right-hand side is the sum of the singular values of
`√ρ √σ`, i.e. the `‖√ρ √σ‖₁` of toqito's documentation. -/
theorem docFidelity_symm (ρ σ : Matrix (Fin n) (Fin n) ℂ) (hρ : ρ.PosSemidef) (hσ : σ.PosSemidef) :
    docFidelity ρ σ = docFidelity σ ρ :=
  docFid_symm hρ hσ

/-- **Closed form of the Matsumoto fidelity** (Cree–Sikora; formerly cited): for positive definite `ρ` and positive semidefinite
`σ` the Hermitian-restricted program has optimal value `tr(ρ # σ)`, with `ρ # σ = ρ^{1/2} (ρ^{-1/2} σ ρ^{-1/2})^{1/2} ρ^{1/2}` the
matrix geometric mean (`geoMean`) that toqito's `matsumoto_fidelity` evaluates.  (`ρ # σ` is feasible; every Hermitian feasible
`W` satisfies `W ≤ ρ # σ` by a Schur complement and operator monotonicity of the square root.) -/
theorem matsumoto_eq_trace_geoMean (ρ σ : Matrix (Fin n) (Fin n) ℂ) (hρ : ρ.PosDef) (hσ : σ.PosSemidef) :
    matsumoto ρ σ = (geoMean ρ σ).trace.re := by
  obtain ⟨hGH, hGF⟩ := geoMean_feasible hρ hσ
  unfold matsumoto
  refine le_antisymm (csSup_le ⟨_, _, hGH, hGF, rfl⟩ ?_) (le_csSup ?_ ⟨_, hGH, hGF, rfl⟩)
  · rintro x ⟨W, hW, hF, rfl⟩
    exact trace_le_trace_geoMean hρ hσ hW hF
  · refine ⟨dualVal ρ σ 1 1, ?_⟩
    rintro x ⟨W', -, hF', rfl⟩
    exact fid_weak_duality_gen hF' fidDualFeasible_one

/-! ## Hilbert–Schmidt distance and Helstrom–Holevo quantity: symmetry, invariance, extreme values -/

/-- Symmetry of `tr((ρ − σ)²)`. -/
theorem hilbertSchmidt_symm (ρ σ : Matrix (Fin n) (Fin n) ℂ) : hilbertSchmidt ρ σ = hilbertSchmidt σ ρ := hsV_symm ρ σ

/-- Invariance of `tr((ρ − σ)²)` under a common unitary. -/
theorem hilbertSchmidt_unitary_invariant (ρ σ U : Matrix (Fin n) (Fin n) ℂ) (hU : Uᴴ * U = 1) :
    hilbertSchmidt (U * ρ * Uᴴ) (U * σ * Uᴴ) = hilbertSchmidt ρ σ :=
  hsV_unitary_invariant hU ρ σ

/-- `tr((ρ − σ)²) = 0` exactly when `ρ = σ` (Hermitian arguments). -/
theorem hilbertSchmidt_eq_zero_iff (ρ σ : Matrix (Fin n) (Fin n) ℂ) (hρ : ρ.IsHermitian) (hσ : σ.IsHermitian) :
    hilbertSchmidt ρ σ = 0 ↔ ρ = σ :=
  hsV_eq_zero_iff hρ hσ

/-- `hsDist` of the model is `hilbertSchmidt` of the denoted matrices. -/
theorem hsDist_eq_hilbertSchmidt (ρ σ : EMat n n) : ((hsDist ρ σ : Rat) : ℝ) = hilbertSchmidt ρ.toM σ.toM :=
  hsDist_cast ρ σ

/-- Symmetry of the Helstrom–Holevo quantity. -/
theorem helstromHolevo_symm (ρ σ : Matrix (Fin n) (Fin n) ℂ) : helstromHolevo ρ σ = helstromHolevo σ ρ := by
  unfold helstromHolevo; rw [traceDist_symm]

/-- Invariance of the Helstrom–Holevo quantity under a common unitary. -/
theorem helstromHolevo_unitary_invariant (ρ σ U : Matrix (Fin n) (Fin n) ℂ) (hU : Uᴴ * U = 1) :
    helstromHolevo (U * ρ * Uᴴ) (U * σ * Uᴴ) = helstromHolevo ρ σ := by
  unfold helstromHolevo; rw [traceDist_unitary_invariant ρ σ U hU]

/-- The Helstrom–Holevo quantity is `1/2` exactly on identical and `1` exactly on orthogonal density operators; for two pure
states it is `1/2 + ½ √(1 − |⟨ψ|φ⟩|²)`. -/
theorem helstromHolevo_extreme (ρ σ : Matrix (Fin n) (Fin n) ℂ) (hρ : IsDensity ρ) (hσ : IsDensity σ) :
    (helstromHolevo ρ σ = 1 / 2 ↔ ρ = σ) ∧ (helstromHolevo ρ σ = 1 ↔ ρ * σ = 0) := by
  unfold helstromHolevo
  constructor
  · rw [← traceDist_eq_zero_iff ρ σ hρ.1.isHermitian hσ.1.isHermitian]
    constructor <;> intro h <;> linarith
  · rw [← traceDist_eq_one_iff ρ σ hρ hσ]
    constructor <;> intro h <;> linarith

/-- Helstrom–Holevo quantity of two pure states. -/
theorem helstromHolevo_pure_pure (ψ φ : Fin n → ℂ) (hψ : star ψ ⬝ᵥ ψ = 1) (hφ : star φ ⬝ᵥ φ = 1) :
    helstromHolevo (vecMulVec ψ (star ψ)) (vecMulVec φ (star φ)) = 1 / 2 + Real.sqrt (1 - ‖star ψ ⬝ᵥ φ‖ ^ 2) / 2 := by
  unfold helstromHolevo; rw [traceDist_pure_pure ψ φ hψ hφ]

/-! ## Bures distance and angle -/

/-- Symmetry of the Bures distance and angle. -/
theorem bures_symm (ρ σ : Matrix (Fin n) (Fin n) ℂ) :
    buresDistance ρ σ = buresDistance σ ρ ∧ buresAngle ρ σ = buresAngle σ ρ := by
  unfold buresDistance buresAngle; rw [fid_symm]; exact ⟨rfl, rfl⟩

/-- Invariance of the Bures distance and angle under a common unitary. -/
theorem bures_unitary_invariant (ρ σ U : Matrix (Fin n) (Fin n) ℂ) (hU : Uᴴ * U = 1) :
    buresDistance (U * ρ * Uᴴ) (U * σ * Uᴴ) = buresDistance ρ σ ∧ buresAngle (U * ρ * Uᴴ) (U * σ * Uᴴ) = buresAngle ρ σ := by
  unfold buresDistance buresAngle; rw [fid_unitary_invariant ρ σ U hU]; exact ⟨rfl, rfl⟩

/-- Range and extreme values of the Bures distance: `0 ≤ d ≤ √2`, `d = 0 ⟺ ρ = σ`, `d = √2 ⟺ ρ σ = 0`. -/
theorem buresDistance_extreme (ρ σ : Matrix (Fin n) (Fin n) ℂ) (hρ : IsDensity ρ) (hσ : IsDensity σ) :
    0 ≤ buresDistance ρ σ ∧ buresDistance ρ σ ≤ Real.sqrt 2 ∧ (buresDistance ρ σ = 0 ↔ ρ = σ) ∧
      (buresDistance ρ σ = Real.sqrt 2 ↔ ρ * σ = 0) := by
  obtain ⟨h0, h1⟩ := fid_mem_unit ρ σ hρ hσ
  unfold buresDistance
  refine ⟨Real.sqrt_nonneg _, Real.sqrt_le_sqrt (by linarith), ?_, ?_⟩
  · rw [Real.sqrt_eq_zero (by linarith), ← fid_eq_one_iff ρ σ hρ hσ]
    constructor <;> intro h <;> linarith
  · rw [← fid_eq_zero_iff ρ σ hρ hσ]
    constructor
    · intro h
      have : Real.sqrt (2 * (1 - fid ρ σ)) ^ 2 = Real.sqrt 2 ^ 2 := by rw [h]
      rw [Real.sq_sqrt (by linarith), Real.sq_sqrt (by norm_num)] at this
      linarith
    · intro h; rw [h]; norm_num

/-- Range and extreme values of the Bures angle: `0 ≤ A ≤ π/2`, `A = 0 ⟺ ρ = σ`, `A = π/2 ⟺ ρ σ = 0`. -/
theorem buresAngle_extreme (ρ σ : Matrix (Fin n) (Fin n) ℂ) (hρ : IsDensity ρ) (hσ : IsDensity σ) :
    0 ≤ buresAngle ρ σ ∧ buresAngle ρ σ ≤ Real.pi / 2 ∧ (buresAngle ρ σ = 0 ↔ ρ = σ) ∧
      (buresAngle ρ σ = Real.pi / 2 ↔ ρ * σ = 0) := by
  obtain ⟨h0, h1⟩ := fid_mem_unit ρ σ hρ hσ
  unfold buresAngle
  refine ⟨Real.arccos_nonneg _, Real.arccos_le_pi_div_two.mpr (Real.sqrt_nonneg _), ?_, ?_⟩
  · rw [Real.arccos_eq_zero, ← fid_eq_one_iff ρ σ hρ hσ]
    constructor
    · intro h
      have : (1 : ℝ) ≤ fid ρ σ := by
        have := Real.one_le_sqrt.mp h
        exact this
      linarith
    · intro h; rw [h, Real.sqrt_one]
  · rw [Real.arccos_eq_pi_div_two, Real.sqrt_eq_zero h0, fid_eq_zero_iff ρ σ hρ hσ]

/-- Bures distance and angle of two pure states: `√(2 (1 − |⟨ψ|φ⟩|))` and `arccos √|⟨ψ|φ⟩|`. -/
theorem bures_pure_pure (ψ φ : Fin n → ℂ) (hψ : star ψ ⬝ᵥ ψ = 1) (hφ : star φ ⬝ᵥ φ = 1) :
    buresDistance (vecMulVec ψ (star ψ)) (vecMulVec φ (star φ)) = Real.sqrt (2 * (1 - ‖star ψ ⬝ᵥ φ‖)) ∧
    buresAngle (vecMulVec ψ (star ψ)) (vecMulVec φ (star φ)) = Real.arccos (Real.sqrt ‖star ψ ⬝ᵥ φ‖) := by
  unfold buresDistance buresAngle; rw [fid_pure_pure ψ φ hψ hφ]; exact ⟨rfl, rfl⟩

/-- The Bures distance is antitone and the documented function of `F`: a fidelity enclosure `lo ≤ F ≤ hi` gives
`√(2(1 − hi)) ≤ d ≤ √(2(1 − lo))` and `arccos √hi ≤ A ≤ arccos √lo`. -/
theorem bures_enclosure (ρ σ : Matrix (Fin n) (Fin n) ℂ) (lo hi : ℝ) (h1 : lo ≤ fid ρ σ) (h2 : fid ρ σ ≤ hi) :
    Real.sqrt (2 * (1 - hi)) ≤ buresDistance ρ σ ∧ buresDistance ρ σ ≤ Real.sqrt (2 * (1 - lo)) ∧
    Real.arccos (Real.sqrt hi) ≤ buresAngle ρ σ ∧ buresAngle ρ σ ≤ Real.arccos (Real.sqrt lo) := by
  unfold buresDistance buresAngle
  refine ⟨Real.sqrt_le_sqrt (by linarith), Real.sqrt_le_sqrt (by linarith), ?_, ?_⟩
  · exact Real.arccos_le_arccos (Real.sqrt_le_sqrt h2)
  · exact Real.arccos_le_arccos (Real.sqrt_le_sqrt h1)

/-! ## Rounding of the fidelity inside `bures_distance` / `bures_angle` (`decimals`) -/

/-- `round(x, d)` (round half to even at `d` decimals) is a multiple of `10^{-d}` within `½·10^{-d}` of `x`, and monotone. -/
theorem roundDec_spec (x y : ℚ) (d : ℕ) :
    |roundDec x d - x| ≤ 1 / (2 * (10 : ℚ) ^ d) ∧ (∃ k : ℤ, roundDec x d * (10 : ℚ) ^ d = k) ∧
      (x ≤ y → roundDec x d ≤ roundDec y d) :=
  ⟨roundDec_sub_le x d, roundDec_mul_pow x d, fun h => roundDec_mono h d⟩

/-- If both endpoints of an enclosure round to the same value `r`, every number in the enclosure (in particular the
floating-point fidelity computed by the implementation, when it lies inside) rounds to `r`; the squared Bures distance
returned is then `2 (1 − r)`. -/
theorem roundDecEncl_sound (lo hi : ℚ) (d : ℕ) (r : ℚ) (h : roundDecEncl lo hi d = some r) (x : ℚ) (h1 : lo ≤ x)
    (h2 : x ≤ hi) : roundDec x d = r ∧ buresDistSq x d = 2 * (1 - r) := by
  have := roundDecEncl_core lo hi d r h x h1 h2
  exact ⟨this, by unfold buresDistSq; rw [this]⟩

/-! ## Argument guards -/

/-- Both guard orders compute a value exactly when the shapes agree and both arguments pass `is_density`; they differ only in
which error is reported when both checks fail. -/
theorem guards_value_iff (s a b : Bool) :
    (guardShapeFirst s a b = .value ↔ s = true ∧ a = true ∧ b = true) ∧
    (guardDensityFirst s a b = .value ↔ s = true ∧ a = true ∧ b = true) :=
  ⟨guardShapeFirst_value_iff s a b, guardDensityFirst_value_iff s a b⟩

/-- The density guard accepts every exact density operator (Hermitian, smallest eigenvalue `≥ 0`, trace exactly one), and what
it accepts is Hermitian (within tolerance) with smallest eigenvalue `≥ −10⁻⁸` and `|tr − 1| ≤ 1.001·10⁻⁵`. -/
theorem densityGuard_spec (herm : Bool) (minEig trRe trIm : ℚ) :
    (0 ≤ minEig → densityGuard true minEig 1 0 = true) ∧
    (densityGuard herm minEig trRe trIm = true →
      herm = true ∧ -(1 / 100000000 : ℚ) ≤ minEig ∧ |trRe - 1| ≤ 1001 / 100000000) :=
  ⟨densityGuard_of_exact minEig, densityGuard_accepts herm minEig trRe trIm⟩


/-! ## The checkers accept concrete instances

`ρ = |0⟩⟨0|`, `σ = |+i⟩⟨+i|` (complex, non-commuting; `‖ρ − σ‖₁ = √2`, `F = 1/√2`): a contraction with value
`60/53 ≈ 1.132` and a decomposition with value `21/13 ≈ 1.615`; a congruence certificate `X = G_ρ K G_σᴴ` with value `7/10`
and an exactly inverted dual pair with value `1137/1600 ≈ 0.7106`.  `ρ = diag(3/4, 1/4)`, `σ = [[1/2, −i/4], [i/4, 1/2]]`
(full rank; `tr(ρ # σ) ≈ 0.9258`): Matsumoto certificates with values `48/61 ≈ 0.787` and `≈ 1.126`. -/

section Examples

private def exρ : EMat 2 2 := EMat.ofRows #[#[⟨1, 0⟩, ⟨0, 0⟩], #[⟨0, 0⟩, ⟨0, 0⟩]] 2 2
private def exσ : EMat 2 2 := EMat.ofRows #[#[⟨1/2, 0⟩, ⟨0, -1/2⟩], #[⟨0, 1/2⟩, ⟨1/2, 0⟩]] 2 2

example : checkTNLower (exρ - exσ)
    (EMat.ofRows #[#[⟨30/53, 0⟩, ⟨0, 30/53⟩], #[⟨0, -30/53⟩, ⟨-30/53, 0⟩]] 2 2)
    (EMat.ofRows #[#[⟨618/1069, 0⟩, ⟨0, 0⟩], #[⟨0, 1641/1676⟩, ⟨954/1339, 0⟩]] 2 2 : EMat 2 2)
    (EMat.ofRows #[#[⟨2199/1816, 0⟩, ⟨0, 0⟩], #[⟨0, -596/1275⟩, ⟨183/538, 0⟩]] 2 2 : EMat 2 2) = some (60/53) := by decide +kernel

example : checkTNUpper (exρ - exσ)
    (EMat.ofRows #[#[⟨17/26, 0⟩, ⟨0, 1/4⟩], #[⟨0, -1/4⟩, ⟨2/13, 0⟩]] 2 2)
    (EMat.ofRows #[#[⟨2/13, 0⟩, ⟨0, -1/4⟩], #[⟨0, 1/4⟩, ⟨17/26, 0⟩]] 2 2)
    (EMat.ofRows #[#[⟨693/874, 0⟩, ⟨0, 0⟩], #[⟨0, -437/1386⟩, ⟨185/1081, 0⟩]] 2 2 : EMat 2 2)
    (EMat.ofRows #[#[⟨527/1469, 0⟩, ⟨0, 0⟩], #[⟨0, 1046/1501⟩, ⟨160/423, 0⟩]] 2 2 : EMat 2 2) = some (21/13) := by decide +kernel

example : checkFidPrimalCong exρ exσ
    (EMat.ofRows #[#[⟨7/10, 0⟩, ⟨0, -7/10⟩], #[⟨0, 0⟩, ⟨0, 0⟩]] 2 2)
    (EMat.ofRows #[#[⟨1, 0⟩, ⟨0, 0⟩], #[⟨0, 0⟩, ⟨0, 0⟩], #[⟨0, 0⟩, ⟨1, 0⟩], #[⟨0, 0⟩, ⟨0, 1⟩]] 4 2 : EMat (2 + 2) 2)
    (EMat.ofRows #[#[⟨1, 0⟩, ⟨7/10, 0⟩], #[⟨7/10, 0⟩, ⟨1/2, 0⟩]] 2 2)
    (EMat.ofRows #[#[⟨1, 0⟩, ⟨0, 0⟩], #[⟨7/10, 0⟩, ⟨0, 0⟩]] 2 2 : EMat 2 2) = some (7/10) := by decide +kernel

example : checkFidDual exρ exσ
    (EMat.ofRows #[#[⟨16/25, 0⟩, ⟨0, -16/25⟩], #[⟨0, 16/25⟩, ⟨89/100, 0⟩]] 2 2)
    (EMat.ofRows #[#[⟨89/16, 0⟩, ⟨0, 4⟩], #[⟨0, -4⟩, ⟨4, 0⟩]] 2 2)
    (EMat.ofRows #[#[⟨4/5, 0⟩, ⟨0, 0⟩], #[⟨0, 4/5⟩, ⟨1/2, 0⟩], #[⟨-5/4, 0⟩, ⟨0, -2⟩], #[⟨0, 0⟩, ⟨-2, 0⟩]] 4 2 : EMat (2 + 2) 2) = some (1137/1600) := by decide +kernel

private def exρ' : EMat 2 2 := EMat.ofRows #[#[⟨3/4, 0⟩, ⟨0, 0⟩], #[⟨0, 0⟩, ⟨1/4, 0⟩]] 2 2
private def exσ' : EMat 2 2 := EMat.ofRows #[#[⟨1/2, 0⟩, ⟨0, -1/4⟩], #[⟨0, 1/4⟩, ⟨1/2, 0⟩]] 2 2

example : checkMatsPrimal exρ' exσ'
    (EMat.ofRows #[#[⟨30/61, 0⟩, ⟨0, -6/61⟩], #[⟨0, 6/61⟩, ⟨18/61, 0⟩]] 2 2)
    (EMat.ofRows #[#[⟨1343/1573, 0⟩, ⟨0, 0⟩, ⟨0, 0⟩, ⟨0, 0⟩], #[⟨0, 0⟩, ⟨845/1766, 0⟩, ⟨0, 0⟩, ⟨0, 0⟩], #[⟨322/559, 0⟩, ⟨0, -347/1688⟩, ⟨569/1757, 0⟩, ⟨0, 0⟩], #[⟨0, 222/1927⟩, ⟨539/874, 0⟩, ⟨0, 292/1663⟩, ⟨350/1499, 0⟩]] 4 4 : EMat (2 + 2) 4) = some (48/61) := by decide +kernel

example : checkMatsDual exρ' exσ'
    (EMat.ofRows #[#[⟨56/59, 0⟩, ⟨0, -9/34⟩], #[⟨0, 9/34⟩, ⟨48/29, 0⟩]] 2 2)
    (EMat.ofRows #[#[⟨47/30, 0⟩, ⟨0, 6/17⟩], #[⟨0, -6/17⟩, ⟨55/53, 0⟩]] 2 2)
    (EMat.ofRows #[#[⟨-1, 0⟩, ⟨0, -1/7⟩], #[⟨0, -1/7⟩, ⟨-1, 0⟩]] 2 2)
    (EMat.ofRows #[#[⟨1821/1976, 0⟩, ⟨0, 0⟩, ⟨0, 0⟩, ⟨0, 0⟩], #[⟨0, 27/94⟩, ⟨1608/1325, 0⟩, ⟨0, 0⟩, ⟨0, 0⟩], #[⟨-2129/1962, 0⟩, ⟨0, -154/1107⟩, ⟨783/1507, 0⟩, ⟨0, 0⟩], #[⟨0, 275/1774⟩, ⟨-1662/1931, 0⟩, ⟨0, -170/1359⟩, ⟨459/1157, 0⟩]] 4 4 : EMat (2 + 2) 4) = some (208245887/184993320) := by decide +kernel

example : hsDist exρ exσ = 1 ∧ trProd exρ exσ = 1/2 ∧ subFidRad exρ exσ = 0 ∧
    hsInner exσ exρ = ⟨1/2, 0⟩ := by decide +kernel

/-- hypotheses of `traceDist_eq_one_of_orthogonal` and `fid_eq_zero_of_orthogonal` are satisfiable:
`ρ = |0⟩⟨0|`, `σ = |1⟩⟨1|`, `W = diag(1, −1)`, `Π = ρ` -/
example : ∃ ρ σ W : Matrix (Fin 2) (Fin 2) ℂ, IsDensity ρ ∧ IsDensity σ ∧ IsContraction W ∧
    W * ρ = ρ ∧ W * σ = -σ ∧ ρ.IsHermitian ∧ ρ * ρ = ρ ∧ ρ * σ = 0 := by
  have h0 : (0 : ℝ) ≤ 1 := zero_le_one
  have hd : ∀ a b : ℝ, 0 ≤ a → 0 ≤ b →
      (Matrix.diagonal (fun i : Fin 2 => (((if i = 0 then a else b : ℝ)) : ℂ))).PosSemidef := by
    intro a b ha hb
    refine Matrix.PosSemidef.diagonal fun i => ?_
    by_cases h : i = 0 <;> simp [h, ha, hb]
  refine ⟨Matrix.diagonal (fun i : Fin 2 => (((if i = 0 then 1 else 0 : ℝ)) : ℂ)),
    Matrix.diagonal (fun i : Fin 2 => (((if i = 0 then 0 else 1 : ℝ)) : ℂ)),
    Matrix.diagonal (fun i : Fin 2 => (((if i = 0 then 1 else -1 : ℝ)) : ℂ)),
    ⟨hd 1 0 h0 le_rfl, by simp [Matrix.trace, Fin.sum_univ_two]⟩,
    ⟨hd 0 1 le_rfl h0, by simp [Matrix.trace, Fin.sum_univ_two]⟩, ⟨?_, ?_⟩, ?_, ?_, ?_, ?_, ?_⟩
  · have : (1 : Matrix (Fin 2) (Fin 2) ℂ) - Matrix.diagonal (fun i : Fin 2 => (((if i = 0 then 1 else -1 : ℝ)) : ℂ))
        = Matrix.diagonal (fun i : Fin 2 => (((if i = 0 then 0 else 2 : ℝ)) : ℂ)) := by
      ext i j; fin_cases i <;> fin_cases j <;> simp [Matrix.diagonal] <;> norm_num
    rw [this]; exact hd 0 2 le_rfl (by norm_num)
  · have : (1 : Matrix (Fin 2) (Fin 2) ℂ) + Matrix.diagonal (fun i : Fin 2 => (((if i = 0 then 1 else -1 : ℝ)) : ℂ))
        = Matrix.diagonal (fun i : Fin 2 => (((if i = 0 then 2 else 0 : ℝ)) : ℂ)) := by
      ext i j; fin_cases i <;> fin_cases j <;> simp [Matrix.diagonal] <;> norm_num
    rw [this]; exact hd 2 0 (by norm_num) le_rfl
  · rw [Matrix.diagonal_mul_diagonal]; congr 1; ext i; fin_cases i <;> simp
  · rw [Matrix.diagonal_mul_diagonal, Matrix.diagonal_neg]; congr 1; ext i; fin_cases i <;> simp
  · exact Matrix.isHermitian_diagonal_of_self_adjoint _ (by ext i; by_cases h : i = 0 <;> simp [h])
  · rw [Matrix.diagonal_mul_diagonal]; congr 1; ext i; fin_cases i <;> simp
  · rw [Matrix.diagonal_mul_diagonal, ← Matrix.diagonal_zero]; congr 1; ext i; fin_cases i <;> simp

/-- the classical evaluators and certificate checkers on a concrete non-trivial instance (`p = (1/2, 1/3, 1/6)`, `q = (1/6, 1/3, 1/2)`;
`p = (1/2, 1/2)`, `q = (1/8, 7/8)` with `√(7/16) ∈ [33/50, 67/100]`) -/
example : isProb (n := 3) ![1/2, 1/3, 1/6] = true ∧ classTD (n := 3) ![1/2, 1/3, 1/6] ![1/6, 1/3, 1/2] = 1/3 ∧
    classHS (n := 3) ![1/2, 1/3, 1/6] ![1/6, 1/3, 1/2] = 2/9 ∧
    classTrProd (n := 3) ![1/2, 1/3, 1/6] ![1/6, 1/3, 1/2] = 5/18 ∧
    checkClassFidLower (n := 2) ![1/2, 1/2] ![1/8, 7/8] ![1/4, 33/50] = some (91/100) ∧
    checkClassFidUpper (n := 2) ![1/2, 1/2] ![1/8, 7/8] ![1/4, 67/100] = some (23/25) ∧
    checkClassFidLower (n := 2) ![1/2, 1/2] ![1/8, 7/8] ![1/4, 67/100] = none := by decide +kernel

/-- rounding: half to even (`0.125 → 0.12`, `0.375 → 0.38`), negative arguments, the default `decimals = 10`, and an enclosure
whose endpoints round differently -/
example : roundDec (1/8) 2 = 3/25 ∧ roundDec (3/8) 2 = 19/50 ∧ roundDec (-1/8) 2 = -3/25 ∧
    roundDec (99999999999/100000000000) 10 = 1 ∧ buresDistSq (7/10 + 1/3000) 3 = 3/5 ∧
    roundDecEncl (1249/10000) (1251/10000) 2 = none ∧ roundDecEncl (1251/10000) (1252/10000) 2 = some (13/100) := by
  decide +kernel

/-- guards: both checks failing is reported as `invalidDim` by the shape-first functions and as `notDensity` by the others;
a matrix with eigenvalue `−1/4`, or trace `3/2`, is rejected; deviations inside the tolerances are accepted -/
example : guardShapeFirst false false true = .invalidDim ∧ guardDensityFirst false false true = .notDensity ∧
    guardShapeFirst true true true = .value ∧ densityGuard true (-1/4) 1 0 = false ∧ densityGuard true 0 (3/2) 0 = false ∧
    densityGuard false 0 1 0 = false ∧ densityGuard true (-1/200000000) (1 + 1/200000) 0 = true := by decide +kernel

/-- hypotheses of the pure-state theorems are satisfiable: `ψ = |0⟩`, `φ = |+i⟩`-like unit vectors exist; the measurement in
the computational basis is a projective measurement -/
example : ∃ ψ : Fin 2 → ℂ, star ψ ⬝ᵥ ψ = 1 ∧ IsPureProj (vecMulVec ψ (star ψ)) ∧
    IsPVM (fun i : Fin 2 => conjDiag (1 : Matrix (Fin 2) (Fin 2) ℂ) (ind i)) := by
  have h : star (![1, 0] : Fin 2 → ℂ) ⬝ᵥ ![1, 0] = 1 := by simp [dotProduct, Fin.sum_univ_two]
  exact ⟨![1, 0], h, isPureProj_vecMulVec _ h, isPVM_basis (by simp) (by simp)⟩

/-- a positive definite density operator (`ρ = diag(3/4, 1/4)`): the hypotheses of the density-operator theorems above are
satisfiable on a full-rank instance as well as on the pure and orthogonal ones shown before -/
example : ∃ ρ : Matrix (Fin 2) (Fin 2) ℂ, ρ.PosDef ∧ IsDensity ρ := by
  have hd : (Matrix.diagonal (fun i : Fin 2 => (((if i = 0 then 3 / 4 else 1 / 4 : ℝ)) : ℂ))).PosDef := by
    refine Matrix.PosDef.diagonal fun i => ?_
    by_cases h : i = 0 <;> simp [h]
  exact ⟨_, hd, hd.posSemidef, by simp [Matrix.trace, Fin.sum_univ_two]; norm_num⟩

end Examples

/-! ## The fidelity of separability (`fidelity_of_separability`, state version)

The program the function builds at level `k = ℓ + 1` for local dimensions `[dA, dB]` is `Toq.Metrics.FosFeasible` (constraints) with
objective `Re tr X` (`fos_objective_is_re_trace`); an operator on `A ⊗ B^{⊗k}` is a matrix indexed by `Fin dA × (Fin k → Fin dB)`.  The
function returns the SQUARE of the optimal value (`fosValue`).  The executable model of the same program on flat indices is
`Toq.Metrics.fosExprs`; the harness compares it with the program picos is handed on every run (stream `fos_embedding`), and
`fosExprs_refines` proves that it computes the expressions of `FosFeasible`. -/

section FidelityOfSeparability
open Toq.PPTDisc
open scoped Kronecker Toq.ChannelOps

variable {dA dB : ℕ}

/-- the value `fidelity_of_separability(ρ, [dA, dB], k = ℓ + 1)` returns: `solution.value ** 2` -/
noncomputable def fosValue (ℓ : ℕ) (ρ : Matrix (Fin dA × Fin dB) (Fin dA × Fin dB) ℂ) : ℝ := fosV ℓ ρ ^ 2

/-- **The objective.**  `0.5 * trace(X + X.H)` is the real number `Re tr X`. -/
theorem fos_objective_is_re_trace (X : Matrix (Fin dA × Fin dB) (Fin dA × Fin dB) ℂ) :
    (1 / 2 : ℂ) * (X + Xᴴ).trace = ((X.trace.re : ℝ) : ℂ) := by
  apply Complex.ext
  · rw [fos_objective_eq]; simp
  · rw [fos_objective_im]; simp

/-- **Every pure product state is feasible with objective one, at every level.**  For unit vectors `a ∈ ℂ^dA`, `b ∈ ℂ^dB` and every
`k = ℓ + 1 ≥ 1` the point `σ = a aᴴ ⊗ (b bᴴ)^{⊗k}`, `X = ρ = a aᴴ ⊗ b bᴴ` satisfies every constraint the code adds — the block
matrix `[[ρ, X], [Xᴴ, tr_{B₂…B_k} σ]]`, `σ ⪰ 0`, `tr σ = 1`, `(1 ⊗ Π_sym) σ (1 ⊗ Π_sym) = σ`, `T_{B₁…B_j} σ ⪰ 0` for `j < k` — and
its objective value `Re tr X` is `1`. -/
theorem fos_product_feasible (ℓ : ℕ) (a : Fin dA → ℂ) (b : Fin dB → ℂ) (ha : a ⬝ᵥ star a = 1) (hb : b ⬝ᵥ star b = 1) :
    FosFeasible ℓ (fosProdRho a b) (fosProdRho a b) (fosProdSigma ℓ a b) ∧ (fosProdRho a b).trace.re = 1 :=
  ⟨fosFeasible_product ℓ a b ha hb, by rw [fosProdRho_trace a b ha hb]; rfl⟩

/-- **No feasible point exceeds one.**  For every density operator `ρ` on `A ⊗ B` (pure or not, separable or not), every level and
every feasible point `(X, σ)` of the program, the objective `Re tr X` is at most `1` (weak duality of Watrous' fidelity program with
the dual point `Y = Z = 1`, using the block constraint and `tr σ = 1`). -/
theorem fos_objective_le_one {ℓ : ℕ} {ρ X : Matrix (Fin dA × Fin dB) (Fin dA × Fin dB) ℂ}
    {σ : Matrix (HIdx (Fin dA) dB (ℓ + 1)) (HIdx (Fin dA) dB (ℓ + 1)) ℂ} (h : FosFeasible ℓ ρ X σ) (tρ : ρ.trace = 1) :
    X.trace.re ≤ 1 :=
  h.objective_le_one tρ

/-- **The fidelity of separability of every pure product state is 1 at every extension level.**  The optimal value of the program is
exactly `1` and is attained (at the product point), so the returned value `solution.value ** 2` is `1`. -/
theorem fos_optimum_product (ℓ : ℕ) (a : Fin dA → ℂ) (b : Fin dB → ℂ) (ha : a ⬝ᵥ star a = 1) (hb : b ⬝ᵥ star b = 1) :
    IsGreatest (fosSet ℓ (fosProdRho a b)) 1 ∧ fosV ℓ (fosProdRho a b) = 1 ∧ fosValue ℓ (fosProdRho a b) = 1 := by
  refine ⟨fos_isGreatest_product ℓ a b ha hb, fosV_product ℓ a b ha hb, ?_⟩
  unfold fosValue
  rw [fosV_product ℓ a b ha hb]; norm_num

/-- the pure product state of the theorems above is the rank-one projector onto `a ⊗ b` -/
theorem fos_product_state_pure (a : Fin dA → ℂ) (b : Fin dB → ℂ) :
    fosProdRho a b = vecMulVec (fun i : Fin dA × Fin dB => a i.1 * b i.2) (star fun i : Fin dA × Fin dB => a i.1 * b i.2) :=
  fosProdRho_eq_vecMulVec a b

/-- **Range of the value.**  For every density operator `ρ` on `A ⊗ B` (`dA, dB ≥ 1`) and every level the program is feasible
(`X = 0` with any product extension), its optimal value lies in `[0, 1]`, and so does the returned square. -/
theorem fos_value_bounds (ℓ : ℕ) (hA : 0 < dA) (hB : 0 < dB) {ρ : Matrix (Fin dA × Fin dB) (Fin dA × Fin dB) ℂ}
    (hρ : ρ.PosSemidef) (tρ : ρ.trace = 1) :
    0 ≤ fosV ℓ ρ ∧ fosV ℓ ρ ≤ 1 ∧ 0 ≤ fosValue ℓ ρ ∧ fosValue ℓ ρ ≤ 1 := by
  haveI : Nonempty (Fin dA) := ⟨⟨0, hA⟩⟩
  obtain ⟨h0, h1⟩ := fosV_mem_Icc ℓ hB hρ tρ
  refine ⟨h0, h1, ?_, ?_⟩
  · unfold fosValue; positivity
  · unfold fosValue; nlinarith

/-- **Objective one is attained exactly by the operators that have an extension obeying the constraints.**  For a density operator `ρ`:
some feasible point has objective `1` iff there is `σ ⪰ 0` on `A ⊗ B^{⊗k}`, supported on the symmetric subspace of the copies, with
`T_{B₁…B_j} σ ⪰ 0` for `j < k`, whose `A B₁`-marginal is `ρ` (then `X = ρ` does it; conversely objective `1` forces fidelity `1`
between `ρ` and the marginal, hence equality: `fid_eq_one_iff`). -/
theorem fos_value_one_iff_extendible {ℓ : ℕ} {ρ : Matrix (Fin dA × Fin dB) (Fin dA × Fin dB) ℂ} (hρ : ρ.PosSemidef)
    (tρ : ρ.trace = 1) :
    (∃ X σ, FosFeasible ℓ ρ X σ ∧ X.trace.re = 1) ↔
      ∃ σ : Matrix (HIdx (Fin dA) dB (ℓ + 1)) (HIdx (Fin dA) dB (ℓ + 1)) ℂ, σ.PosSemidef ∧ marg1 ℓ σ = ρ ∧
        ((1 : Matrix (Fin dA) (Fin dA) ℂ) ⊗ₖ symPC dB (ℓ + 1)) * σ * ((1 : Matrix (Fin dA) (Fin dA) ℂ) ⊗ₖ symPC dB (ℓ + 1)) = σ ∧
        ∀ j : ℕ, 1 ≤ j → j ≤ ℓ → (pTYs (fun t : Fin (ℓ + 1) => (t : ℕ) < j) σ).PosSemidef :=
  fos_attains_one_iff hρ tρ

/-- **Monotone in the level.**  Tracing out the last copy of `B` maps a feasible point of level `k + 1` to a feasible point of level `k`
with the same `X`; hence the optimal value does not increase with the level. -/
theorem fos_level_monotone {ℓ : ℕ} {ρ : Matrix (Fin dA × Fin dB) (Fin dA × Fin dB) ℂ} (tρ : ρ.trace = 1) :
    (∀ X σ, FosFeasible (ℓ + 1) ρ X σ → FosFeasible ℓ ρ X (margLast σ)) ∧
      ((fosSet (ℓ + 1) ρ).Nonempty → fosV (ℓ + 1) ρ ≤ fosV ℓ ρ) :=
  ⟨fun _ _ h => h.pred, fosV_succ_le ℓ tρ⟩

/-- **For pure states the PPT criterion is exact.**  The projector onto `ψ ∈ ℂ^dA ⊗ ℂ^dB` has a positive semidefinite partial transpose —
the first test of `is_separable`, which `fidelity_of_separability` consults after `is_pure` — iff `ψ = a ⊗ b` is a product vector.  So a pure
state is accepted only if it is a product state, and rejecting the pure states that fail the test ("Provided input state is entangled")
rejects no product state. -/
theorem pure_state_ppt_iff_product (ψ : Fin dA × Fin dB → ℂ) :
    (pTAp (vecMulVec ψ (star ψ))).PosSemidef ↔ ∃ (a : Fin dA → ℂ) (b : Fin dB → ℂ), ∀ i, ψ i = a i.1 * b i.2 :=
  pure_ppt_iff_product ψ

/-- **Every pure state the PPT test lets through has fidelity of separability 1 at every level**: for a unit vector `ψ` whose projector
has a positive semidefinite partial transpose, the optimum of the program is `1`, it is attained, and the returned square is `1`. -/
theorem fos_value_pure_ppt (ℓ : ℕ) (ψ : Fin dA × Fin dB → ℂ) (hψ : ψ ⬝ᵥ star ψ = 1)
    (h : (pTAp (vecMulVec ψ (star ψ))).PosSemidef) :
    IsGreatest (fosSet ℓ (vecMulVec ψ (star ψ))) 1 ∧ fosValue ℓ (vecMulVec ψ (star ψ)) = 1 := by
  obtain ⟨h1, h2⟩ := fosV_pure_ppt ℓ ψ hψ h
  refine ⟨h1, ?_⟩
  unfold fosValue
  rw [h2]; norm_num

/-- the (unnormalised) Bell vector `|00⟩ + |11⟩` fails the test: its `2 × 2` minor is `1 · 1 − 0 · 0 ≠ 0` -/
example : ¬ (pTAp (vecMulVec (fun i : Fin 2 × Fin 2 => if i.1 = i.2 then (1 : ℂ) else 0)
    (star fun i : Fin 2 × Fin 2 => if i.1 = i.2 then (1 : ℂ) else 0))).PosSemidef := by
  intro h
  have := minors_eq_zero_of_ppt_pure _ h 0 1 0 1
  simp at this

/-- **Which inputs are accepted.**  The program is built and solved exactly when `is_density(ρ)` holds, `dims` has length two, `is_pure(ρ)`
holds, `is_separable(ρ, dims)` returns `True`, and the two dimensions multiply to the size of `ρ`. -/
theorem fosGuard_solve_iff (density : Bool) (dimsLen : Nat) (pure : Bool) (sep : FosSepVerdict) (prodOk : Bool) :
    fosGuard density dimsLen pure sep prodOk = .solve ↔
      density = true ∧ dimsLen = 2 ∧ pure = true ∧ sep = .separable ∧ prodOk = true := by
  unfold fosGuard
  cases density <;> cases pure <;> cases sep <;> cases prodOk <;> by_cases h : dimsLen = 2 <;> simp [h]

/-- **Mixed or non-density inputs are rejected**, and with which error: a non-density input always ends in
`ValueError("… not a density matrix.")` (whatever `dims` is); a density operator with a `dims` list of another length than two ends in the
`AssertionError`; a density operator with two dimensions that is not pure ends in `ValueError("… only works for pure states.")`; a pure
state is rejected as entangled exactly when `is_separable` returns `False`, and an exception inside `is_separable` propagates. -/
theorem fosGuard_rejects (density : Bool) (dimsLen : Nat) (pure : Bool) (sep : FosSepVerdict) (prodOk : Bool) :
    (density = false → fosGuard density dimsLen pure sep prodOk = .notDensity) ∧
    (density = true → dimsLen ≠ 2 → fosGuard density dimsLen pure sep prodOk = .notBipartite) ∧
    (density = true → dimsLen = 2 → pure = false → fosGuard density dimsLen pure sep prodOk = .notPure) ∧
    (density = true → dimsLen = 2 → pure = true → sep = .entangled → fosGuard density dimsLen pure sep prodOk = .entangled) ∧
    (density = true → dimsLen = 2 → pure = true → sep = .raises → fosGuard density dimsLen pure sep prodOk = .sepError) ∧
    (density = true → dimsLen = 2 → pure = true → sep = .separable → prodOk = false →
      fosGuard density dimsLen pure sep prodOk = .buildError) := by
  unfold fosGuard
  refine ⟨?_, ?_, ?_, ?_, ?_, ?_⟩ <;> intros <;> simp_all

/-- `is_pure` as a predicate on the largest eigenvalue `λ = re + i·im`: `|λ − 1| ≤ 1e-8 + 1e-5` (`np.allclose(λ, 1)`) -/
theorem fosPureGuard_spec (re im : ℚ) :
    fosPureGuard re im = true ↔ (re - 1) ^ 2 + im ^ 2 ≤ (1 / 100000000 + 1 / 100000 : ℚ) ^ 2 := by
  unfold fosPureGuard
  rw [decide_eq_true_eq]
  constructor <;> intro h <;> nlinarith [h]

/-- what the dimensions alone decide about `is_separable(ρ, [dA, dB])` for an `n × n` matrix: a one-dimensional factor returns `True`
(even when `dA · dB ≠ n`), otherwise a product different from `n` raises, otherwise the separability criteria are consulted -/
theorem fosSepHead_spec (n dA' dB' : Nat) :
    (min dA' dB' = 1 → fosSepHead n dA' dB' = some .separable) ∧
    (min dA' dB' ≠ 1 → dA' * dB' ≠ n → fosSepHead n dA' dB' = some .raises) ∧
    (min dA' dB' ≠ 1 → dA' * dB' = n → fosSepHead n dA' dB' = none) := by
  unfold fosSepHead
  refine ⟨?_, ?_, ?_⟩ <;> intros <;> simp_all

/-- the hypotheses of the product-state theorems are satisfiable on a genuinely complex instance with unequal dimensions:
`a = (3/5, 4i/5) ∈ ℂ²`, `b = (0, i, 0) ∈ ℂ³` are unit vectors -/
example : ∃ (a : Fin 2 → ℂ) (b : Fin 3 → ℂ), a ⬝ᵥ star a = 1 ∧ b ⬝ᵥ star b = 1 ∧ a 1 ≠ star (a 1) := by
  refine ⟨![3 / 5, 4 / 5 * Complex.I], ![0, Complex.I, 0], ?_, ?_, ?_⟩
  · simp only [dotProduct, Fin.sum_univ_two, Pi.star_apply, Matrix.cons_val_zero, Matrix.cons_val_one]
    apply Complex.ext
    · simp; norm_num
    · simp
  · simp [dotProduct, Fin.sum_univ_three]
  · intro h
    have := congrArg Complex.im h
    simp at this
    norm_num at this

/-- the guard model on concrete inputs: a pure product state with two dimensions is solved; a mixed state is rejected as not pure also when it is
separable; a non-density input is rejected first even if `dims` is malformed too; `dims = [4, 1]` accepts every pure state on `ℂ⁴`
(`is_separable` returns `True` for a one-dimensional factor); eigenvalue `1 − 4·10⁻⁵` is not pure, `1 − 5·10⁻⁶` is -/
example : fosGuard true 2 true .separable true = .solve ∧ fosGuard true 2 false .separable true = .notPure ∧
    fosGuard false 3 false .raises false = .notDensity ∧ fosGuard true 3 true .separable true = .notBipartite ∧
    fosGuard true 2 true .entangled true = .entangled ∧ fosSepHead 4 4 1 = some .separable ∧ fosSepHead 4 2 3 = some .raises ∧
    fosSepHead 6 2 3 = none ∧ fosPureGuard (1 - 4 / 100000) 0 = false ∧ fosPureGuard (1 - 5 / 1000000) 0 = true := by
  decide +kernel

/-- **The executable model computes the expressions of the program.**  Flat (tensor-order) data `ρN`, `XN`, `σN` denote the operators
`ofFlatAB ρN`, `ofFlatAB XN` on `A ⊗ B` and `ofFlat k σN` on `A ⊗ B^{⊗k}` (`encAB`, `encH`: big-endian digits with radices `[dA, dB, …, dB]`).
For every `dA`, every `dB ≥ 1` and every level `k = ℓ + 1` the model `fosExprs`, read over `ℂ`, returns: the block matrix
`[[ρ, X], [Xᴴ, tr_{B₂…B_k} σ]]`; `tr σ`; `(k!)²` times the residual `(1 ⊗ Π_sym) σ (1 ⊗ Π_sym) − σ` of the symmetric-subspace equation with
toqito's own `symmetric_projection` (mirror model of C18); the list of the `k − 1` partial transposes `T_{B₁…B_j} σ`, `j = 1 … k − 1`; and
`tr(X + Xᴴ)`, twice the objective. -/
theorem fosExprs_refines (hd : 0 < dB) (ℓ : ℕ) (ρN XN σN : ℕ → ℕ → ℂ) :
    ofFlatS (dA := dA) (d := dB) (fosExprsC dA dB (ℓ + 1) ρN XN σN).block
        = Matrix.fromBlocks (ofFlatAB ρN) (ofFlatAB XN) (ofFlatAB XN)ᴴ (marg1 ℓ (ofFlat (ℓ + 1) σN)) ∧
    (fosExprsC dA dB (ℓ + 1) ρN XN σN).sigma = σN ∧
    (fosExprsC dA dB (ℓ + 1) ρN XN σN).trace = (ofFlat (dA := dA) (d := dB) (ℓ + 1) σN).trace ∧
    ofFlat (dA := dA) (d := dB) (ℓ + 1) (fosExprsC dA dB (ℓ + 1) ρN XN σN).symRes
        = (((ℓ + 1).factorial : ℂ) * ((ℓ + 1).factorial : ℂ)) •
          (((1 : Matrix (Fin dA) (Fin dA) ℂ) ⊗ₖ symPC dB (ℓ + 1)) * ofFlat (ℓ + 1) σN * ((1 : Matrix (Fin dA) (Fin dA) ℂ) ⊗ₖ symPC dB (ℓ + 1))
            - ofFlat (ℓ + 1) σN) ∧
    (fosExprsC dA dB (ℓ + 1) ρN XN σN).pts = (List.range' 1 ℓ).map (fun j => fosPT dA dB (ℓ + 1) j σN) ∧
    (∀ j, ofFlat (dA := dA) (d := dB) (ℓ + 1) (fosPT dA dB (ℓ + 1) j σN)
        = pTYs (fun t : Fin (ℓ + 1) => (t : ℕ) < j) (ofFlat (ℓ + 1) σN)) ∧
    (fosExprsC dA dB (ℓ + 1) ρN XN σN).obj2 = (ofFlatAB (dA := dA) (d := dB) XN + (ofFlatAB XN)ᴴ).trace :=
  ⟨fosExprsC_block ℓ ρN XN σN, rfl, fosExprsC_trace ℓ ρN XN σN, fosExprsC_sym hd ℓ ρN XN σN, fosExprsC_pts ℓ ρN XN σN,
    fun j => fosExprsC_pt ℓ j σN, fosExprsC_obj (ℓ + 1) ρN XN σN⟩

/-- **The model decides feasibility.**  The point denoted by flat data `(XN, σN)` is a feasible point of the program of the operator
denoted by `ρN` exactly when the model's block matrix, `σ` and every partial transpose in its list denote positive semidefinite
operators, its trace expression is `1`, and its symmetric-subspace residual is `0` — these are the quantities the driver operation
`c13_fos_exprs` returns and the harness compares with the program picos is handed. -/
theorem fosExprs_feasible_iff (hd : 0 < dB) (ℓ : ℕ) (ρN XN σN : ℕ → ℕ → ℂ) :
    FosFeasible ℓ (ofFlatAB (dA := dA) (d := dB) ρN) (ofFlatAB XN) (ofFlat (ℓ + 1) σN) ↔
      (ofFlatS (dA := dA) (d := dB) (fosExprsC dA dB (ℓ + 1) ρN XN σN).block).PosSemidef ∧
      (ofFlat (dA := dA) (d := dB) (ℓ + 1) (fosExprsC dA dB (ℓ + 1) ρN XN σN).sigma).PosSemidef ∧
      (fosExprsC dA dB (ℓ + 1) ρN XN σN).trace = 1 ∧
      ofFlat (dA := dA) (d := dB) (ℓ + 1) (fosExprsC dA dB (ℓ + 1) ρN XN σN).symRes = 0 ∧
      ∀ P ∈ (fosExprsC dA dB (ℓ + 1) ρN XN σN).pts, (ofFlat (dA := dA) (d := dB) (ℓ + 1) P).PosSemidef :=
  fosFeasible_iff_model hd ℓ ρN XN σN

/-- **The product point of the driver is the product point of the theorems.**  The flat matrix `s_j s_jᴴ`, `s_j = a ⊗ conj(b)^{⊗j} ⊗ b^{⊗(k−j)}`
(`fosProdVec`, `fosOuter`: what `c13_fos_product` builds and compares the model's expressions with) denotes
`a aᴴ ⊗ (conj(b) conj(b)ᴴ)^{⊗j} ⊗ (b bᴴ)^{⊗(k−j)}`, which is the partial transpose on `B₁…B_j` of the product point `σ = a aᴴ ⊗ (b bᴴ)^{⊗k}`
of `fos_product_feasible` (`j = 0`: the point itself). -/
theorem fosProductPoint_model (ℓ j : ℕ) (aN bN : ℕ → ℂ) :
    ofFlat (dA := dA) (d := dB) (ℓ + 1) (fosOuter (fosProdVec dB aN bN j (ℓ + 1)))
        = pTYs (fun t : Fin (ℓ + 1) => (t : ℕ) < j) (fosProdSigma ℓ (fun x : Fin dA => aN x) (fun y : Fin dB => bN y)) ∧
    ofFlat (dA := dA) (d := dB) (ℓ + 1) (fosOuter (fosProdVec dB aN bN 0 (ℓ + 1)))
        = fosProdSigma ℓ (fun x : Fin dA => aN x) (fun y : Fin dB => bN y) := by
  refine ⟨?_, ofFlat_fosProdSigma ℓ aN bN⟩
  rw [ofFlat_fosOuter_prodVec]
  unfold fosProdSigma
  rw [pTYs_prodExt]

/-- the flat index is the usual one: `(a, (y₁, y₂)) ↦ (a · dB + y₁) · dB + y₂`, below `dA · dB²`, and injective -/
example : encH (dA := 2) (d := 3) (L := 2) ((1, ![2, 0]) : HIdx (Fin 2) 3 2) = 15 ∧
    (∀ i : HIdx (Fin 2) 3 2, encH i < 2 * 3 ^ 2) ∧ Function.Injective (encH (dA := 2) (d := 3) (L := 2)) := by
  refine ⟨by decide, fun i => ?_, encH_inj⟩
  rw [← prodN_fosDims]; exact encH_lt i

end FidelityOfSeparability

end Toq.C13
