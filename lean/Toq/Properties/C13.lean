import Toq.Proofs.Metrics
/-!
# C13 — state distance and fidelity measures: variational definitions, laws, certificate checkers

Everything is stated over `Matrix (Fin n) (Fin n) ℂ` with Mathlib's `Matrix.PosSemidef`.  The executable
checkers (`Toq.Model.Metrics`) work over exact Gaussian rationals; `EMat.toM` is the denotation of an
exact matrix, `Rat.cast` that of an exact number.

**Trace norm / trace distance.**  `IsContraction W` means `1 − W ⪰ 0` and `1 + W ⪰ 0` (so `W` is Hermitian
with spectrum in `[−1, 1]`).  The trace norm of a Hermitian `H` is taken in its max form
`traceNorm H = sup { Re tr(W H) : W contraction }`, and `traceDist ρ σ = traceNorm (ρ − σ) / 2`
(toqito: `trace_norm`, `trace_distance`, `helstrom_holevo = 1/2 + traceDist / 2`).  The min form
`min { tr P + tr Q : H = P − Q, P, Q ⪰ 0 }` gives the upper bounds (weak duality is proved here; that both
forms are attained and equal `Σ|λ_i(H)|` — the singular-value definition used by `numpy.linalg.norm(·, "nuc")` —
is the standard fact **cited, not proved**).

**Fidelity.**  `fid ρ σ` is the optimal value of Watrous' semidefinite program,
`sup { Re tr X : [[ρ, X], [Xᴴ, σ]] ⪰ 0 }`; its dual is `inf { (tr(Yρ) + tr(Zσ))/2 : [[Y, −1], [−1, Z]] ⪰ 0 }`.
toqito's `fidelity` returns the *root* fidelity `‖√ρ √σ‖₁ = tr √(√ρ σ √ρ)`; that this equals the optimal value of
the program (Watrous, TQI Thm 3.17 / "Simpler semidefinite programs for completely bounded norms") is **cited, not
proved**.  `matsumoto ρ σ` is the same program restricted to Hermitian `X`; that it equals `tr(ρ # σ)` for
invertible states (Cree–Sikora) is **cited, not proved**.

Also cited, not proved: the Fuchs–van de Graaf inequalities `1 − F ≤ T ≤ √(1 − F²)`, `sub-fidelity ≤ F²`
(Miszczak et al.), and the closed forms of the Bures distance/angle, which are monotone functions of `F`
(the harness applies them to the endpoints of the certified enclosure of `F`).
-/

open Matrix
open scoped ComplexOrder MatrixOrder

namespace Toq.C13
open Toq.Metrics EMat

variable {n k r r' : Nat}

/-! ## The mathematical quantities -/

/-- density operator: positive semidefinite with unit trace -/
def IsDensity (ρ : Matrix (Fin n) (Fin n) ℂ) : Prop := ρ.PosSemidef ∧ ρ.trace = 1

/-- trace norm (max form) `sup { Re tr(W H) : −1 ⪯ W ⪯ 1 }` -/
noncomputable def traceNorm (H : Matrix (Fin n) (Fin n) ℂ) : ℝ := traceNormV H

/-- trace distance `‖ρ − σ‖₁ / 2` -/
noncomputable def traceDist (ρ σ : Matrix (Fin n) (Fin n) ℂ) : ℝ := traceNorm (ρ - σ) / 2

/-- Helstrom–Holevo optimal success probability for two equiprobable states: `1/2 + ‖ρ − σ‖₁ / 4` -/
noncomputable def helstromHolevo (ρ σ : Matrix (Fin n) (Fin n) ℂ) : ℝ := 1 / 2 + traceDist ρ σ / 2

/-- (root) fidelity as the optimal value of Watrous' program -/
noncomputable def fid (ρ σ : Matrix (Fin n) (Fin n) ℂ) : ℝ := fidV ρ σ

/-- the values `Re tr W` over all Hermitian feasible `W` -/
def matsSet (ρ σ : Matrix (Fin n) (Fin n) ℂ) : Set ℝ :=
  {x | ∃ W, W.IsHermitian ∧ FidFeasible ρ σ W ∧ W.trace.re = x}

/-- Matsumoto fidelity as the optimal value of the Hermitian-restricted program -/
noncomputable def matsumoto (ρ σ : Matrix (Fin n) (Fin n) ℂ) : ℝ := sSup (matsSet ρ σ)

/-! ## Trace norm: weak duality and certificate checkers -/

/-- Weak duality of the two variational forms: for every decomposition `H = P − Q` into positive
semidefinite parts and every contraction `W`, `Re tr(W H) ≤ tr P + tr Q`. -/
theorem traceNorm_weak_duality (H P Q W : Matrix (Fin n) (Fin n) ℂ) (hP : P.PosSemidef)
    (hQ : Q.PosSemidef) (hH : H = P - Q) (hW : IsContraction W) :
    (W * H).trace.re ≤ P.trace.re + Q.trace.re :=
  traceNorm_weak_duality_gen hP hQ hH hW

/-- If the lower-bound checker accepts with value `lo`, then `H` is Hermitian, `W` is a contraction with
`Re tr(W H) = lo`; hence `lo ≤ ‖H‖₁` (max form) and every decomposition `H = P − Q` has `tr P + tr Q ≥ lo`. -/
theorem checkTNLower_sound (H W : EMat n n) (L1 : EMat n r) (L2 : EMat n r') (lo : Rat)
    (h : checkTNLower H W L1 L2 = some lo) :
    IsContraction W.toM ∧ (W.toM * H.toM).trace.re = (lo : ℝ) ∧ (lo : ℝ) ≤ traceNorm H.toM ∧
      ∀ P Q : Matrix (Fin n) (Fin n) ℂ, P.PosSemidef → Q.PosSemidef → H.toM = P - Q →
        (lo : ℝ) ≤ P.trace.re + Q.trace.re := by
  obtain ⟨hH, hW, hv⟩ := checkTNLower_core H W L1 L2 lo h
  refine ⟨hW, hv, ?_, fun P Q hP hQ hPQ => ?_⟩
  · rw [← hv]; exact le_traceNormV_gen hH hW
  · rw [← hv]; exact traceNorm_weak_duality_gen hP hQ hPQ hW

/-- If the upper-bound checker accepts with value `hi`, then `H = P − Q` with `P, Q ⪰ 0` and
`tr P + tr Q = hi`; hence every contraction `W` has `Re tr(W H) ≤ hi`, and `‖H‖₁ ≤ hi`. -/
theorem checkTNUpper_sound (H P Q : EMat n n) (LP : EMat n r) (LQ : EMat n r') (hi : Rat)
    (h : checkTNUpper H P Q LP LQ = some hi) :
    (P.toM.PosSemidef ∧ Q.toM.PosSemidef ∧ H.toM = P.toM - Q.toM ∧
      P.toM.trace.re + Q.toM.trace.re = (hi : ℝ)) ∧
    (∀ W : Matrix (Fin n) (Fin n) ℂ, IsContraction W → (W * H.toM).trace.re ≤ (hi : ℝ)) ∧
    traceNorm H.toM ≤ (hi : ℝ) := by
  obtain ⟨hP, hQ, hPQ, hv⟩ := checkTNUpper_core H P Q LP LQ hi h
  refine ⟨⟨hP, hQ, hPQ, hv⟩, fun W hW => ?_, ?_⟩
  · rw [← hv]; exact traceNorm_weak_duality_gen hP hQ hPQ hW
  · rw [← hv]; exact traceNormV_le_gen hP hQ hPQ

/-- Accepted lower and upper certificates bracket the trace norm. -/
theorem traceNorm_lo_le_hi (H W P Q : EMat n n) (L1 L2 LP LQ : EMat n r) (lo hi : Rat)
    (hlo : checkTNLower H W L1 L2 = some lo) (hhi : checkTNUpper H P Q LP LQ = some hi) :
    (lo : ℝ) ≤ traceNorm H.toM ∧ traceNorm H.toM ≤ (hi : ℝ) :=
  ⟨(checkTNLower_sound H W L1 L2 lo hlo).2.2.1, (checkTNUpper_sound H P Q LP LQ hi hhi).2.2⟩

/-! ## Trace distance is a metric, bounded by 1, unitarily invariant -/

/-- Symmetry: `T(ρ, σ) = T(σ, ρ)` (via `W ↦ −W`). -/
theorem traceDist_symm (ρ σ : Matrix (Fin n) (Fin n) ℂ) : traceDist ρ σ = traceDist σ ρ := by
  unfold traceDist traceNorm traceNormV
  rw [← neg_sub σ ρ, tnSet_neg]

/-- Invariance under a common unitary: `T(UρUᴴ, UσUᴴ) = T(ρ, σ)`. -/
theorem traceDist_unitary_invariant (ρ σ U : Matrix (Fin n) (Fin n) ℂ) (hU : Uᴴ * U = 1) :
    traceDist (U * ρ * Uᴴ) (U * σ * Uᴴ) = traceDist ρ σ := by
  unfold traceDist traceNorm traceNormV
  have : U * ρ * Uᴴ - U * σ * Uᴴ = U * (ρ - σ) * Uᴴ := by
    rw [Matrix.mul_sub, Matrix.sub_mul]
  rw [this, tnSet_conj _ _ hU (mul_eq_one_comm.mp hU)]

/-- Triangle inequality `T(ρ, τ) ≤ T(ρ, σ) + T(σ, τ)` for Hermitian arguments. -/
theorem traceDist_triangle (ρ σ τ : Matrix (Fin n) (Fin n) ℂ) (hρ : ρ.IsHermitian)
    (hσ : σ.IsHermitian) (hτ : τ.IsHermitian) : traceDist ρ τ ≤ traceDist ρ σ + traceDist σ τ := by
  unfold traceDist traceNorm
  have h := traceNormV_add_le_gen (hρ.sub hσ) (hσ.sub hτ)
  rw [sub_add_sub_cancel] at h
  linarith

/-- `T(ρ, ρ) = 0`. -/
theorem traceDist_self (ρ : Matrix (Fin n) (Fin n) ℂ) : traceDist ρ ρ = 0 := by
  unfold traceDist traceNorm
  rw [sub_self, traceNormV_zero_gen, zero_div]

/-- `T(ρ, σ) ≥ 0` for Hermitian arguments. -/
theorem traceDist_nonneg (ρ σ : Matrix (Fin n) (Fin n) ℂ) (hρ : ρ.IsHermitian) (hσ : σ.IsHermitian) :
    0 ≤ traceDist ρ σ := by
  unfold traceDist traceNorm
  have := traceNormV_nonneg_gen (hρ.sub hσ)
  linarith

/-- Definiteness: for Hermitian arguments `T(ρ, σ) = 0` exactly when `ρ = σ`. -/
theorem traceDist_eq_zero_iff (ρ σ : Matrix (Fin n) (Fin n) ℂ) (hρ : ρ.IsHermitian)
    (hσ : σ.IsHermitian) : traceDist ρ σ = 0 ↔ ρ = σ := by
  constructor
  · intro h
    unfold traceDist traceNorm at h
    have h0 : traceNormV (ρ - σ) = 0 := by linarith
    exact sub_eq_zero.mp (eq_zero_of_traceNormV_eq_zero (hρ.sub hσ) h0)
  · rintro rfl; exact traceDist_self ρ

/-- `T(ρ, σ) ≤ 1` for density operators (decomposition `P = ρ`, `Q = σ`). -/
theorem traceDist_le_one (ρ σ : Matrix (Fin n) (Fin n) ℂ) (hρ : IsDensity ρ) (hσ : IsDensity σ) :
    traceDist ρ σ ≤ 1 := by
  unfold traceDist traceNorm
  have := traceNormV_le_gen hρ.1 hσ.1 (rfl : ρ - σ = ρ - σ)
  rw [hρ.2, hσ.2] at this
  norm_num at this
  linarith

/-- Orthogonal supports give the extreme value: if a contraction `W` acts as `+1` on `ρ` and as `−1` on
`σ` (e.g. `W = Π_ρ − Π_σ` for the support projections), then `T(ρ, σ) = 1`. -/
theorem traceDist_eq_one_of_orthogonal (ρ σ W : Matrix (Fin n) (Fin n) ℂ) (hρ : IsDensity ρ)
    (hσ : IsDensity σ) (hW : IsContraction W) (h1 : W * ρ = ρ) (h2 : W * σ = -σ) :
    traceDist ρ σ = 1 := by
  refine le_antisymm (traceDist_le_one ρ σ hρ hσ) ?_
  unfold traceDist traceNorm
  have h := le_traceNormV_gen (hρ.1.isHermitian.sub hσ.1.isHermitian) hW
  rw [Matrix.mul_sub, h1, h2, sub_neg_eq_add, Matrix.trace_add, hρ.2, hσ.2] at h
  norm_num at h
  linarith

/-- The Helstrom–Holevo quantity of two density operators lies in `[1/2, 1]`. -/
theorem helstromHolevo_mem (ρ σ : Matrix (Fin n) (Fin n) ℂ) (hρ : IsDensity ρ) (hσ : IsDensity σ) :
    1 / 2 ≤ helstromHolevo ρ σ ∧ helstromHolevo ρ σ ≤ 1 := by
  unfold helstromHolevo
  have h1 := traceDist_nonneg ρ σ hρ.1.isHermitian hσ.1.isHermitian
  have h2 := traceDist_le_one ρ σ hρ hσ
  constructor <;> linarith

/-! ## Fidelity: weak duality and certificate checkers -/

/-- Weak duality of Watrous' program: for feasible `X` (`[[ρ, X], [Xᴴ, σ]] ⪰ 0`) and dual-feasible `(Y, Z)`
(`[[Y, −1], [−1, Z]] ⪰ 0`), `Re tr X ≤ (Re tr(Yρ) + Re tr(Zσ)) / 2`.  No assumption on `ρ`, `σ`. -/
theorem fid_weak_duality (ρ σ X Y Z : Matrix (Fin n) (Fin n) ℂ) (hX : FidFeasible ρ σ X)
    (hD : FidDualFeasible Y Z) : X.trace.re ≤ dualVal ρ σ Y Z :=
  fid_weak_duality_gen hX hD

/-- If the primal checker accepts with value `lo`, then `X` is feasible with `Re tr X = lo`; hence
`lo ≤ fid ρ σ` and every dual-feasible pair has value at least `lo`. -/
theorem checkFidPrimal_sound (ρ σ X : EMat n n) (L : EMat (n + n) r) (lo : Rat)
    (h : checkFidPrimal ρ σ X L = some lo) :
    FidFeasible ρ.toM σ.toM X.toM ∧ X.toM.trace.re = (lo : ℝ) ∧ (lo : ℝ) ≤ fid ρ.toM σ.toM ∧
      ∀ Y Z : Matrix (Fin n) (Fin n) ℂ, FidDualFeasible Y Z → (lo : ℝ) ≤ dualVal ρ.toM σ.toM Y Z := by
  obtain ⟨hX, hv⟩ := checkFidPrimal_core ρ σ X L lo h
  refine ⟨hX, hv, ?_, fun Y Z hD => ?_⟩
  · rw [← hv]; exact le_fidV_gen hX
  · rw [← hv]; exact fid_weak_duality_gen hX hD

/-- The same for the congruence form of the certificate (`[[ρ, X], [Xᴴ, σ]] = B M Bᴴ` exactly, `M ⪰ 0`
certified), which also covers rank-deficient states. -/
theorem checkFidPrimalCong_sound (ρ σ X : EMat n n) (B : EMat (n + n) k) (M : EMat k k)
    (L : EMat k r) (lo : Rat) (h : checkFidPrimalCong ρ σ X B M L = some lo) :
    FidFeasible ρ.toM σ.toM X.toM ∧ X.toM.trace.re = (lo : ℝ) ∧ (lo : ℝ) ≤ fid ρ.toM σ.toM ∧
      ∀ Y Z : Matrix (Fin n) (Fin n) ℂ, FidDualFeasible Y Z → (lo : ℝ) ≤ dualVal ρ.toM σ.toM Y Z := by
  obtain ⟨hX, hv⟩ := checkFidPrimalCong_core ρ σ X B M L lo h
  refine ⟨hX, hv, ?_, fun Y Z hD => ?_⟩
  · rw [← hv]; exact le_fidV_gen hX
  · rw [← hv]; exact fid_weak_duality_gen hX hD

/-- If the dual checker accepts with value `hi`, then `(Y, Z)` is dual feasible with value `hi`; hence
every feasible `X` has `Re tr X ≤ hi`, and `fid ρ σ ≤ hi` for positive semidefinite `ρ`, `σ`. -/
theorem checkFidDual_sound (ρ σ Y Z : EMat n n) (L : EMat (n + n) r) (hi : Rat)
    (h : checkFidDual ρ σ Y Z L = some hi) :
    (FidDualFeasible Y.toM Z.toM ∧ dualVal ρ.toM σ.toM Y.toM Z.toM = (hi : ℝ)) ∧
    (∀ X : Matrix (Fin n) (Fin n) ℂ, FidFeasible ρ.toM σ.toM X → X.trace.re ≤ (hi : ℝ)) ∧
    (ρ.toM.PosSemidef → σ.toM.PosSemidef → fid ρ.toM σ.toM ≤ (hi : ℝ)) := by
  obtain ⟨hD, hv⟩ := checkFidDual_core ρ σ Y Z L hi h
  refine ⟨⟨hD, hv⟩, fun X hX => ?_, fun hρ hσ => ?_⟩
  · rw [← hv]; exact fid_weak_duality_gen hX hD
  · rw [← hv]; exact fidV_le_gen hρ hσ hD

/-- Accepted primal and dual certificates bracket the fidelity (the accepted primal certificate already
forces `ρ, σ ⪰ 0`). -/
theorem fid_lo_le_hi (ρ σ X Y Z : EMat n n) (L L' : EMat (n + n) r) (lo hi : Rat)
    (hlo : checkFidPrimal ρ σ X L = some lo) (hhi : checkFidDual ρ σ Y Z L' = some hi) :
    (lo : ℝ) ≤ fid ρ.toM σ.toM ∧ fid ρ.toM σ.toM ≤ (hi : ℝ) := by
  obtain ⟨hX, hv, hlo', -⟩ := checkFidPrimal_sound ρ σ X L lo hlo
  obtain ⟨⟨hD, hv'⟩, -, -⟩ := checkFidDual_sound ρ σ Y Z L' hi hhi
  refine ⟨hlo', ?_⟩
  unfold fid
  refine csSup_le ⟨_, X.toM, hX, rfl⟩ ?_
  rintro x ⟨X', hX', rfl⟩
  rw [← hv']; exact fid_weak_duality_gen hX' hD

/-! ## Laws of the fidelity -/

/-- Symmetry: `F(ρ, σ) = F(σ, ρ)` (swap the blocks, `X ↦ Xᴴ`). -/
theorem fid_symm (ρ σ : Matrix (Fin n) (Fin n) ℂ) : fid ρ σ = fid σ ρ := by
  unfold fid fidV
  rw [fidSet_symm]

/-- Invariance under a common unitary: `F(UρUᴴ, UσUᴴ) = F(ρ, σ)`. -/
theorem fid_unitary_invariant (ρ σ U : Matrix (Fin n) (Fin n) ℂ) (hU : Uᴴ * U = 1) :
    fid (U * ρ * Uᴴ) (U * σ * Uᴴ) = fid ρ σ := by
  unfold fid fidV
  rw [fidSet_conj ρ σ U hU]

/-- `F(ρ, ρ) = tr ρ` for positive semidefinite `ρ` (`X = ρ` is feasible; `Y = Z = 1` is dual feasible);
in particular `F(ρ, ρ) = 1` for a density operator. -/
theorem fid_self (ρ : Matrix (Fin n) (Fin n) ℂ) (hρ : ρ.PosSemidef) : fid ρ ρ = ρ.trace.re := by
  unfold fid
  refine le_antisymm ?_ (le_fidV_gen (fidFeasible_self hρ))
  have := fidV_le_gen hρ hρ (fidDualFeasible_one (ι := Fin n))
  unfold dualVal at this
  rw [Matrix.one_mul] at this
  linarith

/-- `0 ≤ F(ρ, σ) ≤ 1` for density operators. -/
theorem fid_mem_unit (ρ σ : Matrix (Fin n) (Fin n) ℂ) (hρ : IsDensity ρ) (hσ : IsDensity σ) :
    0 ≤ fid ρ σ ∧ fid ρ σ ≤ 1 := by
  unfold fid
  refine ⟨le_csSup (fidSet_bddAbove ρ σ) (zero_mem_fidSet hρ.1 hσ.1), ?_⟩
  have := fidV_le_gen hρ.1 hσ.1 (fidDualFeasible_one (ι := Fin n))
  unfold dualVal at this
  rw [Matrix.one_mul, Matrix.one_mul, hρ.2, hσ.2] at this
  norm_num at this
  exact this

/-- Orthogonal supports give the extreme value: if a Hermitian idempotent `Π` satisfies `Π ρ = ρ` and
`Π σ = 0`, then `F(ρ, σ) = 0`. -/
theorem fid_eq_zero_of_orthogonal (ρ σ P : Matrix (Fin n) (Fin n) ℂ) (hρ : ρ.PosSemidef)
    (hσ : σ.PosSemidef) (hP : P.IsHermitian) (hPP : P * P = P) (h1 : P * ρ = ρ) (h2 : P * σ = 0) :
    fid ρ σ = 0 :=
  fidV_eq_zero_gen hρ hσ hP hPP h1 h2

/-! ## Matsumoto fidelity -/

/-- Weak duality for the Hermitian-restricted program: Hermitian feasible `W`, dual block
`[[Y, C], [Cᴴ, Z]] ⪰ 0` with `C + Cᴴ = −2` give `Re tr W ≤ (Re tr(Yρ) + Re tr(Zσ)) / 2`. -/
theorem mats_weak_duality (ρ σ W Y Z C : Matrix (Fin n) (Fin n) ℂ) (hW : W.IsHermitian)
    (hF : FidFeasible ρ σ W) (hC : C + Cᴴ = (-2 : ℂ) • (1 : Matrix (Fin n) (Fin n) ℂ))
    (hD : DualBlockPsd Y Z C) : W.trace.re ≤ dualVal ρ σ Y Z :=
  mats_weak_duality_gen hW hF hC hD

/-- `Matsumoto ≤ F`: the Matsumoto program is the fidelity program with the extra constraint `W = Wᴴ`. -/
theorem matsumoto_le_fid (ρ σ : Matrix (Fin n) (Fin n) ℂ) (hρ : ρ.PosSemidef) (hσ : σ.PosSemidef) :
    matsumoto ρ σ ≤ fid ρ σ := by
  unfold matsumoto fid
  refine csSup_le ⟨0, 0, by simp, ?_, by simp⟩ ?_
  · unfold FidFeasible
    simpa using posSemidef_fromBlocks_diag hρ hσ
  · rintro x ⟨W, -, hF, rfl⟩
    exact le_fidV_gen hF

/-- If the Matsumoto primal checker accepts with value `lo`, then `W` is Hermitian and feasible with
`Re tr W = lo`; hence `lo ≤ matsumoto ρ σ` and `lo ≤ fid ρ σ`. -/
theorem checkMatsPrimal_sound (ρ σ W : EMat n n) (L : EMat (n + n) r) (lo : Rat)
    (h : checkMatsPrimal ρ σ W L = some lo) :
    W.toM.IsHermitian ∧ FidFeasible ρ.toM σ.toM W.toM ∧ W.toM.trace.re = (lo : ℝ) ∧
      (lo : ℝ) ≤ matsumoto ρ.toM σ.toM ∧ (lo : ℝ) ≤ fid ρ.toM σ.toM := by
  obtain ⟨hW, hF, hv⟩ := checkMatsPrimal_core ρ σ W L lo h
  refine ⟨hW, hF, hv, ?_, ?_⟩
  · rw [← hv]
    refine le_csSup ?_ ⟨W.toM, hW, hF, rfl⟩
    refine ⟨dualVal ρ.toM σ.toM 1 1, ?_⟩
    rintro x ⟨W', -, hF', rfl⟩
    exact fid_weak_duality_gen hF' fidDualFeasible_one
  · rw [← hv]; exact le_fidV_gen hF

/-- If the Matsumoto dual checker accepts with value `hi`, every Hermitian feasible `W` has
`Re tr W ≤ hi`; hence `matsumoto ρ σ ≤ hi` for positive semidefinite `ρ`, `σ`. -/
theorem checkMatsDual_sound (ρ σ Y Z C : EMat n n) (L : EMat (n + n) r) (hi : Rat)
    (h : checkMatsDual ρ σ Y Z C L = some hi) :
    (∀ W : Matrix (Fin n) (Fin n) ℂ, W.IsHermitian → FidFeasible ρ.toM σ.toM W →
      W.trace.re ≤ (hi : ℝ)) ∧
    (ρ.toM.PosSemidef → σ.toM.PosSemidef → matsumoto ρ.toM σ.toM ≤ (hi : ℝ)) := by
  obtain ⟨hC, hD, hv⟩ := checkMatsDual_core ρ σ Y Z C L hi h
  have key : ∀ W : Matrix (Fin n) (Fin n) ℂ, W.IsHermitian → FidFeasible ρ.toM σ.toM W →
      W.trace.re ≤ (hi : ℝ) := by
    intro W hW hF
    rw [← hv]; exact mats_weak_duality_gen hW hF hC hD
  refine ⟨key, fun hρ hσ => ?_⟩
  unfold matsumoto
  refine csSup_le ⟨0, 0, by simp, ?_, by simp⟩ ?_
  · unfold FidFeasible
    simpa using posSemidef_fromBlocks_diag hρ hσ
  · rintro x ⟨W, hW, hF, rfl⟩
    exact key W hW hF

/-! ## Exactly computable quantities -/

/-- `hsDist` is `Re tr((ρ − σ)²)`, the documented Hilbert–Schmidt distance. -/
theorem hsDist_eq (ρ σ : EMat n n) :
    ((hsDist ρ σ : Rat) : ℝ) = ((ρ.toM - σ.toM) * (ρ.toM - σ.toM)).trace.re :=
  hsDist_cast ρ σ

/-- For Hermitian arguments `tr((ρ − σ)²)` is the squared Frobenius norm `Σ_ij |(ρ − σ)_ij|²`
(the "`‖ρ − σ‖₂²`" of the documentation is the Schatten 2-norm, not the spectral norm). -/
theorem hsDist_eq_sum_sq (ρ σ : Matrix (Fin n) (Fin n) ℂ) (hρ : ρ.IsHermitian) (hσ : σ.IsHermitian) :
    ((ρ - σ) * (ρ - σ)).trace.re = ∑ i, ∑ j, ‖(ρ - σ) i j‖ ^ 2 := by
  have hH : (ρ - σ).IsHermitian := hρ.sub hσ
  have : ((ρ - σ) * (ρ - σ)).trace = ∑ i, ∑ j, (((‖(ρ - σ) i j‖ ^ 2 : ℝ)) : ℂ) := by
    simp only [Matrix.trace, Matrix.diag_apply, Matrix.mul_apply]
    refine Finset.sum_congr rfl fun i _ => Finset.sum_congr rfl fun j _ => ?_
    have : (ρ - σ) j i = star ((ρ - σ) i j) := by
      conv_lhs => rw [← hH.eq]
      rfl
    rw [this, Complex.star_def, Complex.mul_conj, Complex.normSq_eq_norm_sq]
  rw [this, Complex.re_sum]
  refine Finset.sum_congr rfl fun i _ => ?_
  rw [Complex.re_sum]
  refine Finset.sum_congr rfl fun j _ => ?_
  exact Complex.ofReal_re _

/-- `hsInner` is `tr(Aᴴ B)`. -/
theorem hsInner_eq (A B : EMat n k) : (hsInner A B).toC = (A.toMᴴ * B.toM).trace :=
  hsInner_toC A B

/-- `trProd` is `Re tr(ρ σ)` (the pure-state overlap `⟨ψ|σ|ψ⟩` when `ρ = |ψ⟩⟨ψ|`). -/
theorem trProd_eq (ρ σ : EMat n n) : ((trProd ρ σ : Rat) : ℝ) = (ρ.toM * σ.toM).trace.re :=
  trProd_cast ρ σ

/-- `subFidRad` is the radicand `2[(tr ρσ)² − tr(ρσρσ)]` of the sub-fidelity
`E(ρ, σ) = tr(ρσ) + √(2[(tr ρσ)² − tr(ρσρσ)])`. -/
theorem subFidRad_eq (ρ σ : EMat n n) :
    ((subFidRad ρ σ : Rat) : ℝ)
      = 2 * ((ρ.toM * σ.toM).trace.re ^ 2 - (ρ.toM * σ.toM * (ρ.toM * σ.toM)).trace.re) := by
  unfold subFidRad
  rw [Rat.cast_mul, Rat.cast_sub, Rat.cast_mul, trProd_cast, trProd4_cast]
  norm_num
  ring

/-! ## The checkers accept concrete instances

`ρ = |0⟩⟨0|`, `σ = |+i⟩⟨+i|` (complex, non-commuting; `‖ρ − σ‖₁ = √2`, `F = 1/√2`): a contraction with value
`60/53 ≈ 1.132` and a decomposition with value `21/13 ≈ 1.615`; a congruence certificate `X = G_ρ K G_σᴴ` with value `7/10`
and an exactly inverted dual pair with value `1137/1600 ≈ 0.7106`.  `ρ = diag(3/4, 1/4)`, `σ = [[1/2, −i/4], [i/4, 1/2]]`
(full rank; `tr(ρ # σ) ≈ 0.9258`): Matsumoto certificates with values `48/61 ≈ 0.787` and `≈ 1.126`. -/

section Examples

private def exρ : EMat 2 2 := EMat.ofRows #[#[⟨1, 0⟩, ⟨0, 0⟩], #[⟨0, 0⟩, ⟨0, 0⟩]] 2 2
private def exσ : EMat 2 2 := EMat.ofRows #[#[⟨1/2, 0⟩, ⟨0, -1/2⟩], #[⟨0, 1/2⟩, ⟨1/2, 0⟩]] 2 2

example : checkTNLower (exρ - exσ)
    (EMat.ofRows #[#[⟨30/53, 0⟩, ⟨0, 30/53⟩], #[⟨0, -30/53⟩, ⟨-30/53, 0⟩]] 2 2)
    (EMat.ofRows #[#[⟨618/1069, 0⟩, ⟨0, 0⟩], #[⟨0, 1641/1676⟩, ⟨954/1339, 0⟩]] 2 2 : EMat 2 2)
    (EMat.ofRows #[#[⟨2199/1816, 0⟩, ⟨0, 0⟩], #[⟨0, -596/1275⟩, ⟨183/538, 0⟩]] 2 2 : EMat 2 2) = some (60/53) := by decide +kernel

example : checkTNUpper (exρ - exσ)
    (EMat.ofRows #[#[⟨17/26, 0⟩, ⟨0, 1/4⟩], #[⟨0, -1/4⟩, ⟨2/13, 0⟩]] 2 2)
    (EMat.ofRows #[#[⟨2/13, 0⟩, ⟨0, -1/4⟩], #[⟨0, 1/4⟩, ⟨17/26, 0⟩]] 2 2)
    (EMat.ofRows #[#[⟨693/874, 0⟩, ⟨0, 0⟩], #[⟨0, -437/1386⟩, ⟨185/1081, 0⟩]] 2 2 : EMat 2 2)
    (EMat.ofRows #[#[⟨527/1469, 0⟩, ⟨0, 0⟩], #[⟨0, 1046/1501⟩, ⟨160/423, 0⟩]] 2 2 : EMat 2 2) = some (21/13) := by decide +kernel

example : checkFidPrimalCong exρ exσ
    (EMat.ofRows #[#[⟨7/10, 0⟩, ⟨0, -7/10⟩], #[⟨0, 0⟩, ⟨0, 0⟩]] 2 2)
    (EMat.ofRows #[#[⟨1, 0⟩, ⟨0, 0⟩], #[⟨0, 0⟩, ⟨0, 0⟩], #[⟨0, 0⟩, ⟨1, 0⟩], #[⟨0, 0⟩, ⟨0, 1⟩]] 4 2 : EMat (2 + 2) 2)
    (EMat.ofRows #[#[⟨1, 0⟩, ⟨7/10, 0⟩], #[⟨7/10, 0⟩, ⟨1/2, 0⟩]] 2 2)
    (EMat.ofRows #[#[⟨1, 0⟩, ⟨0, 0⟩], #[⟨7/10, 0⟩, ⟨0, 0⟩]] 2 2 : EMat 2 2) = some (7/10) := by decide +kernel

example : checkFidDual exρ exσ
    (EMat.ofRows #[#[⟨16/25, 0⟩, ⟨0, -16/25⟩], #[⟨0, 16/25⟩, ⟨89/100, 0⟩]] 2 2)
    (EMat.ofRows #[#[⟨89/16, 0⟩, ⟨0, 4⟩], #[⟨0, -4⟩, ⟨4, 0⟩]] 2 2)
    (EMat.ofRows #[#[⟨4/5, 0⟩, ⟨0, 0⟩], #[⟨0, 4/5⟩, ⟨1/2, 0⟩], #[⟨-5/4, 0⟩, ⟨0, -2⟩], #[⟨0, 0⟩, ⟨-2, 0⟩]] 4 2 : EMat (2 + 2) 2) = some (1137/1600) := by decide +kernel

private def exρ' : EMat 2 2 := EMat.ofRows #[#[⟨3/4, 0⟩, ⟨0, 0⟩], #[⟨0, 0⟩, ⟨1/4, 0⟩]] 2 2
private def exσ' : EMat 2 2 := EMat.ofRows #[#[⟨1/2, 0⟩, ⟨0, -1/4⟩], #[⟨0, 1/4⟩, ⟨1/2, 0⟩]] 2 2

example : checkMatsPrimal exρ' exσ'
    (EMat.ofRows #[#[⟨30/61, 0⟩, ⟨0, -6/61⟩], #[⟨0, 6/61⟩, ⟨18/61, 0⟩]] 2 2)
    (EMat.ofRows #[#[⟨1343/1573, 0⟩, ⟨0, 0⟩, ⟨0, 0⟩, ⟨0, 0⟩], #[⟨0, 0⟩, ⟨845/1766, 0⟩, ⟨0, 0⟩, ⟨0, 0⟩], #[⟨322/559, 0⟩, ⟨0, -347/1688⟩, ⟨569/1757, 0⟩, ⟨0, 0⟩], #[⟨0, 222/1927⟩, ⟨539/874, 0⟩, ⟨0, 292/1663⟩, ⟨350/1499, 0⟩]] 4 4 : EMat (2 + 2) 4) = some (48/61) := by decide +kernel

example : checkMatsDual exρ' exσ'
    (EMat.ofRows #[#[⟨56/59, 0⟩, ⟨0, -9/34⟩], #[⟨0, 9/34⟩, ⟨48/29, 0⟩]] 2 2)
    (EMat.ofRows #[#[⟨47/30, 0⟩, ⟨0, 6/17⟩], #[⟨0, -6/17⟩, ⟨55/53, 0⟩]] 2 2)
    (EMat.ofRows #[#[⟨-1, 0⟩, ⟨0, -1/7⟩], #[⟨0, -1/7⟩, ⟨-1, 0⟩]] 2 2)
    (EMat.ofRows #[#[⟨1821/1976, 0⟩, ⟨0, 0⟩, ⟨0, 0⟩, ⟨0, 0⟩], #[⟨0, 27/94⟩, ⟨1608/1325, 0⟩, ⟨0, 0⟩, ⟨0, 0⟩], #[⟨-2129/1962, 0⟩, ⟨0, -154/1107⟩, ⟨783/1507, 0⟩, ⟨0, 0⟩], #[⟨0, 275/1774⟩, ⟨-1662/1931, 0⟩, ⟨0, -170/1359⟩, ⟨459/1157, 0⟩]] 4 4 : EMat (2 + 2) 4) = some (208245887/184993320) := by decide +kernel

example : hsDist exρ exσ = 1 ∧ trProd exρ exσ = 1/2 ∧ subFidRad exρ exσ = 0 ∧
    hsInner exσ exρ = ⟨1/2, 0⟩ := by decide +kernel

/-- hypotheses of `traceDist_eq_one_of_orthogonal` and `fid_eq_zero_of_orthogonal` are satisfiable:
`ρ = |0⟩⟨0|`, `σ = |1⟩⟨1|`, `W = diag(1, −1)`, `Π = ρ` -/
example : ∃ ρ σ W : Matrix (Fin 2) (Fin 2) ℂ, IsDensity ρ ∧ IsDensity σ ∧ IsContraction W ∧
    W * ρ = ρ ∧ W * σ = -σ ∧ ρ.IsHermitian ∧ ρ * ρ = ρ ∧ ρ * σ = 0 := by
  have h0 : (0 : ℝ) ≤ 1 := zero_le_one
  have hd : ∀ a b : ℝ, 0 ≤ a → 0 ≤ b →
      (Matrix.diagonal (fun i : Fin 2 => (((if i = 0 then a else b : ℝ)) : ℂ))).PosSemidef := by
    intro a b ha hb
    refine Matrix.PosSemidef.diagonal fun i => ?_
    by_cases h : i = 0 <;> simp [h, ha, hb]
  refine ⟨Matrix.diagonal (fun i : Fin 2 => (((if i = 0 then 1 else 0 : ℝ)) : ℂ)),
    Matrix.diagonal (fun i : Fin 2 => (((if i = 0 then 0 else 1 : ℝ)) : ℂ)),
    Matrix.diagonal (fun i : Fin 2 => (((if i = 0 then 1 else -1 : ℝ)) : ℂ)),
    ⟨hd 1 0 h0 le_rfl, by simp [Matrix.trace, Fin.sum_univ_two]⟩,
    ⟨hd 0 1 le_rfl h0, by simp [Matrix.trace, Fin.sum_univ_two]⟩, ⟨?_, ?_⟩, ?_, ?_, ?_, ?_, ?_⟩
  · have : (1 : Matrix (Fin 2) (Fin 2) ℂ) - Matrix.diagonal (fun i : Fin 2 => (((if i = 0 then 1 else -1 : ℝ)) : ℂ))
        = Matrix.diagonal (fun i : Fin 2 => (((if i = 0 then 0 else 2 : ℝ)) : ℂ)) := by
      ext i j; fin_cases i <;> fin_cases j <;> simp [Matrix.diagonal] <;> norm_num
    rw [this]; exact hd 0 2 le_rfl (by norm_num)
  · have : (1 : Matrix (Fin 2) (Fin 2) ℂ) + Matrix.diagonal (fun i : Fin 2 => (((if i = 0 then 1 else -1 : ℝ)) : ℂ))
        = Matrix.diagonal (fun i : Fin 2 => (((if i = 0 then 2 else 0 : ℝ)) : ℂ)) := by
      ext i j; fin_cases i <;> fin_cases j <;> simp [Matrix.diagonal] <;> norm_num
    rw [this]; exact hd 2 0 (by norm_num) le_rfl
  · rw [Matrix.diagonal_mul_diagonal]; congr 1; ext i; fin_cases i <;> simp
  · rw [Matrix.diagonal_mul_diagonal, Matrix.diagonal_neg]; congr 1; ext i; fin_cases i <;> simp
  · exact Matrix.isHermitian_diagonal_of_self_adjoint _ (by ext i; by_cases h : i = 0 <;> simp [h])
  · rw [Matrix.diagonal_mul_diagonal]; congr 1; ext i; fin_cases i <;> simp
  · rw [Matrix.diagonal_mul_diagonal, ← Matrix.diagonal_zero]; congr 1; ext i; fin_cases i <;> simp

end Examples

end Toq.C13
