import Toq.Model.PartialOps
import Toq.Spec.PartialTrace
import Toq.Proofs.PartialTrace
import Toq.Properties.C01
import Mathlib.Algebra.Group.Defs
import Mathlib.Algebra.Ring.Defs
/-!
# C02 — the partial trace sums the entries that agree on the traced subsystems

Property theorems only (helper lemmas live in `Toq/Proofs/PartialTrace.lean`, the specification in
`Toq/Spec/PartialTrace.lean`).  The mirror model `Toq.PartialOps.partialTrace` follows
`toqito/channels/partial_trace.py` line by line (`perm = kept ++ sys`, `permute_systems`, F-order reshape
to `[T,K,T,K]`, transpose `(1,3,0,2)`, F-order reshape to `[K,K,T*T]`, strided pick of the diagonal
`t*(T+1)`, sum over the last axis).  The theorems hold for every number `n` of subsystems, every
dimension vector with positive entries (entries `1` allowed) and every duplicate-free list `S` of
subsystems in any order.
-/
namespace Toq.C02
open Toq.PartialOps Toq.PTrace

/-- The model's `set(range(n)) - set(sys)` is the list of the other subsystems in increasing order. -/
theorem setDiff_eq_others (n : Nat) (S : List Nat) : setDiff n S = others n S :=
  Toq.PTrace.setDiff_eq_others n S

/-- The remaining subsystems are exactly those below `n` not listed in `S`, and they are listed in
    increasing order, i.e. they keep their original order in the output. -/
theorem others_spec (n : Nat) (S : List Nat) :
    (∀ k, k ∈ others n S ↔ k < n ∧ k ∉ S) ∧ (others n S).Pairwise (· < ·) :=
  ⟨fun _ => mem_others, List.Pairwise.filter _ List.pairwise_lt_range⟩

/-- The index `join i t` used by the specification is a valid index whose label on a subsystem
    `k ∈ S` is the label that the code `t` gives to `k`, and whose label on any other subsystem is the
    label that the code `i` gives to `k`. -/
theorem join_labels (n : Nat) (dims : Nat → Nat) (S : List Nat) (hd : ∀ k, k < n → 0 < dims k)
    (i t : Nat) :
    join n dims S i t < prodN dims n ∧ ∀ k, k < n →
      dec dims n (join n dims S i t) k
        = if k ∈ S then digitOn dims S t k else digitOn dims (others n S) i k :=
  ⟨join_lt n dims S hd i t, fun k hk => dec_join n dims S hd i t k hk⟩

/-- The model's output size `prod(dim) / prod(dim[sys])` is the dimension of the remaining subsystems,
    and its summation range `prod(dim[sys])` is the dimension of the traced ones. -/
theorem ptrace_dim (n : Nat) (dims : Nat → Nat) (S : List Nat) (hd : ∀ k, k < n → 0 < dims k)
    (hnd : S.Nodup) (hlt : ∀ s ∈ S, s < n) :
    prodN dims n / prodList dims S = subDim dims (others n S) ∧ prodList dims S = subDim dims S ∧
      prodN dims n = subDim dims (others n S) * subDim dims S :=
  ⟨model_K n dims S hd hnd hlt, prodList_eq_subDim dims S, prodN_eq_mul n dims S hnd hlt⟩

/-- **The model computes the partial trace.**  For every scalar type with `+` and `0` (no algebraic law
    is needed: the summation order of model and specification is the same), every square operator `X`
    on `n` subsystems of positive dimensions `dims`, every duplicate-free list `S` of subsystems (any
    order, may be empty) and all `i j` below the dimension of the remaining subsystems, the entry
    `(i, j)` of the model output is the sum of the entries of `X` whose row and column labels agree on
    every subsystem in `S` and are given by `i` resp. `j` on the other subsystems, which keep their
    original order. -/
theorem ptrace_eq_spec {α : Type} [Add α] [Zero α] (X : Nat → Nat → α) (n : Nat) (dims : Nat → Nat)
    (S : List Nat) (hd : ∀ k, k < n → 0 < dims k) (hnd : S.Nodup) (hlt : ∀ s ∈ S, s < n) (i j : Nat)
    (hi : i < subDim dims (others n S)) (hj : j < subDim dims (others n S)) :
    partialTrace X n dims S i j = ptraceSpec X n dims S i j :=
  partialTrace_eq_spec n dims S hd hnd hlt X i j hi hj

/-- **Additivity** (model level, no hypothesis on the arguments at all): the partial trace of a sum is the
    sum of the partial traces.  Needs `+` commutative and associative. -/
theorem ptrace_add {α : Type} [AddCommMonoid α] (X Y : Nat → Nat → α) (n : Nat) (dims : Nat → Nat)
    (S : List Nat) (i j : Nat) :
    partialTrace (fun r c => X r c + Y r c) n dims S i j
      = partialTrace X n dims S i j + partialTrace Y n dims S i j :=
  partialTrace_add X Y n dims S i j

/-- **Homogeneity** (model level, no hypothesis on the arguments): scalars pull out. -/
theorem ptrace_smul {α : Type} [NonUnitalNonAssocSemiring α] (c : α) (X : Nat → Nat → α) (n : Nat)
    (dims : Nat → Nat) (S : List Nat) (i j : Nat) :
    partialTrace (fun r c' => c * X r c') n dims S i j = c * partialTrace X n dims S i j :=
  partialTrace_smul c X n dims S i j

/-- **Tr_B (A ⊗ B) = Tr(B) · A** for two subsystems of dimensions `dA`, `dB`: if
    `X[(a,b),(a',b')] = A[a,a'] * B[b,b']` then tracing out the second subsystem gives
    `(Σ_b B[b,b]) * A[a,a']`. -/
theorem ptrace_bipartite_kron {α : Type} [CommSemiring α] (A B X : Nat → Nat → α) (dA dB : Nat)
    (hA : 0 < dA) (hB : 0 < dB)
    (hX : ∀ a a' b b', a < dA → a' < dA → b < dB → b' < dB →
      X (a * dB + b) (a' * dB + b') = A a a' * B b b')
    (a a' : Nat) (ha : a < dA) (ha' : a' < dA) :
    partialTrace X 2 (fnOfList [dA, dB]) [1] a a' = (sumN dB fun b => B b b) * A a a' := by
  have hd : ∀ k, k < 2 → 0 < fnOfList [dA, dB] 0 k := by
    intro k hk
    have : k = 0 ∨ k = 1 := by omega
    rcases this with rfl | rfl <;> simpa [fnOfList]
  have hK : subDim (fnOfList [dA, dB]) (others 2 [1]) = dA := by
    rw [others_2_1]; simp [subDim, subDims, prodN, fnOfList]
  have hT : subDim (fnOfList [dA, dB]) [1] = dB := by simp [subDim, subDims, prodN, fnOfList]
  rw [ptrace_eq_spec X 2 _ [1] hd (by simp) (by simp) a a' (by rw [hK]; exact ha) (by rw [hK]; exact ha')]
  unfold ptraceSpec
  rw [hT, ← sumN_mul_right]
  apply sumN_congr
  intro t ht
  rw [join_2_1 dA dB a t ha ht, join_2_1 dA dB a' t ha' ht, hX a a' t t ha ha' ht ht, mul_comm]

/-- **Tr_A (A ⊗ B) = Tr(A) · B**: tracing out the first of two subsystems. -/
theorem ptrace_bipartite_kron_first {α : Type} [CommSemiring α] (A B X : Nat → Nat → α) (dA dB : Nat)
    (hA : 0 < dA) (hB : 0 < dB)
    (hX : ∀ a a' b b', a < dA → a' < dA → b < dB → b' < dB →
      X (a * dB + b) (a' * dB + b') = A a a' * B b b')
    (b b' : Nat) (hb : b < dB) (hb' : b' < dB) :
    partialTrace X 2 (fnOfList [dA, dB]) [0] b b' = (sumN dA fun a => A a a) * B b b' := by
  have hd : ∀ k, k < 2 → 0 < fnOfList [dA, dB] 0 k := by
    intro k hk
    have : k = 0 ∨ k = 1 := by omega
    rcases this with rfl | rfl <;> simpa [fnOfList]
  have hK : subDim (fnOfList [dA, dB]) (others 2 [0]) = dB := by
    rw [others_2_0]; simp [subDim, subDims, prodN, fnOfList]
  have hT : subDim (fnOfList [dA, dB]) [0] = dA := by simp [subDim, subDims, prodN, fnOfList]
  rw [ptrace_eq_spec X 2 _ [0] hd (by simp) (by simp) b b' (by rw [hK]; exact hb) (by rw [hK]; exact hb')]
  unfold ptraceSpec
  rw [hT, ← sumN_mul_right]
  apply sumN_congr
  intro t ht
  rw [join_2_0 dA dB b t hb ht, join_2_0 dA dB b' t hb' ht, hX t t b b' ht ht hb hb']

/-- **Trace preservation**: the trace of the model output (over the remaining subsystems) is the trace
    of the input.  Needs `+` commutative and associative (the summands are reordered). -/
theorem ptrace_trace {α : Type} [AddCommMonoid α] (X : Nat → Nat → α) (n : Nat) (dims : Nat → Nat)
    (S : List Nat) (hd : ∀ k, k < n → 0 < dims k) (hnd : S.Nodup) (hlt : ∀ s ∈ S, s < n) :
    sumN (subDim dims (others n S)) (fun i => partialTrace X n dims S i i)
      = sumN (prodN dims n) (fun r => X r r) := by
  rw [← ptraceSpec_trace X n dims S hd hnd hlt]
  apply sumN_congr
  intro i hi
  exact ptrace_eq_spec X n dims S hd hnd hlt i i hi hi

/-- **Tensor products of `n` operators**: `Tr_S (A_0 ⊗ … ⊗ A_{n-1}) = (Π_{s ∈ S} Tr A_s) · ⊗_{k ∉ S} A_k`,
    the remaining factors in their original order (commutative semiring of scalars). -/
theorem ptrace_kron {α : Type} [CommSemiring α] (A : Nat → Nat → Nat → α) (n : Nat) (dims : Nat → Nat)
    (S : List Nat) (hd : ∀ k, k < n → 0 < dims k) (hnd : S.Nodup) (hlt : ∀ s ∈ S, s < n) (i j : Nat)
    (hi : i < subDim dims (others n S)) (hj : j < subDim dims (others n S)) :
    partialTrace (kronMat n A dims) n dims S i j
      = prodFn S.length (fun m => tr (dims (S.getD m 0)) (A (S.getD m 0)))
        * kronMat (others n S).length (fun m => A ((others n S).getD m 0))
            (subDims dims (others n S)) i j := by
  rw [ptrace_eq_spec _ n dims S hd hnd hlt i j hi hj]
  exact ptraceSpec_kron A n dims S hd hnd hlt i j

/-- **The listing order of `S` is irrelevant**: any rearrangement `S'` of `S` gives the same operator
    (`+` commutative and associative). -/
theorem ptrace_order_irrelevant {α : Type} [AddCommMonoid α] (X : Nat → Nat → α) (n : Nat)
    (dims : Nat → Nat) (S S' : List Nat) (hd : ∀ k, k < n → 0 < dims k) (hp : S.Perm S')
    (hnd : S.Nodup) (hlt : ∀ s ∈ S, s < n) (i j : Nat)
    (hi : i < subDim dims (others n S)) (hj : j < subDim dims (others n S)) :
    partialTrace X n dims S i j = partialTrace X n dims S' i j := by
  have hO := others_perm_eq n S S' hp
  rw [ptrace_eq_spec X n dims S hd hnd hlt i j hi hj,
    ptrace_eq_spec X n dims S' hd (hp.nodup_iff.mp hnd) (fun s hs => hlt s (hp.mem_iff.mpr hs)) i j
      (by rw [← hO]; exact hi) (by rw [← hO]; exact hj)]
  exact ptraceSpec_perm X n dims S S' hd hp hnd hlt i j

/-- **Composition**: tracing out `S`, and then the subsystems `T'` of what remains (`T'` numbered within
    the remaining systems, whose dimensions are `subDims dims (others n S)`), is tracing out in one go
    the union `S ++ liftSys n S T'` (`liftSys` translates `T'` back to the original numbering).
    Needs `+` commutative and associative (a double sum is swapped). -/
theorem ptrace_comp {α : Type} [AddCommMonoid α] (X : Nat → Nat → α) (n : Nat) (dims : Nat → Nat)
    (S T' : List Nat) (hd : ∀ k, k < n → 0 < dims k) (hnd : S.Nodup) (hlt : ∀ s ∈ S, s < n)
    (hndT : T'.Nodup) (hltT : ∀ p ∈ T', p < (others n S).length) (i j : Nat)
    (hi : i < subDim (subDims dims (others n S)) (others (others n S).length T'))
    (hj : j < subDim (subDims dims (others n S)) (others (others n S).length T')) :
    partialTrace (partialTrace X n dims S) (others n S).length (subDims dims (others n S)) T' i j
      = partialTrace X n dims (S ++ liftSys n S T') i j :=
  partialTrace_comp n dims S T' hd hnd hlt hndT hltT X i j hi hj

/-! ### non-vacuity -/

/-- the docstring example of `partial_trace.py`: the 16×16 matrix `1..256`, four qubits, `sys = [0, 2]`;
    the hypotheses of the theorems hold there and the model returns the documented matrix -/
example : (∀ k, k < 4 → 0 < fnOfList [2, 2, 2, 2] 0 k) ∧ [0, 2].Nodup ∧ (∀ s ∈ [0, 2], s < 4) ∧
    subDim (fnOfList [2, 2, 2, 2]) (others 4 [0, 2]) = 4 ∧
    listOfFn 4 (fun i => listOfFn 4
      (partialTrace (fun r c => 16 * r + c + 1) 4 (fnOfList [2, 2, 2, 2]) [0, 2] i))
      = [[344, 348, 360, 364], [408, 412, 424, 428], [600, 604, 616, 620], [664, 668, 680, 684]] := by
  decide

/-- unequal dimensions with a trivial factor and an unsorted `S`: model and specification agree, and
    the result does not depend on the listing order -/
example : others 3 [2, 0] = [1] ∧ subDim (fnOfList [2, 1, 3]) [2, 0] = 6 ∧
    listOfFn 1 (fun i => listOfFn 1 (partialTrace (fun r c => 10 * r + c) 3 (fnOfList [2, 1, 3]) [2, 0] i))
      = listOfFn 1 (fun i => listOfFn 1 (ptraceSpec (fun r c => 10 * r + c) 3 (fnOfList [2, 1, 3]) [2, 0] i)) ∧
    listOfFn 1 (fun i => listOfFn 1 (partialTrace (fun r c => 10 * r + c) 3 (fnOfList [2, 1, 3]) [0, 2] i))
      = [[165]] := by
  decide

/-- composition on `dims = [2,3,2]`: trace out `S = [1]`, then `T' = [1]` of the remaining two systems
    (original subsystem 2); the union is `[1, 2]` -/
example : liftSys 3 [1] [1] = [2] ∧
    listOfFn 2 (fun i => listOfFn 2
      (partialTrace (partialTrace (fun r c => 12 * r + c) 3 (fnOfList [2, 3, 2]) [1]) 2
        (subDims (fnOfList [2, 3, 2]) (others 3 [1])) [1] i))
    = listOfFn 2 (fun i => listOfFn 2
      (partialTrace (fun r c => 12 * r + c) 3 (fnOfList [2, 3, 2]) [1, 2] i)) := by
  decide

end Toq.C02
