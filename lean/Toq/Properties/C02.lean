import Toq.Model.PartialOps
import Toq.Spec.PartialTrace
import Toq.Proofs.PartialTrace
import Toq.Model.PartialOpsArgs
import Toq.Proofs.PartialOpsArgs
import Toq.Proofs.PartialTraceExtra
import Toq.Properties.C01
import Mathlib.Algebra.Group.Defs
import Mathlib.Data.Int.Star
import Mathlib.Algebra.Ring.Defs
/-!
# C02 — the partial trace sums the entries that agree on the traced subsystems

Property theorems only (helper lemmas live in `Toq/Proofs/PartialTrace.lean`, the specification in
`Toq/Spec/PartialTrace.lean`).  The mirror model `Toq.PartialOps.partialTrace` follows
`toqito/channels/partial_trace.py` line by line (`perm = kept ++ sys`, `permute_systems`, F-order reshape
to `[T,K,T,K]`, transpose `(1,3,0,2)`, F-order reshape to `[K,K,T*T]`, strided pick of the diagonal
`t*(T+1)`, sum over the last axis).  The theorems hold for every number `n` of subsystems, every
dimension vector with positive entries (entries `1` allowed) and every duplicate-free list `S` of
subsystems in any order.

Beyond the numerical core: the argument decoding (`sys` = `None` / int / list, `dim` = `None` / int /
list, defaults, error guards) and the cvxpy-`Variable` branch are mirrored in
`Toq/Model/PartialOpsArgs.lean` (`partialTraceArgs`, `partialTraceCvx`); the sections "Argument forms"
and "The cvxpy `Variable` branch" below say what they mean.  Hermiticity / positive semidefiniteness
(Mathlib's `Matrix.PosSemidef`) are preserved, and `ptrace_via_permute` states the code's mechanism with
the permutation model of C01.
-/
namespace Toq.C02
open Toq.PartialOps Toq.PTrace

/-- The model's `set(range(n)) - set(sys)` is the list of the other subsystems in increasing order. -/
theorem setDiff_eq_others (n : Nat) (S : List Nat) : setDiff n S = others n S :=
  Toq.PTrace.setDiff_eq_others n S

/-- The remaining subsystems are exactly those below `n` not listed in `S`, and they are listed in
    increasing order, i.e. they keep their original order in the output. -/
theorem others_spec (n : Nat) (S : List Nat) :
    (∀ k, k ∈ others n S ↔ k < n ∧ k ∉ S) ∧ (others n S).Pairwise (· < ·) :=
  ⟨fun _ => mem_others, List.Pairwise.filter _ List.pairwise_lt_range⟩

/-- The index `join i t` used by the specification is a valid index whose label on a subsystem
    `k ∈ S` is the label that the code `t` gives to `k`, and whose label on any other subsystem is the
    label that the code `i` gives to `k`. -/
theorem join_labels (n : Nat) (dims : Nat → Nat) (S : List Nat) (hd : ∀ k, k < n → 0 < dims k)
    (i t : Nat) :
    join n dims S i t < prodN dims n ∧ ∀ k, k < n →
      dec dims n (join n dims S i t) k
        = if k ∈ S then digitOn dims S t k else digitOn dims (others n S) i k :=
  ⟨join_lt n dims S hd i t, fun k hk => dec_join n dims S hd i t k hk⟩

/-- The model's output size `prod(dim) / prod(dim[sys])` is the dimension of the remaining subsystems,
    and its summation range `prod(dim[sys])` is the dimension of the traced ones. -/
theorem ptrace_dim (n : Nat) (dims : Nat → Nat) (S : List Nat) (hd : ∀ k, k < n → 0 < dims k)
    (hnd : S.Nodup) (hlt : ∀ s ∈ S, s < n) :
    prodN dims n / prodList dims S = subDim dims (others n S) ∧ prodList dims S = subDim dims S ∧
      prodN dims n = subDim dims (others n S) * subDim dims S :=
  ⟨model_K n dims S hd hnd hlt, prodList_eq_subDim dims S, prodN_eq_mul n dims S hnd hlt⟩

/-- **The model computes the partial trace.**  For every scalar type with `+` and `0` (no algebraic law
    is needed: the summation order of model and specification is the same), every square operator `X`
    on `n` subsystems of positive dimensions `dims`, every duplicate-free list `S` of subsystems (any
    order, may be empty) and all `i j` below the dimension of the remaining subsystems, the entry
    `(i, j)` of the model output is the sum of the entries of `X` whose row and column labels agree on
    every subsystem in `S` and are given by `i` resp. `j` on the other subsystems, which keep their
    original order. -/
theorem ptrace_eq_spec {α : Type} [Add α] [Zero α] (X : Nat → Nat → α) (n : Nat) (dims : Nat → Nat)
    (S : List Nat) (hd : ∀ k, k < n → 0 < dims k) (hnd : S.Nodup) (hlt : ∀ s ∈ S, s < n) (i j : Nat)
    (hi : i < subDim dims (others n S)) (hj : j < subDim dims (others n S)) :
    partialTrace X n dims S i j = ptraceSpec X n dims S i j :=
  partialTrace_eq_spec n dims S hd hnd hlt X i j hi hj

/-- **Additivity** (model level, no hypothesis on the arguments at all): the partial trace of a sum is the
    sum of the partial traces.  Needs `+` commutative and associative. -/
theorem ptrace_add {α : Type} [AddCommMonoid α] (X Y : Nat → Nat → α) (n : Nat) (dims : Nat → Nat)
    (S : List Nat) (i j : Nat) :
    partialTrace (fun r c => X r c + Y r c) n dims S i j
      = partialTrace X n dims S i j + partialTrace Y n dims S i j :=
  partialTrace_add X Y n dims S i j

/-- **Homogeneity** (model level, no hypothesis on the arguments): scalars pull out. -/
theorem ptrace_smul {α : Type} [NonUnitalNonAssocSemiring α] (c : α) (X : Nat → Nat → α) (n : Nat)
    (dims : Nat → Nat) (S : List Nat) (i j : Nat) :
    partialTrace (fun r c' => c * X r c') n dims S i j = c * partialTrace X n dims S i j :=
  partialTrace_smul c X n dims S i j

/-- **Tr_B (A ⊗ B) = Tr(B) · A** for two subsystems of dimensions `dA`, `dB`: if
    `X[(a,b),(a',b')] = A[a,a'] * B[b,b']` then tracing out the second subsystem gives
    `(Σ_b B[b,b]) * A[a,a']`. -/
theorem ptrace_bipartite_kron {α : Type} [CommSemiring α] (A B X : Nat → Nat → α) (dA dB : Nat)
    (hA : 0 < dA) (hB : 0 < dB)
    (hX : ∀ a a' b b', a < dA → a' < dA → b < dB → b' < dB →
      X (a * dB + b) (a' * dB + b') = A a a' * B b b')
    (a a' : Nat) (ha : a < dA) (ha' : a' < dA) :
    partialTrace X 2 (fnOfList [dA, dB]) [1] a a' = (sumN dB fun b => B b b) * A a a' := by
  have hd : ∀ k, k < 2 → 0 < fnOfList [dA, dB] 0 k := by
    intro k hk
    have : k = 0 ∨ k = 1 := by omega
    rcases this with rfl | rfl <;> simpa [fnOfList]
  have hK : subDim (fnOfList [dA, dB]) (others 2 [1]) = dA := by
    rw [others_2_1]; simp [subDim, subDims, prodN, fnOfList]
  have hT : subDim (fnOfList [dA, dB]) [1] = dB := by simp [subDim, subDims, prodN, fnOfList]
  rw [ptrace_eq_spec X 2 _ [1] hd (by simp) (by simp) a a' (by rw [hK]; exact ha) (by rw [hK]; exact ha')]
  unfold ptraceSpec
  rw [hT, ← sumN_mul_right]
  apply sumN_congr
  intro t ht
  rw [join_2_1 dA dB a t ha ht, join_2_1 dA dB a' t ha' ht, hX a a' t t ha ha' ht ht, mul_comm]

/-- **Tr_A (A ⊗ B) = Tr(A) · B**: tracing out the first of two subsystems. -/
theorem ptrace_bipartite_kron_first {α : Type} [CommSemiring α] (A B X : Nat → Nat → α) (dA dB : Nat)
    (hA : 0 < dA) (hB : 0 < dB)
    (hX : ∀ a a' b b', a < dA → a' < dA → b < dB → b' < dB →
      X (a * dB + b) (a' * dB + b') = A a a' * B b b')
    (b b' : Nat) (hb : b < dB) (hb' : b' < dB) :
    partialTrace X 2 (fnOfList [dA, dB]) [0] b b' = (sumN dA fun a => A a a) * B b b' := by
  have hd : ∀ k, k < 2 → 0 < fnOfList [dA, dB] 0 k := by
    intro k hk
    have : k = 0 ∨ k = 1 := by omega
    rcases this with rfl | rfl <;> simpa [fnOfList]
  have hK : subDim (fnOfList [dA, dB]) (others 2 [0]) = dB := by
    rw [others_2_0]; simp [subDim, subDims, prodN, fnOfList]
  have hT : subDim (fnOfList [dA, dB]) [0] = dA := by simp [subDim, subDims, prodN, fnOfList]
  rw [ptrace_eq_spec X 2 _ [0] hd (by simp) (by simp) b b' (by rw [hK]; exact hb) (by rw [hK]; exact hb')]
  unfold ptraceSpec
  rw [hT, ← sumN_mul_right]
  apply sumN_congr
  intro t ht
  rw [join_2_0 dA dB b t hb ht, join_2_0 dA dB b' t hb' ht, hX t t b b' ht ht hb hb']

/-- **Trace preservation**: the trace of the model output (over the remaining subsystems) is the trace
    of the input.  Needs `+` commutative and associative (the summands are reordered). -/
theorem ptrace_trace {α : Type} [AddCommMonoid α] (X : Nat → Nat → α) (n : Nat) (dims : Nat → Nat)
    (S : List Nat) (hd : ∀ k, k < n → 0 < dims k) (hnd : S.Nodup) (hlt : ∀ s ∈ S, s < n) :
    sumN (subDim dims (others n S)) (fun i => partialTrace X n dims S i i)
      = sumN (prodN dims n) (fun r => X r r) := by
  rw [← ptraceSpec_trace X n dims S hd hnd hlt]
  apply sumN_congr
  intro i hi
  exact ptrace_eq_spec X n dims S hd hnd hlt i i hi hi

/-- **Tensor products of `n` operators**: `Tr_S (A_0 ⊗ … ⊗ A_{n-1}) = (Π_{s ∈ S} Tr A_s) · ⊗_{k ∉ S} A_k`,
    the remaining factors in their original order (commutative semiring of scalars). -/
theorem ptrace_kron {α : Type} [CommSemiring α] (A : Nat → Nat → Nat → α) (n : Nat) (dims : Nat → Nat)
    (S : List Nat) (hd : ∀ k, k < n → 0 < dims k) (hnd : S.Nodup) (hlt : ∀ s ∈ S, s < n) (i j : Nat)
    (hi : i < subDim dims (others n S)) (hj : j < subDim dims (others n S)) :
    partialTrace (kronMat n A dims) n dims S i j
      = prodFn S.length (fun m => tr (dims (S.getD m 0)) (A (S.getD m 0)))
        * kronMat (others n S).length (fun m => A ((others n S).getD m 0))
            (subDims dims (others n S)) i j := by
  rw [ptrace_eq_spec _ n dims S hd hnd hlt i j hi hj]
  exact ptraceSpec_kron A n dims S hd hnd hlt i j

/-- **The listing order of `S` is irrelevant**: any rearrangement `S'` of `S` gives the same operator
    (`+` commutative and associative). -/
theorem ptrace_order_irrelevant {α : Type} [AddCommMonoid α] (X : Nat → Nat → α) (n : Nat)
    (dims : Nat → Nat) (S S' : List Nat) (hd : ∀ k, k < n → 0 < dims k) (hp : S.Perm S')
    (hnd : S.Nodup) (hlt : ∀ s ∈ S, s < n) (i j : Nat)
    (hi : i < subDim dims (others n S)) (hj : j < subDim dims (others n S)) :
    partialTrace X n dims S i j = partialTrace X n dims S' i j := by
  have hO := others_perm_eq n S S' hp
  rw [ptrace_eq_spec X n dims S hd hnd hlt i j hi hj,
    ptrace_eq_spec X n dims S' hd (hp.nodup_iff.mp hnd) (fun s hs => hlt s (hp.mem_iff.mpr hs)) i j
      (by rw [← hO]; exact hi) (by rw [← hO]; exact hj)]
  exact ptraceSpec_perm X n dims S S' hd hp hnd hlt i j

/-- **Composition**: tracing out `S`, and then the subsystems `T'` of what remains (`T'` numbered within
    the remaining systems, whose dimensions are `subDims dims (others n S)`), is tracing out in one go
    the union `S ++ liftSys n S T'` (`liftSys` translates `T'` back to the original numbering).
    Needs `+` commutative and associative (a double sum is swapped). -/
theorem ptrace_comp {α : Type} [AddCommMonoid α] (X : Nat → Nat → α) (n : Nat) (dims : Nat → Nat)
    (S T' : List Nat) (hd : ∀ k, k < n → 0 < dims k) (hnd : S.Nodup) (hlt : ∀ s ∈ S, s < n)
    (hndT : T'.Nodup) (hltT : ∀ p ∈ T', p < (others n S).length) (i j : Nat)
    (hi : i < subDim (subDims dims (others n S)) (others (others n S).length T'))
    (hj : j < subDim (subDims dims (others n S)) (others (others n S).length T')) :
    partialTrace (partialTrace X n dims S) (others n S).length (subDims dims (others n S)) T' i j
      = partialTrace X n dims (S ++ liftSys n S T') i j :=
  partialTrace_comp n dims S T' hd hnd hlt hndT hltT X i j hi hj


/-! ## Relation to the subsystem permutation (C01) -/

/-- **Tracing out `S` is: move the subsystems in `S` behind the others with `permute_systems`
    (`perm = others ++ S`, the others keeping their order), then trace out the trailing block.**  `Y` is
    the permuted operator of C01 (`permuteMat`), its local dimensions are `dims ∘ perm`, and
    `trailing m s = [m, …, m+s-1]` are the last `s = |S|` of the `n = m + s` subsystems.  This is the
    mechanism of the code stated with the model of C01, for every `S` in any listing order. -/
theorem ptrace_via_permute {α : Type} [Add α] [Zero α] (X : Nat → Nat → α) (n : Nat) (dims : Nat → Nat)
    (S : List Nat) (hd : ∀ k, k < n → 0 < dims k) (hnd : S.Nodup) (hlt : ∀ s ∈ S, s < n) (i j : Nat)
    (hi : i < subDim dims (others n S)) (hj : j < subDim dims (others n S)) :
    partialTrace X n dims S i j
      = partialTrace (Toq.Perms.permuteMat X n (fnOfList (others n S ++ S)) dims dims false false) n
          (fun k => dims (fnOfList (others n S ++ S) 0 k)) (trailing (others n S).length S.length) i j := by
  have hlen := others_append_length n S hnd hlt
  rw [List.length_append] at hlen
  have hd' : ∀ k, k < n → 0 < dims (fnOfList (others n S ++ S) 0 k) :=
    fun k hk => hd _ (perm_lt n S hnd hlt k hk)
  have hndB : (trailing (others n S).length S.length).Nodup := List.nodup_range'
  have hltB : ∀ x ∈ trailing (others n S).length S.length, x < n := by
    intro x hx
    have := List.mem_range'_1.mp hx
    omega
  have hO : others n (trailing (others n S).length S.length) = List.range (others n S).length := by
    have := others_trailing (others n S).length S.length
    rwa [hlen] at this
  have hK := (subDim_comp_others n dims S).1
  rw [ptrace_eq_spec X n dims S hd hnd hlt i j hi hj,
    ptrace_eq_spec _ n _ _ hd' hndB hltB i j (by rw [hO, hK]; exact hi) (by rw [hO, hK]; exact hj)]
  exact ptraceSpec_via_permute X n dims S hnd hlt i j hi hj

/-! ## Hermiticity and positivity are preserved -/

/-- **Hermiticity is preserved** (any scalar type with an additive involution `star`, e.g. complex
    conjugation): if `X[J, I] = star X[I, J]` for all indices of the `N × N` operator, then the model
    output `Y` satisfies `Y[j, i] = star Y[i, j]` for all indices of the result. -/
theorem ptrace_hermitian {α : Type} [AddMonoid α] [StarAddMonoid α] (X : Nat → Nat → α) (n : Nat)
    (dims : Nat → Nat) (S : List Nat) (hd : ∀ k, k < n → 0 < dims k) (hnd : S.Nodup)
    (hlt : ∀ s ∈ S, s < n)
    (hX : ∀ I J, I < prodN dims n → J < prodN dims n → X J I = star (X I J)) (i j : Nat)
    (hi : i < subDim dims (others n S)) (hj : j < subDim dims (others n S)) :
    partialTrace X n dims S j i = star (partialTrace X n dims S i j) := by
  rw [ptrace_eq_spec X n dims S hd hnd hlt i j hi hj, ptrace_eq_spec X n dims S hd hnd hlt j i hj hi]
  exact ptraceSpec_star X n dims S hd hX i j

/-- **Positive semidefiniteness is preserved.**  Read the `N × N` operator and the `K × K` model output
    as Mathlib matrices (`toMat`).  If `X` is positive semidefinite (Hermitian with
    `x* X x ≥ 0` for every vector `x`; Mathlib's `Matrix.PosSemidef`, over any ordered star ring such as
    `ℂ` or `ℝ`), then so is its partial trace over any duplicate-free list of subsystems.  (The partial
    trace is the sum over the traced labels `t` of the compressions `X[join · t, join · t]`.) -/
theorem ptrace_posSemidef {R : Type} [Ring R] [PartialOrder R] [StarRing R] [AddLeftMono R]
    (X : Nat → Nat → R) (n : Nat) (dims : Nat → Nat) (S : List Nat) (hd : ∀ k, k < n → 0 < dims k)
    (hnd : S.Nodup) (hlt : ∀ s ∈ S, s < n) (hX : (toMat (prodN dims n) X).PosSemidef) :
    (toMat (subDim dims (others n S)) (partialTrace X n dims S)).PosSemidef := by
  rw [toMat_partialTrace X n dims S hd hnd hlt]
  exact ptraceSpec_posSemidef X n dims S hd hX

/-- … and Hermiticity in Mathlib's form `Yᴴ = Y` -/
theorem ptrace_isHermitian {R : Type} [AddCommMonoid R] [StarAddMonoid R]
    (X : Nat → Nat → R) (n : Nat) (dims : Nat → Nat) (S : List Nat) (hd : ∀ k, k < n → 0 < dims k)
    (hnd : S.Nodup) (hlt : ∀ s ∈ S, s < n) (hX : (toMat (prodN dims n) X).IsHermitian) :
    (toMat (subDim dims (others n S)) (partialTrace X n dims S)).IsHermitian := by
  rw [toMat_partialTrace X n dims S hd hnd hlt]
  exact ptraceSpec_isHermitian X n dims S hd hX

/-! ## Argument forms (`Toq/Model/PartialOpsArgs.lean` mirrors the normalisation block of the Python) -/

/-- **The default dimension is the nearest integer to `√N`.**  `roundSqrt N` (the model of
    `int(np.round(np.sqrt(N)))`) equals `r` exactly when `(r - ½)² < N < (r + ½)²`, written in
    integers. -/
theorem roundSqrt_nearest (N r : Nat) (hN : 0 < N) :
    roundSqrt N = r ↔ r * r - r < N ∧ N ≤ r * r + r :=
  ⟨fun h => h ▸ roundSqrt_bounds N hN, fun h => roundSqrt_unique N r h.1 h.2⟩

/-- … in particular it is exact on perfect squares -/
theorem roundSqrt_square (r : Nat) : roundSqrt (r * r) = r := by
  rcases Nat.eq_zero_or_pos r with rfl | hr
  · rfl
  · apply roundSqrt_unique
    · have : 0 < r * r := Nat.mul_pos hr hr
      omega
    · omega

/-- **A bare integer `sys = s` means the one-element list `[s]`; an omitted `sys` means `[1]`; a
    one-element `dim = [d]` means the scalar `d`; an omitted `dim` on a perfect-square size means the
    scalar `round(√N)`.** -/
theorem ptrace_args_forms {α : Type} [Add α] [Zero α] (X : Nat → Nat → α) (N : Nat) (s : Int) (d : Nat)
    (sys : SysArg) (dim : DimArg) :
    partialTraceArgs X N (.int s) dim = partialTraceArgs X N (.list [s]) dim ∧
    partialTraceArgs X N .omitted dim = partialTraceArgs X N (.list [1]) dim ∧
    partialTraceArgs X N sys (.list [d]) = partialTraceArgs X N sys (.scalar d) ∧
    (roundSqrt N * roundSqrt N = N →
      partialTraceArgs X N sys .omitted = partialTraceArgs X N sys (.scalar (roundSqrt N))) := by
  refine ⟨rfl, rfl, rfl, fun h => ?_⟩
  unfold partialTraceArgs
  rw [decodeDim_omitted N h, decodeDim_scalar]

/-- **An omitted `dim` is rejected unless the size is a perfect square** (whatever `sys` is): the
    default "two equal subsystems" has no meaning otherwise. -/
theorem ptrace_args_omitted_rejects {α : Type} [Add α] [Zero α] (X : Nat → Nat → α) (N : Nat)
    (sys : SysArg) (h : ∀ r, r * r ≠ N) :
    partialTraceArgs X N sys .omitted = .error .InvalidDim := by
  unfold partialTraceArgs
  rw [decodeDim_omitted_reject N (h _)]
  rfl

/-- **List arguments: the call is accepted exactly on the documented domain, and then returns the
    partial trace.**  For an `N × N` input (`N ≥ 1`), a dimension list `dl` of length `n ≠ 1` and a list
    `sys` of integers, `partial_trace` returns (rather than raises) iff the dimensions multiply to `N`
    and `sys` is a duplicate-free list of numbers in `0 … n-1`; the result then is the `K × K` matrix
    (`K` = product of the remaining dimensions) computed by the mirror model, i.e. the index
    contraction `ptraceSpec`. -/
theorem ptrace_args_list {α : Type} [Add α] [Zero α] (X : Nat → Nat → α) (N : Nat) (hN : 0 < N)
    (dl : List Nat) (hlen : dl.length ≠ 1) (sys : List Int) :
    ((∃ r, partialTraceArgs X N (.list sys) (.list dl) = .ok r) ↔
      prodN (fnOfList dl) dl.length = N ∧
        ∃ S : List Nat, sys = S.map Int.ofNat ∧ S.Nodup ∧ ∀ s ∈ S, s < dl.length) ∧
    ∀ S : List Nat, sys = S.map Int.ofNat → S.Nodup → (∀ s ∈ S, s < dl.length) →
      prodN (fnOfList dl) dl.length = N →
      partialTraceArgs X N (.list sys) (.list dl)
        = .ok (subDim (fnOfList dl) (others dl.length S), partialTrace X dl.length (fnOfList dl) S) ∧
      ∀ i j, i < subDim (fnOfList dl) (others dl.length S) → j < subDim (fnOfList dl) (others dl.length S) →
        partialTrace X dl.length (fnOfList dl) S i j = ptraceSpec X dl.length (fnOfList dl) S i j := by
  have he : decodeDim N (.list dl) = .ok dl := expandDim_of_length N dl hlen
  have main : ∀ S : List Nat, sys = S.map Int.ofNat → S.Nodup → (∀ s ∈ S, s < dl.length) →
      prodN (fnOfList dl) dl.length = N →
      partialTraceArgs X N (.list sys) (.list dl)
        = .ok (subDim (fnOfList dl) (others dl.length S), partialTrace X dl.length (fnOfList dl) S) ∧
      ∀ i j, i < subDim (fnOfList dl) (others dl.length S) → j < subDim (fnOfList dl) (others dl.length S) →
        partialTrace X dl.length (fnOfList dl) S i j = ptraceSpec X dl.length (fnOfList dl) S i j := by
    intro S hS hnd hlt hprod
    have hd : ∀ k, k < dl.length → 0 < fnOfList dl 0 k :=
      Toq.Perms.pos_of_lt_prodN _ _ 0 (by rw [hprod]; exact hN)
    have hs : checkSys dl.length (SysArg.list sys).toList false = .ok S := by
      rw [hS]; exact checkSys_ok _ S false hnd hlt
    refine ⟨?_, fun i j hi hj => ptrace_eq_spec X _ _ S hd hnd hlt i j hi hj⟩
    rw [partialTraceArgs_of X N (.list sys) (.list dl) dl S he hs hprod, ← hprod,
      model_K dl.length (fnOfList dl) S hd hnd hlt]
  refine ⟨⟨?_, ?_⟩, main⟩
  · rintro ⟨r, hr⟩
    obtain ⟨dl', S, he', hs, hprod⟩ := partialTraceArgs_ok_inv X N _ _ r hr
    have : dl' = dl := by
      have h := he.symm.trans he'
      injection h with h; exact h.symm
    subst this
    exact ⟨hprod, S, (checkSys_ok_iff _ _ _ _).mp hs⟩
  · rintro ⟨hprod, S, hS, hnd, hlt⟩
    exact ⟨_, (main S hS hnd hlt hprod).1⟩

/-- **A scalar dimension `d` means the dimensions `[d, N/d]`**: if `d ≥ 1` divides `N`, the call with
    `dim = d` is the call with `dim = [d, N/d]` (whatever `sys` is) … -/
theorem ptrace_args_scalar {α : Type} [Add α] [Zero α] (X : Nat → Nat → α) (N d : Nat) (sys : SysArg)
    (hd : 0 < d) (hdiv : d ∣ N) :
    partialTraceArgs X N sys (.scalar d) = partialTraceArgs X N sys (.list [d, N / d]) := by
  unfold partialTraceArgs
  rw [decodeDim_scalar, decodeDim_list, expandDim_scalar N d hd hdiv, expandDim_of_length N [d, N / d] (by simp)]

/-- … and if `d` does not divide `N` (or is `0`) the call is rejected with the "must evenly divide"
    error -/
theorem ptrace_args_scalar_rejects {α : Type} [Add α] [Zero α] (X : Nat → Nat → α) (N d : Nat)
    (sys : SysArg) (h : d = 0 ∨ ¬ d ∣ N) :
    partialTraceArgs X N sys (.scalar d) = .error .InvalidDim := by
  unfold partialTraceArgs
  rw [decodeDim_scalar, expandDim_scalar_reject N d h]
  rfl

/-- **Omitted arguments mean two equal subsystems with the second traced out.**  For an
    `r² × r²` input (`r ≥ 1`), `partial_trace(X)` is accepted and returns the `r × r` matrix
    `Y[i, j] = Σ_{t<r} X[i*r + t, j*r + t]`. -/
theorem ptrace_args_omitted {α : Type} [Add α] [Zero α] (X : Nat → Nat → α) (r : Nat) (hr : 0 < r) :
    partialTraceArgs X (r * r) .omitted .omitted
        = .ok (r, partialTrace X 2 (fnOfList [r, r]) [1]) ∧
      ∀ i j, i < r → j < r →
        partialTrace X 2 (fnOfList [r, r]) [1] i j = sumN r (fun t => X (i * r + t) (j * r + t)) := by
  have hd : ∀ k, k < 2 → 0 < fnOfList [r, r] 0 k := by
    intro k hk
    have : k = 0 ∨ k = 1 := by omega
    rcases this with rfl | rfl <;> simpa [fnOfList]
  have hK : subDim (fnOfList [r, r]) (others 2 [1]) = r := by
    rw [others_2_1]; simp [subDim, subDims, prodN, fnOfList]
  have hT : subDim (fnOfList [r, r]) [1] = r := by simp [subDim, subDims, prodN, fnOfList]
  constructor
  · have he : decodeDim (r * r) .omitted = .ok [r, r] := by
      rw [decodeDim_omitted (r * r) (by rw [roundSqrt_square]), roundSqrt_square,
        expandDim_scalar (r * r) r hr ⟨r, rfl⟩, Nat.mul_div_cancel _ hr]
    have hs : checkSys [r, r].length (SysArg.omitted).toList false = .ok [1] :=
      checkSys_ok 2 [1] false (by simp) (by simp)
    have hprod : prodN (fnOfList [r, r]) [r, r].length = r * r := by simp [prodN, fnOfList]
    rw [partialTraceArgs_of X (r * r) .omitted .omitted [r, r] [1] he hs hprod]
    have := model_K 2 (fnOfList [r, r]) [1] hd (by simp) (by simp)
    rw [hK] at this
    show Except.ok (r * r / prodList (fnOfList [r, r]) [1], _) = _
    rw [← hprod]
    show Except.ok (prodN (fnOfList [r, r]) 2 / prodList (fnOfList [r, r]) [1], _) = _
    rw [this]
    rfl
  · intro i j hi hj
    rw [ptrace_eq_spec X 2 _ [1] hd (by simp) (by simp) i j (by rw [hK]; exact hi) (by rw [hK]; exact hj)]
    unfold ptraceSpec
    rw [hT]
    apply sumN_congr
    intro t ht
    rw [join_2_1 r r i t hi ht, join_2_1 r r j t hj ht]

/-! ## The cvxpy `Variable` branch -/

/-- **A numeric array and a cvxpy variable holding that array give the same result.**  The `Variable`
    branch runs the same code on the object array of index atoms `V[i, j]` and packs the result with
    `bmat`.  For every argument form and every value `val` (any scalar type with `+` and `0`, no laws
    needed): the variable call is accepted iff the numeric call is, with the same shape, and the
    value of the returned expression at `(i, j)` is entry `(i, j)` of the numeric result. -/
theorem ptrace_cvx_value {β : Type} [Add β] [Zero β] (val : Nat → Nat → β) (N : Nat) (sys : SysArg)
    (dim : DimArg) :
    partialTraceArgs val N sys dim
      = (partialTraceCvx N sys dim).map (fun r => (r.1, fun i j => (r.2 i j).eval val)) := by
  unfold partialTraceCvx partialTraceArgs
  simp only [bind, Except.bind, Except.map]
  split
  · rfl
  split
  · rfl
  split
  · rfl
  · simp only [pure, Except.pure]
    congr 2
    funext i j
    exact (partialTrace_cvx_eval val _ _ _ i j).symm

/-- **The returned expression is literally the sum of the atoms `V[join i t, join j t]`**, `t` running
    over the labels of the traced subsystems in increasing order: its list of index atoms (left to
    right) is exactly that list.  So the variable branch traces the same subsystems, keeps the others in
    their original order, and introduces no other dependence on the variable. -/
theorem ptrace_cvx_atoms (n : Nat) (dims : Nat → Nat) (S : List Nat) (hd : ∀ k, k < n → 0 < dims k)
    (hnd : S.Nodup) (hlt : ∀ s ∈ S, s < n) (i j : Nat)
    (hi : i < subDim dims (others n S)) (hj : j < subDim dims (others n S)) :
    (partialTrace exprAsNpArray n dims S i j).leaves
      = (List.range (subDim dims S)).map (fun t => (join n dims S i t, join n dims S j t)) := by
  rw [ptrace_eq_spec exprAsNpArray n dims S hd hnd hlt i j hi hj]
  unfold ptraceSpec
  rw [leaves_sumN]
  show (List.range (subDim dims S)).flatMap (fun t => [(join n dims S i t, join n dims S j t)]) = _
  generalize List.range (subDim dims S) = L
  induction L with
  | nil => rfl
  | cons a L ih => rw [List.flatMap_cons, ih]; rfl

/-! ### non-vacuity -/

/-- the docstring example of `partial_trace.py`: the 16×16 matrix `1..256`, four qubits, `sys = [0, 2]`;
    the hypotheses of the theorems hold there and the model returns the documented matrix -/
example : (∀ k, k < 4 → 0 < fnOfList [2, 2, 2, 2] 0 k) ∧ [0, 2].Nodup ∧ (∀ s ∈ [0, 2], s < 4) ∧
    subDim (fnOfList [2, 2, 2, 2]) (others 4 [0, 2]) = 4 ∧
    listOfFn 4 (fun i => listOfFn 4
      (partialTrace (fun r c => 16 * r + c + 1) 4 (fnOfList [2, 2, 2, 2]) [0, 2] i))
      = [[344, 348, 360, 364], [408, 412, 424, 428], [600, 604, 616, 620], [664, 668, 680, 684]] := by
  decide

/-- unequal dimensions with a trivial factor and an unsorted `S`: model and specification agree, and
    the result does not depend on the listing order -/
example : others 3 [2, 0] = [1] ∧ subDim (fnOfList [2, 1, 3]) [2, 0] = 6 ∧
    listOfFn 1 (fun i => listOfFn 1 (partialTrace (fun r c => 10 * r + c) 3 (fnOfList [2, 1, 3]) [2, 0] i))
      = listOfFn 1 (fun i => listOfFn 1 (ptraceSpec (fun r c => 10 * r + c) 3 (fnOfList [2, 1, 3]) [2, 0] i)) ∧
    listOfFn 1 (fun i => listOfFn 1 (partialTrace (fun r c => 10 * r + c) 3 (fnOfList [2, 1, 3]) [0, 2] i))
      = [[165]] := by
  decide

/-- composition on `dims = [2,3,2]`: trace out `S = [1]`, then `T' = [1]` of the remaining two systems
    (original subsystem 2); the union is `[1, 2]` -/
example : liftSys 3 [1] [1] = [2] ∧
    listOfFn 2 (fun i => listOfFn 2
      (partialTrace (partialTrace (fun r c => 12 * r + c) 3 (fnOfList [2, 3, 2]) [1]) 2
        (subDims (fnOfList [2, 3, 2]) (others 3 [1])) [1] i))
    = listOfFn 2 (fun i => listOfFn 2
      (partialTrace (fun r c => 12 * r + c) 3 (fnOfList [2, 3, 2]) [1, 2] i)) := by
  decide

/-- summary of a front-end result for the examples: shape and entries, or the rejection -/
def showResult : Except Rej (Nat × (Nat → Nat → Int)) → Option Rej × Option (Nat × List (List Int))
  | .ok p => (none, some (p.1, listOfFn p.1 (fun i => listOfFn p.1 (p.2 i))))
  | .error e => (some e, none)

/-- argument forms on the docstring matrix `1..16`: omitted arguments = `dim [2,2]`, `sys [1]`
    (documented result `[[7,11],[23,27]]`); `sys = 0` with scalar `dim = 2` -/
example :
    showResult (partialTraceArgs (fun r c => (4 * r + c + 1 : Int)) 4 .omitted .omitted)
      = (none, some (2, [[7, 11], [23, 27]])) ∧
    showResult (partialTraceArgs (fun r c => (4 * r + c + 1 : Int)) 4 (.int 0) (.scalar 2))
      = (none, some (2, [[12, 14], [20, 22]])) := by decide

/-- the rejected forms: repeated, negative, out-of-range subsystem -/
example :
    showResult (partialTraceArgs (fun r c => (4 * r + c + 1 : Int)) 4 (.list [0, 0]) (.list [2, 2]))
      = (some .InvalidPerm, none) ∧
    showResult (partialTraceArgs (fun r c => (4 * r + c + 1 : Int)) 4 (.list [-1]) (.list [2, 2]))
      = (some .InvalidPerm, none) ∧
    showResult (partialTraceArgs (fun r c => (4 * r + c + 1 : Int)) 4 (.int 2) (.list [2, 2]))
      = (some .IndexError, none) := by decide

/-- … non-dividing scalar, wrong product -/
example :
    showResult (partialTraceArgs (fun r c => (4 * r + c + 1 : Int)) 4 (.int 0) (.scalar 3))
      = (some .InvalidDim, none) ∧
    showResult (partialTraceArgs (fun r c => (4 * r + c + 1 : Int)) 4 (.int 0) (.list [2, 3]))
      = (some .InvalidDim, none) := by decide

/-- the default on a size that is not a perfect square is rejected (`6`, `8`, `2`, `12`), also for a
    cvxpy variable; on `9 = 3²` it is accepted with two equal subsystems -/
example :
    roundSqrt 6 = 2 ∧ roundSqrt 8 = 3 ∧ roundSqrt 2 = 1 ∧ roundSqrt 12 = 3 ∧ roundSqrt 13 = 4 := by decide

example :
    showResult (partialTraceArgs (fun r c => (6 * r + c : Int)) 6 .omitted .omitted)
      = (some .InvalidDim, none) ∧
    showResult (partialTraceArgs (fun r c => (8 * r + c : Int)) 8 .omitted .omitted)
      = (some .InvalidDim, none) ∧
    showResult (partialTraceArgs (fun r c => (2 * r + c : Int)) 2 (.int 0) .omitted)
      = (some .InvalidDim, none) := by decide

example :
    showResult (partialTraceArgs (fun r c => (12 * r + c : Int)) 12 .omitted .omitted)
      = (some .InvalidDim, none) ∧
    ((partialTraceCvx 6 .omitted .omitted).toOption.map (fun r => r.1)) = none ∧
    ((partialTraceCvx 9 .omitted .omitted).toOption.map (fun r => (r.1, (r.2 0 1).leaves)))
      = some (3, [(0, 3), (1, 4), (2, 5)]) := by decide

/-- the cvxpy branch on `dims = [2, 3]`, `sys = [0]`: entry `(1, 2)` of the returned expression is
    `V[1, 2] + V[4, 5]` -/
example :
    ((partialTraceCvx 6 (.list [0]) (.list [2, 3])).toOption.map (fun r => (r.1, (r.2 1 2).leaves)))
      = some (3, [(1, 2), (4, 5)]) := by decide

/-- the hypothesis of `ptrace_posSemidef` is satisfiable: the identity on two qubits is positive
    semidefinite (and then so is its partial trace, `2·I`) -/
example : (toMat (prodN (fnOfList [2, 2]) 2) (fun i j => if i = j then (1 : ℤ) else 0)).PosSemidef := by
  have : toMat (prodN (fnOfList [2, 2]) 2) (fun i j => if i = j then (1 : ℤ) else 0) = 1 := by
    ext i j
    simp [toMat, Matrix.one_apply, Fin.ext_iff]
  rw [this]
  exact Matrix.PosSemidef.one

/-- `ptrace_via_permute` on `dims = [2,3,2]`, `S = [2, 0]`: `perm = [1, 2, 0]`, the permuted operator has
    dims `[3, 2, 2]` and its trailing block `[1, 2]` is traced -/
example : others 3 [2, 0] ++ [2, 0] = [1, 2, 0] ∧ trailing 1 2 = [1, 2] ∧
    listOfFn 3 (fun i => listOfFn 3 (partialTrace (fun r c => 12 * r + c) 3 (fnOfList [2, 3, 2]) [2, 0] i))
      = listOfFn 3 (fun i => listOfFn 3
          (partialTrace (Toq.Perms.permuteMat (fun r c => 12 * r + c) 3 (fnOfList [1, 2, 0])
            (fnOfList [2, 3, 2]) (fnOfList [2, 3, 2]) false false) 3 (fnOfList [3, 2, 2]) [1, 2] i)) := by
  decide

end Toq.C02
