import Toq.Model.Games
import Toq.Spec.Games
import Toq.Proofs.Games
import Mathlib.Tactic.NormNum.Basic
import Mathlib.Tactic.Positivity
/-!
# C07 — nonlocal game: the classical value is exact; product and BCS games; purity of the value methods

Property theorems only (helper lemmas: `Toq/Proofs/Games.lean`; mirror model: `Toq/Model/Games.lean`;
specification: `Toq/Spec/Games.lean`).

`classicalValue` follows `NonlocalGame.classical_value` line by line, **including** its iteration bound
`num_iterations = num_alice_outputs ** num_bob_inputs`.  That bound is wrong when (after the role swap) the
enumerated player has more answers than the other one: strategies are skipped.  Therefore

* the full statement `∀ sizes, classicalValue = maxDetValue` is **false** (`classicalValue_counterexample`);
* it is proved under the exact completeness condition on the sizes (`classicalValue_eq_maxDet_partial`);
* the one-token repair `num_bob_outputs ** num_bob_inputs` is proved for all sizes
  (`classicalValueFixed_eq_maxDet`), and the correspondence harness compares the implementation with the
  specification `maxDetValue` (through `classicalValueFixed` and the brute force `maxDetBrute`).

The ordering of the SDP-based values (NPA levels, non-signalling value) is not in this file (certificate part).
-/
namespace Toq.C07
open Toq.Games Toq.Games.Spec

/-- **Repaired `classical_value` = classical value, all sizes.**  For all numbers of answers (`ao`, `bo` ≥ 1)
    and questions, every rational distribution and predicate, the repaired enumeration returns the maximum of
    `Σ_{x,y} prob x y · pred (f x) (g y) x y` over all pairs of answer functions. -/
theorem classicalValueFixed_eq_maxDet (ao bo ai bi : Nat) [NeZero ao] [NeZero bo] (prob : Prob) (pred : Pred) :
    classicalValueFixed ao bo ai bi prob pred = some (maxDetValue ao bo ai bi prob pred) := by
  obtain ⟨v, hv, hmax⟩ := classicalValueGen_isMaxDet true ao bo ai bi prob pred
    (Nat.pos_of_ne_zero (NeZero.ne ao)) (Nat.pos_of_ne_zero (NeZero.ne bo)) (Or.inl rfl)
  rw [← isMaxDet_eq ao bo ai bi prob pred v hmax]
  exact hv

/- Full statement (FALSE for the code as it is, see `classicalValue_counterexample`):
   `∀ ao bo ai bi prob pred, classicalValue ao bo ai bi prob pred = some (maxDetValue ao bo ai bi prob pred)`.
   What is missing is exactly the hypothesis `EnumComplete`. -/

/-- **`classical_value` as it is = classical value, when the enumeration is complete**: if Alice has fewer
    strategies (`ao^ai < bo^bi`, roles swapped) the condition is `ao^ai ≤ bo^ai`, otherwise `bo^bi ≤ ao^bi`
    (e.g. whenever both players have the same number of answers). -/
theorem classicalValue_eq_maxDet_partial (ao bo ai bi : Nat) [NeZero ao] [NeZero bo] (prob : Prob) (pred : Pred)
    (hc : EnumComplete ao bo ai bi) :
    classicalValue ao bo ai bi prob pred = some (maxDetValue ao bo ai bi prob pred) := by
  obtain ⟨v, hv, hmax⟩ := classicalValueGen_isMaxDet false ao bo ai bi prob pred
    (Nat.pos_of_ne_zero (NeZero.ne ao)) (Nat.pos_of_ne_zero (NeZero.ne bo)) (Or.inr hc)
  rw [← isMaxDet_eq ao bo ai bi prob pred v hmax]
  exact hv

/-- equal answer alphabets (every game of toqito's own test-suite) satisfy the completeness condition -/
theorem enumComplete_of_eq (ao ai bi : Nat) : EnumComplete ao ao ai bi := by
  unfold EnumComplete; split <;> exact le_refl _

/-- the completeness condition is satisfiable with unequal sizes, and fails on the counterexample sizes -/
example : EnumComplete 3 2 2 3 ∧ EnumComplete 2 3 1 2 ∧ ¬ EnumComplete 2 3 2 1 ∧ ¬ EnumComplete 3 2 1 2 := by
  decide

/-- counterexample game: Alice 2 answers / 2 questions, Bob 3 answers / 1 question, uniform questions,
    the players win iff Bob answers `2` -/
def cexProb : Prob := fun _ _ => 1 / 2
/-- see `cexProb` -/
def cexPred : Pred := fun _ b _ _ => if b = 2 then 1 else 0

/-- **The code as it is violates the property**: on the `(2,3,2,1)` game where Bob wins by answering `2`
    the mirror of the unchanged code returns 0 (it only tries Bob's answers 0 and 1: `2**1` iterations instead
    of `3**1`), while the classical value is 1. -/
theorem classicalValue_counterexample :
    classicalValue 2 3 2 1 cexProb cexPred = some 0 ∧ maxDetValue 2 3 2 1 cexProb cexPred = 1 := by
  refine ⟨by decide +kernel, ?_⟩
  have h := classicalValueFixed_eq_maxDet 2 3 2 1 cexProb cexPred
  have h2 : classicalValueFixed 2 3 2 1 cexProb cexPred = some 1 := by decide +kernel
  rw [h2] at h
  exact (Option.some.inj h).symm

/-- **The code as it is never overshoots**: for all sizes, what `classical_value` returns is the value of
    *some* pair of answer functions, hence at most the classical value (a skipped strategy can only lose). -/
theorem classicalValue_le_maxDet (ao bo ai bi : Nat) [NeZero ao] [NeZero bo] (prob : Prob) (pred : Pred) :
    ∃ v, classicalValue ao bo ai bi prob pred = some v ∧ v ≤ maxDetValue ao bo ai bi prob pred := by
  obtain ⟨v, hv, f, g, hfg⟩ := classicalValueGen_attained false ao bo ai bi prob pred
    (Nat.pos_of_ne_zero (NeZero.ne ao)) (Nat.pos_of_ne_zero (NeZero.ne bo))
  exact ⟨v, hv, by rw [← hfg]; exact (maxDetValue_isMaxDet ao bo ai bi prob pred).2 f g⟩

/-- **The executable brute force is the specification**: enumerating all `ao^ai · bo^bi` pairs of answer
    functions by their digit codes gives `maxDetValue` (this is the oracle `c07_max_det` of the driver). -/
theorem maxDetBrute_eq_maxDet (ao bo ai bi : Nat) [NeZero ao] [NeZero bo] (prob : Prob) (pred : Pred) :
    maxDetBrute ao bo ai bi prob pred = some (maxDetValue ao bo ai bi prob pred) := by
  obtain ⟨v, hv, hmax⟩ := maxDetBrute_isMaxDet ao bo ai bi prob pred
    (Nat.pos_of_ne_zero (NeZero.ne ao)) (Nat.pos_of_ne_zero (NeZero.ne bo))
  rw [← isMaxDet_eq ao bo ai bi prob pred v hmax]
  exact hv

/-- **`classical_value ≤ 1`** (either iteration bound): if `prob` is a probability distribution and the
    predicate has entries in `[0, 1]`, the returned value lies in `[0, 1]`. -/
theorem classical_le_one (fixed : Bool) (ao bo ai bi : Nat) (hao : 0 < ao) (hbo : 0 < bo) (prob : Prob) (pred : Pred)
    (hp : IsDistribution ai bi prob) (hv : PredIn01 ao bo ai bi pred) :
    ∃ v, classicalValueGen fixed ao bo ai bi prob pred = some v ∧ 0 ≤ v ∧ v ≤ 1 := by
  obtain ⟨v, h, f, g, hfg⟩ := classicalValueGen_attained fixed ao bo ai bi prob pred hao hbo
  exact ⟨v, h, by rw [← hfg]; exact detValue_nonneg ao bo ai bi prob pred hp hv f g,
    by rw [← hfg]; exact detValue_le_one ao bo ai bi prob pred hp hv f g⟩

/-- the hypotheses of `classical_le_one` are satisfiable on a non-trivial instance -/
example : IsDistribution 2 1 cexProb ∧ PredIn01 2 3 2 1 cexPred := by
  refine ⟨⟨fun _ _ _ _ => by unfold cexProb; positivity, by simp [cexProb]⟩, ?_⟩
  intro a b x y _ _ _ _
  unfold cexPred; split <;> norm_num

/-- **`update_odometer` counts**: after `i` calls starting from the zero vector, position `k` of a length-`n`
    odometer with limits `d` holds digit `k` of `i` (big-endian mixed radix `d`, modulo the capacity
    `d 0 · … · d (n-1)`: the odometer wraps to zero). -/
theorem odometer_counts (d : Nat → Nat) (hd : ∀ k, 0 < d k) (n i k : Nat) (hk : k < n) :
    iterOdo n d i k = dec d n (i % prodN d n) k :=
  iterOdo_eq_dec d hd n i k hk

/-- **Product game, predicate**: for `r = m + 1` repetitions, the entry of the constructed tensor at the
    codes (big-endian base `ao`, `bo`, `ai`, `bi`) of the per-round answers `a k`, `b k` and questions `x k`,
    `y k` is the product over the rounds of the base predicate entries. -/
theorem productGame_pred (ao bo ai bi m : Nat) (pred : Pred) (a b x y : Nat → Nat)
    (ha : ∀ k, k ≤ m → a k < ao) (hb : ∀ k, k ≤ m → b k < bo)
    (hx : ∀ k, k ≤ m → x k < ai) (hy : ∀ k, k ≤ m → y k < bi) :
    productPred ao bo ai bi (m + 1) pred (enc (fun _ => ao) a (m + 1)) (enc (fun _ => bo) b (m + 1))
        (enc (fun _ => ai) x (m + 1)) (enc (fun _ => bi) y (m + 1))
      = prodFn (m + 1) (fun k => pred (a k) (b k) (x k) (y k)) :=
  productPred_enc ao bo ai bi m pred a b x y ha hb hx hy

/-- **Product game, distribution**: `tensor(prob_mat, reps)` (exponentiation by squaring with `np.kron`) has,
    at the codes of the per-round questions, the product of the base probabilities — for every `reps ≥ 1`. -/
theorem productGame_prob (ai bi reps : Nat) (hr : 0 < reps) (prob : Prob) (x y : Nat → Nat)
    (hx : ∀ k, k < reps → x k < ai) (hy : ∀ k, k < reps → y k < bi) :
    productProb ai bi reps prob (enc (fun _ => ai) x reps) (enc (fun _ => bi) y reps)
      = prodFn reps (fun k => prob (x k) (y k)) :=
  fastExp_enc ai bi prob reps hr x y hx hy

/-- the hypotheses of the product-game theorems are satisfiable with unequal sizes (2 rounds) -/
example : ∃ a b x y : Nat → Nat, (∀ k, k ≤ 1 → a k < 2) ∧ (∀ k, k ≤ 1 → b k < 3) ∧
    (∀ k, k ≤ 1 → x k < 3) ∧ (∀ k, k ≤ 1 → y k < 2) ∧ enc (fun _ => 3) b 2 = 5 :=
  ⟨fun _ => 1, fun k => if k = 0 then 1 else 2, fun _ => 2, fun _ => 1,
    by intro k _; dsimp only; omega, by intro k _; dsimp only; split <;> omega,
    by intro k _; dsimp only; omega, by intro k _; dsimp only; omega, by decide⟩

/-- **BCS game scores exactly the satisfying consistent assignments**: for every assignment `s` of the `n`
    binary variables (Alice's answer is its binary code, first variable most significant), Bob's answer `b`,
    constraint `x` and variable `y < n`, the predicate entry is 1 if Bob's bit equals Alice's value of
    variable `y` *and* constraint `x` evaluates to 1 at `s`, and 0 otherwise. -/
theorem bcs_pred_iff (n : Nat) (c : Nat → Nat → Int) (s : Nat → Nat) (hs : ∀ k, k < n → s k < 2)
    (b x y : Nat) (hy : y < n) :
    (bcsPred n c (enc (fun _ => 2) s n) b x y = 1 ↔ (b = s y ∧ c x (enc (fun _ => 2) s n) = 1)) ∧
    (bcsPred n c (enc (fun _ => 2) s n) b x y = 0 ↔ ¬ (b = s y ∧ c x (enc (fun _ => 2) s n) = 1)) := by
  rw [bcsPred_enc n c s hs b x y hy]
  constructor <;> split <;> simp_all

/-- **Value methods are pure**: a call of any value method returns the object it was given (no attribute
    is assigned; in particular `classical_value` scales a *copy* of the predicate). -/
theorem methods_pure (sdp : Game → Op → Option Rat) (g : Game) (op : Op) : (step sdp g op).1 = g := by
  cases op <;> rfl

/-- **Values do not depend on evaluation order**: for any method semantics that is pure, the value a
    method returns after an arbitrary history of method calls on the object is the value it returns on the
    fresh object; instantiated with `step` via `methods_pure`. -/
theorem value_order_independent (sdp : Game → Op → Option Rat) (g : Game) (history : List Op) (op : Op) :
    (step sdp (run sdp g history).1 op).2 = (step sdp g op).2 := by
  unfold run
  rw [runWith_state (step sdp) (methods_pure sdp) g history]

end Toq.C07
