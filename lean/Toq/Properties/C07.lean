import Toq.Model.Games
import Toq.Spec.Games
import Toq.Proofs.Games
import Toq.Model.Npa
import Toq.Proofs.Npa
import Toq.Proofs.NpaPovm
import Toq.Proofs.NpaSeesaw
import Toq.Proofs.NpaMixed
import Toq.Model.GamesExtra
import Toq.Proofs.GamesExtra
import Toq.Model.GamesSeesaw
import Toq.Proofs.GamesSeesaw
import Mathlib.Tactic.NormNum.Basic
import Mathlib.Tactic.Positivity
/-!
# C07 — nonlocal game: the classical value is exact; product and BCS games; purity of the value methods

Property theorems only (helper lemmas: `Toq/Proofs/Games.lean`; mirror model: `Toq/Model/Games.lean`;
specification: `Toq/Spec/Games.lean`).

`classicalValue` follows `NonlocalGame.classical_value` line by line **as it was before the fix**, including its
iteration bound `num_iterations = num_alice_outputs ** num_bob_inputs`.  That bound is wrong when (after the role swap)
the enumerated player has more answers than the other one: strategies are skipped.  Therefore

* the full statement `∀ sizes, classicalValue = maxDetValue` is **false** (`classicalValue_counterexample`);
* it is proved under the exact completeness condition on the sizes (`classicalValue_eq_maxDet_partial`);
* the code as it is now (`num_bob_outputs ** num_bob_inputs`, mirror `classicalValueFixed`, used by the state machine
  `step`) is proved for all sizes (`classicalValueFixed_eq_maxDet`), and the correspondence harness compares the
  implementation with the specification `maxDetValue` (through `classicalValueFixed` and the brute force `maxDetBrute`).

The ordering clause ("classical value ≤ every NPA-level bound ≤ non-signalling value ≤ 1") is the second half of the
file: the mirror of the constraint generator `npa_constraints` (`Toq/Model/Npa.lean`) is proved **sound** for every
deterministic strategy at every level (`reduce_preserves_val`, `npa_sound_det`, `classical_le_npa_model`), its
assemblage part is the non-signalling polytope (`npa_le_ns_model`, `ns_contains_det`) and the non-signalling objective is
at most 1 (`ns_le_one`).  The tie to the code is the feasibility-embedding stream of the harness: the points of these
theorems are plugged into the constraint objects that toqito actually builds.
-/
namespace Toq.C07
open Toq.Games Toq.Games.Spec

/-- **Repaired `classical_value` = classical value, all sizes.**  For all numbers of answers (`ao`, `bo` ≥ 1)
    and questions, every rational distribution and predicate, the repaired enumeration returns the maximum of
    `Σ_{x,y} prob x y · pred (f x) (g y) x y` over all pairs of answer functions. -/
theorem classicalValueFixed_eq_maxDet (ao bo ai bi : Nat) [NeZero ao] [NeZero bo] (prob : Prob) (pred : Pred) :
    classicalValueFixed ao bo ai bi prob pred = some (maxDetValue ao bo ai bi prob pred) := by
  obtain ⟨v, hv, hmax⟩ := classicalValueGen_isMaxDet true ao bo ai bi prob pred
    (Nat.pos_of_ne_zero (NeZero.ne ao)) (Nat.pos_of_ne_zero (NeZero.ne bo)) (Or.inl rfl)
  rw [← isMaxDet_eq ao bo ai bi prob pred v hmax]
  exact hv

/- Full statement (FALSE for the code as it is, see `classicalValue_counterexample`):
   `∀ ao bo ai bi prob pred, classicalValue ao bo ai bi prob pred = some (maxDetValue ao bo ai bi prob pred)`.
   What is missing is exactly the hypothesis `EnumComplete`. -/

/-- **`classical_value` as it is = classical value, when the enumeration is complete**: if Alice has fewer
    strategies (`ao^ai < bo^bi`, roles swapped) the condition is `ao^ai ≤ bo^ai`, otherwise `bo^bi ≤ ao^bi`
    (e.g. whenever both players have the same number of answers). -/
theorem classicalValue_eq_maxDet_partial (ao bo ai bi : Nat) [NeZero ao] [NeZero bo] (prob : Prob) (pred : Pred)
    (hc : EnumComplete ao bo ai bi) :
    classicalValue ao bo ai bi prob pred = some (maxDetValue ao bo ai bi prob pred) := by
  obtain ⟨v, hv, hmax⟩ := classicalValueGen_isMaxDet false ao bo ai bi prob pred
    (Nat.pos_of_ne_zero (NeZero.ne ao)) (Nat.pos_of_ne_zero (NeZero.ne bo)) (Or.inr hc)
  rw [← isMaxDet_eq ao bo ai bi prob pred v hmax]
  exact hv

/-- equal answer alphabets (every game of toqito's own test-suite) satisfy the completeness condition -/
theorem enumComplete_of_eq (ao ai bi : Nat) : EnumComplete ao ao ai bi := by
  unfold EnumComplete; split <;> exact le_refl _

/-- the completeness condition is satisfiable with unequal sizes, and fails on the counterexample sizes -/
example : EnumComplete 3 2 2 3 ∧ EnumComplete 2 3 1 2 ∧ ¬ EnumComplete 2 3 2 1 ∧ ¬ EnumComplete 3 2 1 2 := by
  decide

/-- counterexample game: Alice 2 answers / 2 questions, Bob 3 answers / 1 question, uniform questions,
    the players win iff Bob answers `2` -/
def cexProb : Prob := fun _ _ => 1 / 2
/-- see `cexProb` -/
def cexPred : Pred := fun _ b _ _ => if b = 2 then 1 else 0

/-- **The code as it is violates the property**: on the `(2,3,2,1)` game where Bob wins by answering `2`
    the mirror of the unchanged code returns 0 (it only tries Bob's answers 0 and 1: `2**1` iterations instead
    of `3**1`), while the classical value is 1. -/
theorem classicalValue_counterexample :
    classicalValue 2 3 2 1 cexProb cexPred = some 0 ∧ maxDetValue 2 3 2 1 cexProb cexPred = 1 := by
  refine ⟨by decide +kernel, ?_⟩
  have h := classicalValueFixed_eq_maxDet 2 3 2 1 cexProb cexPred
  have h2 : classicalValueFixed 2 3 2 1 cexProb cexPred = some 1 := by decide +kernel
  rw [h2] at h
  exact (Option.some.inj h).symm

/-- **The code as it is never overshoots**: for all sizes, what `classical_value` returns is the value of
    *some* pair of answer functions, hence at most the classical value (a skipped strategy can only lose). -/
theorem classicalValue_le_maxDet (ao bo ai bi : Nat) [NeZero ao] [NeZero bo] (prob : Prob) (pred : Pred) :
    ∃ v, classicalValue ao bo ai bi prob pred = some v ∧ v ≤ maxDetValue ao bo ai bi prob pred := by
  obtain ⟨v, hv, f, g, hfg⟩ := classicalValueGen_attained false ao bo ai bi prob pred
    (Nat.pos_of_ne_zero (NeZero.ne ao)) (Nat.pos_of_ne_zero (NeZero.ne bo))
  exact ⟨v, hv, by rw [← hfg]; exact (maxDetValue_isMaxDet ao bo ai bi prob pred).2 f g⟩

/-- **The executable brute force is the specification**: enumerating all `ao^ai · bo^bi` pairs of answer
    functions by their digit codes gives `maxDetValue` (this is the oracle `c07_max_det` of the driver). -/
theorem maxDetBrute_eq_maxDet (ao bo ai bi : Nat) [NeZero ao] [NeZero bo] (prob : Prob) (pred : Pred) :
    maxDetBrute ao bo ai bi prob pred = some (maxDetValue ao bo ai bi prob pred) := by
  obtain ⟨v, hv, hmax⟩ := maxDetBrute_isMaxDet ao bo ai bi prob pred
    (Nat.pos_of_ne_zero (NeZero.ne ao)) (Nat.pos_of_ne_zero (NeZero.ne bo))
  rw [← isMaxDet_eq ao bo ai bi prob pred v hmax]
  exact hv

/-- **`classical_value ≤ 1`** (either iteration bound): if `prob` is a probability distribution and the
    predicate has entries in `[0, 1]`, the returned value lies in `[0, 1]`. -/
theorem classical_le_one (fixed : Bool) (ao bo ai bi : Nat) (hao : 0 < ao) (hbo : 0 < bo) (prob : Prob) (pred : Pred)
    (hp : IsDistribution ai bi prob) (hv : PredIn01 ao bo ai bi pred) :
    ∃ v, classicalValueGen fixed ao bo ai bi prob pred = some v ∧ 0 ≤ v ∧ v ≤ 1 := by
  obtain ⟨v, h, f, g, hfg⟩ := classicalValueGen_attained fixed ao bo ai bi prob pred hao hbo
  exact ⟨v, h, by rw [← hfg]; exact detValue_nonneg ao bo ai bi prob pred hp hv f g,
    by rw [← hfg]; exact detValue_le_one ao bo ai bi prob pred hp hv f g⟩

/-- the hypotheses of `classical_le_one` are satisfiable on a non-trivial instance -/
example : IsDistribution 2 1 cexProb ∧ PredIn01 2 3 2 1 cexPred := by
  refine ⟨⟨fun _ _ _ _ => by unfold cexProb; positivity, by simp [cexProb]⟩, ?_⟩
  intro a b x y _ _ _ _
  unfold cexPred; split <;> norm_num

/-- **`update_odometer` counts**: after `i` calls starting from the zero vector, position `k` of a length-`n`
    odometer with limits `d` holds digit `k` of `i` (big-endian mixed radix `d`, modulo the capacity
    `d 0 · … · d (n-1)`: the odometer wraps to zero). -/
theorem odometer_counts (d : Nat → Nat) (hd : ∀ k, 0 < d k) (n i k : Nat) (hk : k < n) :
    iterOdo n d i k = dec d n (i % prodN d n) k :=
  iterOdo_eq_dec d hd n i k hk

/-- **Product game, predicate**: for `r = m + 1` repetitions, the entry of the constructed tensor at the
    codes (big-endian base `ao`, `bo`, `ai`, `bi`) of the per-round answers `a k`, `b k` and questions `x k`,
    `y k` is the product over the rounds of the base predicate entries. -/
theorem productGame_pred (ao bo ai bi m : Nat) (pred : Pred) (a b x y : Nat → Nat)
    (ha : ∀ k, k ≤ m → a k < ao) (hb : ∀ k, k ≤ m → b k < bo)
    (hx : ∀ k, k ≤ m → x k < ai) (hy : ∀ k, k ≤ m → y k < bi) :
    productPred ao bo ai bi (m + 1) pred (enc (fun _ => ao) a (m + 1)) (enc (fun _ => bo) b (m + 1))
        (enc (fun _ => ai) x (m + 1)) (enc (fun _ => bi) y (m + 1))
      = prodFn (m + 1) (fun k => pred (a k) (b k) (x k) (y k)) :=
  productPred_enc ao bo ai bi m pred a b x y ha hb hx hy

/-- **Product game, distribution**: `tensor(prob_mat, reps)` (exponentiation by squaring with `np.kron`) has,
    at the codes of the per-round questions, the product of the base probabilities — for every `reps ≥ 1`. -/
theorem productGame_prob (ai bi reps : Nat) (hr : 0 < reps) (prob : Prob) (x y : Nat → Nat)
    (hx : ∀ k, k < reps → x k < ai) (hy : ∀ k, k < reps → y k < bi) :
    productProb ai bi reps prob (enc (fun _ => ai) x reps) (enc (fun _ => bi) y reps)
      = prodFn reps (fun k => prob (x k) (y k)) :=
  fastExp_enc ai bi prob reps hr x y hx hy

/-- the hypotheses of the product-game theorems are satisfiable with unequal sizes (2 rounds) -/
example : ∃ a b x y : Nat → Nat, (∀ k, k ≤ 1 → a k < 2) ∧ (∀ k, k ≤ 1 → b k < 3) ∧
    (∀ k, k ≤ 1 → x k < 3) ∧ (∀ k, k ≤ 1 → y k < 2) ∧ enc (fun _ => 3) b 2 = 5 :=
  ⟨fun _ => 1, fun k => if k = 0 then 1 else 2, fun _ => 2, fun _ => 1,
    by intro k _; dsimp only; omega, by intro k _; dsimp only; split <;> omega,
    by intro k _; dsimp only; omega, by intro k _; dsimp only; omega, by decide⟩

/-- **BCS game scores exactly the satisfying consistent assignments**: for every assignment `s` of the `n`
    binary variables (Alice's answer is its binary code, first variable most significant), Bob's answer `b`,
    constraint `x` and variable `y < n`, the predicate entry is 1 if Bob's bit equals Alice's value of
    variable `y` *and* constraint `x` evaluates to 1 at `s`, and 0 otherwise. -/
theorem bcs_pred_iff (n : Nat) (c : Nat → Nat → Int) (s : Nat → Nat) (hs : ∀ k, k < n → s k < 2)
    (b x y : Nat) (hy : y < n) :
    (bcsPred n c (enc (fun _ => 2) s n) b x y = 1 ↔ (b = s y ∧ c x (enc (fun _ => 2) s n) = 1)) ∧
    (bcsPred n c (enc (fun _ => 2) s n) b x y = 0 ↔ ¬ (b = s y ∧ c x (enc (fun _ => 2) s n) = 1)) := by
  rw [bcsPred_enc n c s hs b x y hy]
  constructor <;> split <;> simp_all

/-- **Value methods are pure**: a call of any value method returns the object it was given (no attribute
    is assigned; in particular `classical_value` scales a *copy* of the predicate). -/
theorem methods_pure (sdp : Game → Op → Option Rat) (g : Game) (op : Op) : (step sdp g op).1 = g := by
  cases op <;> rfl

/-- **Values do not depend on evaluation order**: for any method semantics that is pure, the value a
    method returns after an arbitrary history of method calls on the object is the value it returns on the
    fresh object; instantiated with `step` via `methods_pure`. -/
theorem value_order_independent (sdp : Game → Op → Option Rat) (g : Game) (history : List Op) (op : Op) :
    (step sdp (run sdp g history).1 op).2 = (step sdp g op).2 := by
  unfold run
  rw [runWith_state (step sdp) (methods_pure sdp) g history]

/-! ## Ordering of the values: soundness of the NPA relaxation and of the non-signalling program

Model: `Toq/Model/Npa.lean` (mirror of `toqito/helper/npa_hierarchy.py`), lemmas: `Toq/Proofs/Npa.lean`.
A level is `k : LevelArg` (an integer or a string like `'1+ab+aab'`), parsed by `levelSpec` into `(base, conf)`;
`LevelWF k` says that the extra terms of a string level consist of the letters `a`, `b` (documented form). -/
section Npa
open Toq.Npa

/-- **`_reduce` preserves the value of a word under every deterministic strategy** (the heart of the soundness
    of the hierarchy): for all answer functions `f`, `g` and every word `w`, with `val` = product of the
    indicator values `[f x = a]`, `[g y = b]` of its symbols (identity symbol ↦ 1):
    if `_reduce(w)` is a non-empty tuple it has the same value as `w`; if it is the empty tuple and `w`
    contains a measurement symbol then `w` has value 0 (the code's "zero word"); a word without any
    measurement symbol has value 1. -/
theorem reduce_preserves_val (f g : Nat → Nat) (w : Word) :
    (reduceWord w ≠ [] → val f g (reduceWord w) = val f g w) ∧
    (reduceWord w = [] → hasMeas w → val f g w = 0) ∧
    (¬ hasMeas w → val f g w = 1) := by
  refine ⟨(reduceFuel_val f g _ w).1, (reduceFuel_val f g _ w).2, fun h => ?_⟩
  have hs : sep w = [] := by
    by_contra hne
    exact h ((sep_ne_nil_iff w).mp hne)
  rw [← val_sep, hs]; rfl

/-- **The NPA constraint generator is sound for deterministic strategies, every size, every level.**
    For all numbers of answers and questions (`ai`, `bi` ≥ 1), every level `k` of the documented form, every
    game `(prob, pred)` and every pair of answer functions `(f, g)`: with `z_i = val(words[i])`, the moment
    matrix `R = z zᵀ` and the behaviour `K(a,b|x,y) = [a = f x][b = g y]` satisfy **every** constraint that the
    mirror of `npa_constraints` emits (normalisation, forced zeros, entries tied to the assemblage and its
    marginals, equal entries, `K ≥ 0`, `Σ K = 1`, no-signalling marginals; `R ⪰ 0` holds as a complex Hermitian
    matrix), and the objective `Σ prob·pred·K` equals the winning probability of `(f, g)`. -/
theorem npa_sound_det (ao bo ai bi : Nat) (hai : 0 < ai) (hbi : 0 < bi) (k : LevelArg) (hwf : LevelWF k)
    (base : Nat) (conf : List (Nat × Nat)) (hk : levelSpec k = some (base, conf))
    (prob : Prob) (pred : Pred) (f : Fin ai → Fin ao) (g : Fin bi → Fin bo) :
    let words := genWords base conf ao ai bo bi
    let z := detZ (ext f) (ext g) words
    let R : Nat → Nat → ℚ := fun i j => z i * z j
    let K := detK (ext f) (ext g)
    (∀ c ∈ npaConstraints ao bo ai bi base conf, Sat (PsdQ words.length R) ao bo R K c) ∧
      PsdQ words.length R ∧
      objective ao bo ai bi prob pred K = detValue ao bo ai bi prob pred f g := by
  intro words z R K
  have hconf := levelSpec_confOK k hwf base conf hk
  have hok : WordsOK words := genWords_ok base conf ao ai bo bi hconf
  have hpsd : PsdQ words.length R := psdQ_of_rank_one words.length z
  have hf : ∀ x, x < ai → ext f x < ao := fun x hx => ext_lt f x hx
  have hg : ∀ y, y < bi → ext g y < bo := fun y hy => ext_lt g y hy
  refine ⟨?_, hpsd, ?_⟩
  · intro c hc
    unfold npaConstraints at hc
    rcases List.mem_append.mp hc with h | h
    · exact momentConstrs_sound (ext f) (ext g) words _ hpsd ao bo hok (hf 0 hai) (hg 0 hbi) c h
    · exact assemblageConstrs_sound (ext f) (ext g) _ ao bo ai bi R hf hg c h
  · rw [objective_detK (ext f) (ext g) ao bo ai bi prob pred hf hg]
    exact detValueN_eq ao bo ai bi prob pred (ext f) (ext g) f g (fun x => ext_val f x) (fun y => ext_val g y)

/-- the levels of the property's quantifier are of the documented form and parse as expected -/
example : levelSpec (.int 2) = some (2, []) ∧ levelSpec (.str "1+ab") = some (1, [(1, 1)]) ∧
    levelSpec (.str "1+ab+aab") = some (1, [(1, 1), (2, 1)]) ∧ LevelWF (.int 1) ∧ LevelWF (.str "1+ab") := by
  refine ⟨rfl, by decide, by decide, trivial, ?_⟩
  simp only [LevelWF]
  decide

/-- why `LevelWF` is a hypothesis: a level string with a term without letters `a`/`b` (`'1+xy'`, `'1+22'`) parses to
    the configuration `(0, 0)`, `_gen_words` then appends the **empty** word (position 5 for 2×2×2×2 alphabets), and
    the generator emits both `R[5,5] = 0` and `R[0,5] = R[0,0]` (`= 1`): no positive semidefinite `R` satisfies them,
    so the program is infeasible (toqito returns `-inf` for such a level; outside the property's quantifier) -/
example : levelSpec (.str "1+xy") = some (1, [(0, 0)]) ∧ ¬ ConfOK [(0, 0)] ∧
    wordAt (genWords 1 [(0, 0)] 2 2 2 2) 5 = [] ∧
    Constr.zero 5 5 ∈ npaConstraints 2 2 2 2 1 [(0, 0)] ∧ Constr.same 0 5 0 0 ∈ npaConstraints 2 2 2 2 1 [(0, 0)] := by
  refine ⟨by decide, ?_, by decide +kernel, by decide +kernel, by decide +kernel⟩
  intro h
  have := h (0, 0) (by simp)
  simp at this

/-- **classical value ≤ every NPA-level bound (model).**  At every level the relaxation has a feasible point
    whose objective is the classical value; hence every number `B` that bounds the objective on the feasible set
    of the level-`k` relaxation (in particular its optimum) is at least the classical value. -/
theorem classical_le_npa_model (ao bo ai bi : Nat) [NeZero ao] [NeZero bo] (hai : 0 < ai) (hbi : 0 < bi)
    (k : LevelArg) (hwf : LevelWF k) (base : Nat) (conf : List (Nat × Nat)) (hk : levelSpec k = some (base, conf))
    (prob : Prob) (pred : Pred) :
    (∃ (R : Nat → Nat → ℚ) (K : Pred),
      (∀ c ∈ npaConstraints ao bo ai bi base conf,
        Sat (PsdQ (genWords base conf ao ai bo bi).length R) ao bo R K c) ∧
      objective ao bo ai bi prob pred K = maxDetValue ao bo ai bi prob pred) ∧
    ∀ B : ℚ, (∀ (R : Nat → Nat → ℚ) (K : Pred),
        (∀ c ∈ npaConstraints ao bo ai bi base conf,
          Sat (PsdQ (genWords base conf ao ai bo bi).length R) ao bo R K c) →
        objective ao bo ai bi prob pred K ≤ B) → maxDetValue ao bo ai bi prob pred ≤ B := by
  obtain ⟨⟨f, g, hfg⟩, _⟩ := maxDetValue_isMaxDet ao bo ai bi prob pred
  obtain ⟨h1, _, h3⟩ := npa_sound_det ao bo ai bi hai hbi k hwf base conf hk prob pred f g
  refine ⟨⟨_, _, h1, h3.trans hfg⟩, fun B hB => ?_⟩
  rw [← hfg, ← h3]
  exact hB _ _ h1

/-- **Every deterministic behaviour is non-signalling**: `K(a,b|x,y) = [a = f x][b = g y]` satisfies the
    constraint system of `nonsignaling_value` (marginals `σ(a|x) = [a = f x]`, `ρ(b|y) = [b = g y]`), and the
    non-signalling objective at it is the strategy's winning probability. -/
theorem ns_contains_det (ao bo ai bi : Nat) (prob : Prob) (pred : Pred) (f : Fin ai → Fin ao) (g : Fin bi → Fin bo) :
    NsFeasible ao bo ai bi (detK (ext f) (ext g)) ∧
      objG ao bo ai bi prob pred (detK (ext f) (ext g)) = detValue ao bo ai bi prob pred f g := by
  have hf : ∀ x, x < ai → ext f x < ao := fun x hx => ext_lt f x hx
  have hg : ∀ y, y < bi → ext g y < bo := fun y hy => ext_lt g y hy
  refine ⟨⟨fun x y a b _ _ _ _ => by unfold detK; split <;> norm_num,
    fun a x => if ext f x = a then 1 else 0, fun b y => if ext g y = b then 1 else 0, ?_, ?_, ?_, ?_⟩, ?_⟩
  · intro x y a _ hy _
    exact sum_detK_bob (ext f) (ext g) bo a x y (hg y hy)
  · intro x y b hx _ _
    exact sum_detK_alice (ext f) (ext g) ao b x y (hf x hx)
  · intro x hx
    exact sumN_ite_eq ao (ext f x) (fun _ => (1 : ℚ)) (hf x hx)
  · intro y hy
    exact sumN_ite_eq bo (ext g y) (fun _ => (1 : ℚ)) (hg y hy)
  · rw [← objective_eq_objG, objective_detK (ext f) (ext g) ao bo ai bi prob pred hf hg]
    exact detValueN_eq ao bo ai bi prob pred (ext f) (ext g) f g (fun x => ext_val f x) (fun y => ext_val g y)

/-- **NPA-level bound ≤ non-signalling value (model), any level, any ordered field of values.**  The assemblage
    part of the constraints emitted by `npa_constraints` *is* the description of the non-signalling polytope used
    by `nonsignaling_value`: a point `(R, K)` that satisfies the level-`k` constraints (whatever `R ⪰ 0` means)
    has a non-signalling `K` — and the two programs have the same objective `Σ prob·pred·K` — and conversely every
    non-signalling `K` satisfies the assemblage constraints. -/
theorem npa_le_ns_model {α : Type} [Field α] [LinearOrder α] [IsStrictOrderedRing α]
    (psd : Prop) (ao bo ai bi : Nat) (hai : 0 < ai) (hbi : 0 < bi) (base : Nat) (conf : List (Nat × Nat))
    (R : Nat → Nat → α) (K : Nat → Nat → Nat → Nat → α) :
    ((∀ c ∈ npaConstraints ao bo ai bi base conf, Sat psd ao bo R K c) → NsFeasible ao bo ai bi K) ∧
    (NsFeasible ao bo ai bi K → ∀ c ∈ assemblageConstrs ao bo ai bi, Sat psd ao bo R K c) := by
  refine ⟨fun h => nsFeasible_of_assemblage psd ao bo ai bi hai hbi R K (fun c hc => h c ?_),
    assemblage_of_nsFeasible psd ao bo ai bi R K⟩
  unfold npaConstraints
  exact List.mem_append_right _ hc

/-- **non-signalling value ≤ 1 (and ≥ 0), any ordered field of values.**  If `prob` is a probability distribution
    on the question pairs and the predicate has entries in `[0, 1]`, the objective `Σ prob·pred·K` of every
    non-signalling behaviour `K` (hence of every NPA-feasible point, by `npa_le_ns_model`) lies in `[0, 1]`. -/
theorem ns_le_one {α : Type} [Field α] [LinearOrder α] [IsStrictOrderedRing α]
    (ao bo ai bi : Nat) (prob : Nat → Nat → α) (pred K : Nat → Nat → Nat → Nat → α)
    (hp0 : ∀ x y, x < ai → y < bi → 0 ≤ prob x y)
    (hp1 : sumN ai (fun x => sumN bi (fun y => prob x y)) = 1)
    (hv : ∀ a b x y, a < ao → b < bo → x < ai → y < bi → 0 ≤ pred a b x y ∧ pred a b x y ≤ 1)
    (h : NsFeasible ao bo ai bi K) :
    0 ≤ objG ao bo ai bi prob pred K ∧ objG ao bo ai bi prob pred K ≤ 1 :=
  ⟨ns_objective_nonneg ao bo ai bi prob pred K hp0 hv h, ns_objective_le_one ao bo ai bi prob pred K hp0 hp1 hv h⟩

/-- **The block form of `nonsignaling_value` is the scalar non-signalling program.**  The code writes the
    non-signalling constraints with `2 × 2` Hermitian blocks (`K(a,b|x,y) ⪰ 0`, `Σ_b K = σ(a|x)`, `Σ_a K = ρ(b|y)`,
    `Σ_a σ = τ`, `Σ_b ρ = τ`, `tr τ = 1`) and maximises `Σ prob·pred·tr K`.  For blocks of any size `d`: the traces
    `k(a,b|x,y) = tr K(a,b|x,y)` of a feasible point of that program form a non-signalling behaviour in the sense of
    `NsFeasible` (over ℝ), with the same objective; so by `ns_le_one` the value of the block program is at most 1.
    (Conversely the harness embeds a scalar behaviour `k` as the blocks `k · τ₀`.) -/
theorem ns_blocks_trace_feasible (d ao bo ai bi : Nat)
    (Kb : Nat → Nat → Nat → Nat → Matrix (Fin d) (Fin d) ℂ) (h : NsBlocksFeasible d ao bo ai bi Kb)
    (prob : Nat → Nat → ℝ) (pred : Nat → Nat → Nat → Nat → ℝ)
    (hp0 : ∀ x y, x < ai → y < bi → 0 ≤ prob x y)
    (hp1 : sumN ai (fun x => sumN bi (fun y => prob x y)) = 1)
    (hv : ∀ a b x y, a < ao → b < bo → x < ai → y < bi → 0 ≤ pred a b x y ∧ pred a b x y ≤ 1) :
    NsFeasible ao bo ai bi (fun a b x y => (Kb a b x y).trace.re) ∧
      objG ao bo ai bi prob pred (fun a b x y => (Kb a b x y).trace.re) ≤ 1 :=
  ⟨nsFeasible_of_blocks d ao bo ai bi Kb h,
    ns_objective_le_one ao bo ai bi prob pred _ hp0 hp1 hv (nsFeasible_of_blocks d ao bo ai bi Kb h)⟩

/-- the hypotheses of `ns_le_one` are those of `classical_le_one` (`IsDistribution`, `PredIn01`), and a
    non-trivial non-signalling behaviour exists: the deterministic one of the counterexample game -/
example : (∀ x y, x < 2 → y < 1 → 0 ≤ cexProb x y) ∧ sumN 2 (fun x => sumN 1 (fun y => cexProb x y)) = 1 ∧
    NsFeasible 2 3 2 1 (detK (ext (fun _ : Fin 2 => (1 : Fin 2))) (ext (fun _ : Fin 1 => (2 : Fin 3)))) :=
  ⟨fun _ _ _ _ => by unfold cexProb; positivity, by simp [sumN, cexProb]; norm_num,
    (ns_contains_det 2 3 2 1 cexProb cexPred _ _).1⟩

/-- a concrete instance of `npa_sound_det` evaluated by the executable model: sizes `(ao, bo, ai, bi) = (2, 3, 2, 2)`,
    level `'1+ab'`, strategy `f = (1, 0)`, `g = (2, 0)`: all 122 generated constraints hold at `(z zᵀ, K)` -/
example :
    let words := genWords 1 [(1, 1)] 2 2 3 2
    let f : Nat → Nat := fun x => if x = 0 then 1 else 0
    let g : Nat → Nat := fun y => if y = 0 then 2 else 0
    (npaConstraints 2 3 2 2 1 [(1, 1)]).length = 122 ∧
      (npaConstraints 2 3 2 2 1 [(1, 1)]).all (fun c => c.check 2 3 (detR f g words) (detK f g)) = true := by
  decide +kernel

/-- **The NPA bound is non-increasing in the level (model).**  If the word list of the lower level is a sub-list
    of the word list of the higher level, every point `(R, K)` that satisfies the constraints of the higher level
    restricts — the principal submatrix of `R` on the rows/columns of the lower level's words, **the same `K`**,
    hence the same objective — to a point that satisfies every constraint of the lower level.  So the feasible
    behaviours shrink and the optimum cannot increase with the level.  Stated for any type of values; `psdOf n R`
    is the meaning of `R ⪰ 0` for an `n × n` matrix and only has to be inherited by principal submatrices
    (`psdQ_restricts` for the notion used in `npa_sound_det`). -/
theorem npa_level_mono {α : Type} [Zero α] [One α] [Add α] [LE α] (psdOf : Nat → (Nat → Nat → α) → Prop)
    (hsubm : ∀ (n m : Nat) (φ : Nat → Nat) (R : Nat → Nat → α), (∀ i, i < m → φ i < n) → psdOf n R →
      psdOf m (fun i j => R (φ i) (φ j)))
    (ao bo ai bi baseLo baseHi : Nat) (confLo confHi : List (Nat × Nat)) (hHi : ConfOK confHi)
    (hsub : List.Sublist (genWords baseLo confLo ao ai bo bi) (genWords baseHi confHi ao ai bo bi))
    (R : Nat → Nat → α) (K : Nat → Nat → Nat → Nat → α)
    (h : ∀ c ∈ npaConstraints ao bo ai bi baseHi confHi,
      Sat (psdOf (genWords baseHi confHi ao ai bo bi).length R) ao bo R K c) :
    ∃ R' : Nat → Nat → α, ∀ c ∈ npaConstraints ao bo ai bi baseLo confLo,
      Sat (psdOf (genWords baseLo confLo ao ai bo bi).length R') ao bo R' K c := by
  obtain ⟨φ, hφ0, hφmono, hφlt, hφw⟩ := exists_embedding_of_sublist baseLo baseHi confLo confHi ao ai bo bi hHi hsub
  refine ⟨fun i j => R (φ i) (φ j), ?_⟩
  intro c hc
  unfold npaConstraints at hc h
  rcases List.mem_append.mp hc with h1 | h1
  · exact momentConstrs_restrict _ _ (hsubm _ _ φ R hφlt) ao bo _ _ φ hφ0 (fun i j hij _ => hφmono i j hij) hφlt
      (fun i _ => hφw i) R K (fun c hc => h c (List.mem_append_left _ hc)) c h1
  · -- the constraints on the assemblage do not mention `R` or the level
    have := h c (List.mem_append_right _ h1)
    unfold assemblageConstrs at h1
    simp only [List.mem_append, List.mem_flatMap, List.mem_map, List.mem_range, List.mem_singleton] at h1
    rcases h1 with (⟨x, _, y, _, h2⟩ | ⟨y, _, b, _, x', _, rfl⟩) | ⟨x, _, a, _, y', _, rfl⟩
    · rcases h2 with ⟨a, _, b, _, rfl⟩ | rfl <;> exact this
    · exact this
    · exact this

/-- the hypothesis of `npa_level_mono` on `R ⪰ 0` holds for positive semidefiniteness of the complex matrix with
    the given rational entries: a principal submatrix (rows/columns `φ 0, φ 1, …`) of a positive semidefinite
    matrix is positive semidefinite -/
theorem psdQ_restricts (n m : Nat) (φ : Nat → Nat) (R : Nat → Nat → ℚ) (hφ : ∀ i, i < m → φ i < n)
    (h : PsdQ n R) : PsdQ m (fun i j => R (φ i) (φ j)) :=
  psdQ_restrict n m φ R hφ h

/-- **The levels of the property are nested, for all alphabet sizes**: the words of level `1` are a sub-list of
    those of level `'1+ab'`, which are a sub-list of those of level `2`; integer levels `k ≤ k'` are nested
    (prefixes).  With `npa_level_mono`: bound(2) ≤ bound('1+ab') ≤ bound(1) in the model. -/
theorem npa_levels_nested (ao ai bo bi : Nat) :
    levelSpec (.int 1) = some (1, []) ∧ levelSpec (.str "1+ab") = some (1, [(1, 1)]) ∧
    levelSpec (.int 2) = some (2, []) ∧
    List.Sublist (genWords 1 [] ao ai bo bi) (genWords 1 [(1, 1)] ao ai bo bi) ∧
    List.Sublist (genWords 1 [(1, 1)] ao ai bo bi) (genWords 2 [] ao ai bo bi) ∧
    ∀ k k', k ≤ k' → List.Sublist (genWords k [] ao ai bo bi) (genWords k' [] ao ai bo bi) :=
  ⟨rfl, by decide, rfl, (genWords_nested ao ai bo bi).1, (genWords_nested ao ai bo bi).2.1,
    (genWords_nested ao ai bo bi).2.2⟩

open scoped ComplexOrder in
/-- **The NPA constraint generator is sound for quantum strategies with commuting projective measurements, every
    dimension, every size, every level.**  Let `A x a`, `B y b` be projective measurements on `ℂ^d` (Hermitian
    idempotents, orthogonal for different answers to the same question, summing to the identity) such that every
    operator of Alice commutes with every operator of Bob, and `psi` a unit vector (`QStrategy`; tensor-product
    strategies `A ⊗ 1`, `1 ⊗ B` are the special case).  With the moment matrix
    `R[i, j] = ⟨psi| words[i]† · words[j] |psi⟩` and the behaviour `K(a,b|x,y) = ⟨psi| A x a · B y b |psi⟩`
    (whose objective value `Σ prob·pred·K` is by definition the winning probability of the strategy),
    `(R, K)` satisfies **every** constraint that the mirror of `npa_constraints` emits, and `R` is positive
    semidefinite (a Gram matrix).  Hence every value achieved by such a strategy is at most every NPA-level bound
    in the model.  The rule `_reduce` is sound for operators, not only for 0/1 values (`SymRep.reduceFuel_op`). -/
theorem npa_sound_quantum (d ao bo ai bi : Nat) (hai : 0 < ai) (hbi : 0 < bi) (k : LevelArg) (hwf : LevelWF k)
    (base : Nat) (conf : List (Nat × Nat)) (hk : levelSpec k = some (base, conf))
    (S : QStrategy d ao bo ai bi) :
    let words := genWords base conf ao ai bo bi
    (∀ c ∈ npaConstraints ao bo ai bi base conf,
      Sat (Matrix.of fun i j : Fin words.length => S.R words i j).PosSemidef ao bo (S.R words) S.K c) ∧
    (Matrix.of fun i j : Fin words.length => S.R words i j).PosSemidef ∧
    (∀ a b x y, 0 ≤ S.K a b x y) := by
  intro words
  have hconf := levelSpec_confOK k hwf base conf hk
  have hok : WordsOK words := genWords_ok base conf ao ai bo bi hconf
  have hpsd := S.R_psd words words.length
  refine ⟨?_, hpsd, S.K_nonneg⟩
  intro c hc
  unfold npaConstraints at hc
  rcases List.mem_append.mp hc with h | h
  · exact momentConstrs_sound_ev _ hpsd (S.evalOK words hok hai hbi) hok c h
  · exact S.assemblage_sound _ _ c h

/-- the structure `QStrategy` is inhabited for every alphabet (here sizes `(2, 3, 2, 2)`, dimension 1: both
    players always answer 0); genuinely quantum instances are exercised numerically by the harness -/
example : Nonempty (QStrategy 1 2 3 2 2) :=
  ⟨{ A := fun _ a => if a = 0 then 1 else 0
     B := fun _ b => if b = 0 then 1 else 0
     psi := fun _ => 1
     A_herm := fun _ a => by split <;> simp
     A_idem := fun _ a => by split <;> simp
     A_orth := fun _ a a' h => by
       by_cases h0 : a = 0
       · have : a' ≠ 0 := fun h1 => h (h0.trans h1.symm)
         simp [this]
       · simp [h0]
     A_sum := fun _ _ => sumN_ite_eq 2 0 (fun _ => (1 : Matrix (Fin 1) (Fin 1) ℂ)) (by norm_num)
     B_herm := fun _ b => by split <;> simp
     B_idem := fun _ b => by split <;> simp
     B_orth := fun _ b b' h => by
       by_cases h0 : b = 0
       · have : b' ≠ 0 := fun h1 => h (h0.trans h1.symm)
         simp [this]
       · simp [h0]
     B_sum := fun _ _ => sumN_ite_eq 3 0 (fun _ => (1 : Matrix (Fin 1) (Fin 1) ℂ)) (by norm_num)
     comm := fun _ a _ b => by split <;> split <;> simp
     psi_norm := by simp [dotProduct] }⟩

end Npa

/-! ## General quantum strategies (POVMs) and the see-saw programs are inside every NPA level

Lemmas: `Toq/Proofs/NpaPovm.lean` (Naimark dilation, explicit Halmos unitary), `Toq/Proofs/NpaSeesaw.lean`
(spectral calculus of `τ`, Gisin–Hughston–Jozsa–Wootters realisation of an assemblage). -/
section Povm
open Toq.Npa Matrix
open scoped ComplexOrder Kronecker

/-- **Naimark's dilation theorem (finite dimension, explicit).**  Every POVM `E 0 … E (k-1)` on `ℂ^ι` (positive
    semidefinite matrices summing to the identity, `k ≥ 1`) is the compression of a *projective* measurement: there are
    Hermitian idempotents `P 0 … P (k-1)` on `ℂ^ι ⊕ (ℂ^k ⊗ ℂ^ι)`, pairwise orthogonal, summing to the identity, with
    `Jᴴ P a J = E a` for the isometric inclusion `J` of the first summand. -/
theorem naimark_dilation {ι : Type} [Fintype ι] [DecidableEq ι] (k : Nat) (hk : 0 < k) (E : Nat → Matrix ι ι ℂ)
    (h : IsPovmN k E) :
    ∃ P : Nat → Matrix (NkIdx ι k) (NkIdx ι k) ℂ,
      (∀ a, (P a)ᴴ = P a) ∧ (∀ a, P a * P a = P a) ∧ (∀ a b, a ≠ b → P a * P b = 0) ∧ sumN k P = 1 ∧
      (nkJ ι k)ᴴ * nkJ ι k = 1 ∧ ∀ a, a < k → (nkJ ι k)ᴴ * P a * nkJ ι k = E a :=
  naimark k hk E h

/-- **Every POVM strategy is a commuting projective strategy in a larger dimension with the same behaviour.**
    For POVMs `E x a` on `ℂ^dA`, `F y b` on `ℂ^dB` and a unit vector `psi ∈ ℂ^dA ⊗ ℂ^dB` there are a dimension `D`
    and a `QStrategy` on `ℂ^D` (projectors `P x a ⊗ 1`, `1 ⊗ Q y b` from the Naimark dilations, state
    `(J_A ⊗ J_B) psi`) with `⟨psi'| A x a · B y b |psi'⟩ = ⟨psi| E x a ⊗ F y b |psi⟩` for all questions and answers
    of the game. -/
theorem povm_strategy_dilation (dA dB ao bo ai bi : Nat) (hao : 0 < ao) (hbo : 0 < bo)
    (T : PovmStrategy dA dB ao bo ai bi) : ∃ (D : Nat) (S : QStrategy D ao bo ai bi), S.K = T.K :=
  T.exists_dilation hao hbo

/-- **The NPA constraint generator is sound for ALL finite-dimensional quantum strategies (POVMs, any dimensions,
    every size, every level).**  For every tensor-product strategy with POVMs `E x a`, `F y b` and unit vector `psi`
    there is a moment matrix `R` such that `(R, K)` with the strategy's behaviour
    `K(a,b|x,y) = ⟨psi| E x a ⊗ F y b |psi⟩` satisfies **every** constraint the mirror of `npa_constraints` emits at
    level `k`, with `R ⪰ 0`.  Hence the winning probability `Σ prob·pred·K` of every such strategy — in particular of
    the POVMs the see-saw heuristic works with — is at most every NPA-level bound in the model. -/
theorem npa_sound_povm (dA dB ao bo ai bi : Nat) (hao : 0 < ao) (hbo : 0 < bo) (hai : 0 < ai) (hbi : 0 < bi)
    (k : LevelArg) (hwf : LevelWF k) (base : Nat) (conf : List (Nat × Nat)) (hk : levelSpec k = some (base, conf))
    (T : PovmStrategy dA dB ao bo ai bi) :
    let words := genWords base conf ao ai bo bi
    ∃ R : Nat → Nat → ℂ,
      (∀ c ∈ npaConstraints ao bo ai bi base conf,
        Sat (Matrix.of fun i j : Fin words.length => R i j).PosSemidef ao bo R T.K c) ∧
      (Matrix.of fun i j : Fin words.length => R i j).PosSemidef ∧
      (∀ a b x y, 0 ≤ T.K a b x y) := by
  intro words
  obtain ⟨D, S, hS⟩ := T.exists_dilation hao hbo
  have h := npa_sound_quantum D ao bo ai bi hai hbi k hwf base conf hk S
  rw [hS] at h
  exact ⟨S.R words, h⟩

/-- a genuinely non-projective strategy exists for every alphabet (here sizes `(2, 3, 2, 2)`): Alice's POVM is
    `(½, ½)` in dimension 1 -/
example : Nonempty (PovmStrategy 1 1 2 3 2 2) :=
  ⟨{ E := fun _ a => if a < 2 then Matrix.diagonal (fun _ => (1 / 2 : ℂ)) else 0
     F := fun _ b => if b = 0 then 1 else 0
     psi := fun _ => 1
     E_povm := fun _ _ => ⟨fun a ha => by
         simp only [ha, if_true]
         exact Matrix.PosSemidef.diagonal (fun _ => by
           show (0 : ℂ) ≤ 1 / 2
           exact Complex.nonneg_iff.mpr ⟨by norm_num, by norm_num⟩), by
         ext i j
         simp [sumN, Matrix.diagonal, Matrix.one_apply, Subsingleton.elim i j]
         norm_num⟩
     F_povm := fun _ _ => ⟨fun b _ => by
         show (if b = 0 then (1 : Matrix _ _ ℂ) else 0).PosSemidef
         split <;> [exact Matrix.PosSemidef.one; exact Matrix.PosSemidef.zero],
       sumN_ite_eq 3 0 (fun _ => (1 : Matrix (Fin 1) (Fin 1) ℂ)) (by norm_num) |> fun h => by
         simpa [eq_comm] using h⟩
     psi_norm := by simp [dotProduct] }⟩

/-- **Every value a POVM strategy achieves is at most every NPA-level bound (model).**  Let `B` be any number that
    bounds `Re` of the objective `Σ prob·pred·K` on the feasible set of the level-`k` relaxation (complex Hermitian
    moment matrices; in particular `B` = its optimum).  Then the winning probability of every finite-dimensional
    tensor-product POVM strategy is at most `B`. -/
theorem povm_value_le_npa_bound (dA dB ao bo ai bi : Nat) (hao : 0 < ao) (hbo : 0 < bo) (hai : 0 < ai) (hbi : 0 < bi)
    (k : LevelArg) (hwf : LevelWF k) (base : Nat) (conf : List (Nat × Nat)) (hk : levelSpec k = some (base, conf))
    (prob : Nat → Nat → ℝ) (pred : Nat → Nat → Nat → Nat → ℝ) (B : ℝ)
    (hB : ∀ (R : Nat → Nat → ℂ) (K : Nat → Nat → Nat → Nat → ℂ),
      (∀ c ∈ npaConstraints ao bo ai bi base conf,
        Sat (Matrix.of fun i j : Fin (genWords base conf ao ai bo bi).length => R i j).PosSemidef ao bo R K c) →
      objRe ao bo ai bi prob pred K ≤ B)
    (T : PovmStrategy dA dB ao bo ai bi) :
    (sumN ai fun x => sumN bi fun y => sumN ao fun a => sumN bo fun b =>
      prob x y * pred a b x y * (star T.psi ⬝ᵥ ((T.E x a ⊗ₖ T.F y b) *ᵥ T.psi)).re) ≤ B := by
  obtain ⟨R, hR, _, _⟩ := npa_sound_povm dA dB ao bo ai bi hao hbo hai hbi k hwf base conf hk T
  rw [← T.objRe_eq prob pred]
  exact hB R T.K hR

/-- **Feasible points of the see-saw programs are quantum strategies.**  Let `σ x a`, `τ` satisfy the constraints of
    `__optimize_alice` (`σ x a ⪰ 0`, `Σ_a σ x a = τ` for every question, `tr τ = 1`, `τ ⪰ 0` — an assemblage; `τ` may be
    singular) and `B y b` those of `__optimize_bob` (POVMs), in any dimension `d`.  Then there is a tensor-product POVM
    strategy on `ℂ^d ⊗ ℂ^d` — state `vec √τ`, Alice `(√τ⁺ σ x a √τ⁺ + [a=0](1 − Π))ᵀ`, Bob `B y b` — whose behaviour
    is exactly the coefficient `tr(B y bᴴ σ x a)` of `prob[x,y]·pred[a,b,x,y]` in the objective of both programs; and a
    commuting projective strategy with that behaviour.  So every value the see-saw reports is *achieved*. -/
theorem seesaw_point_is_quantum (d ao bo ai bi : Nat) (hao : 0 < ao) (hbo : 0 < bo) (P : SeesawPoint d ao bo ai bi) :
    (∃ T : PovmStrategy d d ao bo ai bi, T.K = P.K) ∧ ∃ (D : Nat) (S : QStrategy D ao bo ai bi), S.K = P.K :=
  ⟨⟨P.toPovm hao, P.toPovm_K hao⟩, P.exists_strategy hao hbo⟩

/-- **The see-saw programs lie inside every NPA level.**  For every feasible point `(σ, τ, B)` of the two programs
    of `quantum_value_lower_bound` (any dimension) there is a moment matrix `R ⪰ 0` such that `(R, K)` with
    `K(a,b|x,y) = tr(B y bᴴ σ x a)` satisfies every constraint the mirror of `npa_constraints` emits at level `k`. -/
theorem npa_sound_seesaw (d ao bo ai bi : Nat) (hao : 0 < ao) (hbo : 0 < bo) (hai : 0 < ai) (hbi : 0 < bi)
    (k : LevelArg) (hwf : LevelWF k) (base : Nat) (conf : List (Nat × Nat)) (hk : levelSpec k = some (base, conf))
    (P : SeesawPoint d ao bo ai bi) :
    let words := genWords base conf ao ai bo bi
    ∃ R : Nat → Nat → ℂ,
      (∀ c ∈ npaConstraints ao bo ai bi base conf,
        Sat (Matrix.of fun i j : Fin words.length => R i j).PosSemidef ao bo R P.K c) ∧
      (Matrix.of fun i j : Fin words.length => R i j).PosSemidef ∧
      (∀ a b x y, 0 ≤ P.K a b x y) := by
  intro words
  obtain ⟨D, S, hS⟩ := P.exists_strategy hao hbo
  have h := npa_sound_quantum D ao bo ai bi hai hbi k hwf base conf hk S
  rw [hS] at h
  exact ⟨S.R words, h⟩

/-- **Every quantum lower bound is at most every NPA-level bound (model).**  The number both see-saw programs
    maximise, `real(Σ prob[x,y]·pred[a,b,x,y]·trace(bob_povms[y,b]ᴴ @ alice_povms[x,a]))`, evaluated at ANY feasible point
    of the two programs (in particular at the point whose value `quantum_value_lower_bound` returns, a local optimum or
    not), is at most every number `B` that bounds the objective on the feasible set of the level-`k` NPA relaxation. -/
theorem seesaw_value_le_npa_bound (d ao bo ai bi : Nat) (hao : 0 < ao) (hbo : 0 < bo) (hai : 0 < ai) (hbi : 0 < bi)
    (k : LevelArg) (hwf : LevelWF k) (base : Nat) (conf : List (Nat × Nat)) (hk : levelSpec k = some (base, conf))
    (prob : Nat → Nat → ℝ) (pred : Nat → Nat → Nat → Nat → ℝ) (B : ℝ)
    (hB : ∀ (R : Nat → Nat → ℂ) (K : Nat → Nat → Nat → Nat → ℂ),
      (∀ c ∈ npaConstraints ao bo ai bi base conf,
        Sat (Matrix.of fun i j : Fin (genWords base conf ao ai bo bi).length => R i j).PosSemidef ao bo R K c) →
      objRe ao bo ai bi prob pred K ≤ B)
    (P : SeesawPoint d ao bo ai bi) :
    (sumN ai fun x => sumN bi fun y => sumN ao fun a => sumN bo fun b =>
      prob x y * pred a b x y * ((P.B y b)ᴴ * P.sigma x a).trace.re) ≤ B := by
  obtain ⟨R, hR, _, _⟩ := npa_sound_seesaw d ao bo ai bi hao hbo hai hbi k hwf base conf hk P
  rw [← P.objRe_eq prob pred]
  exact hB R P.K hR

/-- **Every quantum value is at most the non-signalling value and at most 1.**  The real parts of the behaviour of a
    commuting projective strategy — hence, by the dilation theorems, of every POVM strategy and every see-saw point —
    form a non-signalling behaviour in the sense of `NsFeasible` (the feasible set of `nonsignaling_value`), so for a
    probability distribution `prob` and a predicate with entries in `[0, 1]` the winning probability lies in `[0, 1]`. -/
theorem quantum_le_ns_le_one (dA dB ao bo ai bi : Nat) (hao : 0 < ao) (hbo : 0 < bo)
    (T : PovmStrategy dA dB ao bo ai bi) (prob : Nat → Nat → ℝ) (pred : Nat → Nat → Nat → Nat → ℝ)
    (hp0 : ∀ x y, x < ai → y < bi → 0 ≤ prob x y)
    (hp1 : sumN ai (fun x => sumN bi (fun y => prob x y)) = 1)
    (hv : ∀ a b x y, a < ao → b < bo → x < ai → y < bi → 0 ≤ pred a b x y ∧ pred a b x y ≤ 1) :
    NsFeasible ao bo ai bi (fun a b x y => (T.K a b x y).re) ∧
      0 ≤ objRe ao bo ai bi prob pred T.K ∧ objRe ao bo ai bi prob pred T.K ≤ 1 := by
  obtain ⟨D, S, hS⟩ := T.exists_dilation hao hbo
  have hns : NsFeasible ao bo ai bi (fun a b x y => (T.K a b x y).re) := by
    rw [← hS]; exact S.nsFeasible_re
  rw [objRe_eq_objG]
  exact ⟨hns, ns_objective_nonneg ao bo ai bi prob pred _ hp0 hv hns,
    ns_objective_le_one ao bo ai bi prob pred _ hp0 hp1 hv hns⟩

/-- the structure `SeesawPoint` is inhabited with a SINGULAR `τ` (dimension 2, `τ = diag(1, 0)`, sizes `(2, 3, 2, 2)`):
    the theorems above do not assume an invertible reduced state -/
example : Nonempty (SeesawPoint 2 2 3 2 2) :=
  ⟨{ sigma := fun _ a => if a = 0 then Matrix.diagonal (fun i => if i = 0 then 1 else 0) else 0
     tau := Matrix.diagonal (fun i => if i = 0 then 1 else 0)
     B := fun _ b => if b = 0 then 1 else 0
     sigma_psd := fun _ a _ _ => by
       split
       · exact Matrix.PosSemidef.diagonal (fun i => by
           show (0 : ℂ) ≤ if i = 0 then 1 else 0
           split <;> simp)
       · exact Matrix.PosSemidef.zero
     sigma_sum := fun _ _ => by
       have := sumN_ite_eq 2 0 (fun _ => (Matrix.diagonal (fun i : Fin 2 => if i = 0 then (1 : ℂ) else 0))) (by norm_num)
       simpa [eq_comm] using this
     tau_tr := by simp [Matrix.trace]
     tau_psd := Matrix.PosSemidef.diagonal (fun i => by
       show (0 : ℂ) ≤ if i = 0 then 1 else 0
       split <;> simp)
     B_povm := fun _ _ => ⟨fun b _ => by
         show (if b = 0 then (1 : Matrix _ _ ℂ) else 0).PosSemidef
         split <;> [exact Matrix.PosSemidef.one; exact Matrix.PosSemidef.zero], by
       have := sumN_ite_eq 3 0 (fun _ => (1 : Matrix (Fin 2) (Fin 2) ℂ)) (by norm_num)
       simpa [eq_comm] using this⟩ }⟩

/-- **Mixed states: every finite-dimensional quantum strategy is inside every NPA level.**  For a density matrix `ρ`
    on `ℂ^dA ⊗ ℂ^dB` (positive semidefinite, trace 1) and POVMs `E x a`, `F y b`, the behaviour
    `K(a,b|x,y) = tr((E x a ⊗ F y b) ρ)` — Alice's measurements prepare the assemblage `σ x a = tr_A[(E x a ⊗ 1) ρ]` on
    Bob's side, a feasible point of the see-saw programs — comes with a moment matrix `R ⪰ 0` such that `(R, K)` satisfies
    every constraint of the mirror of `npa_constraints` at level `k`; and the winning probability `Σ prob·pred·K` is at
    most every number `B` that bounds the objective on the feasible set of that level. -/
theorem npa_sound_mixed (dA dB ao bo ai bi : Nat) (hao : 0 < ao) (hbo : 0 < bo) (hai : 0 < ai) (hbi : 0 < bi)
    (k : LevelArg) (hwf : LevelWF k) (base : Nat) (conf : List (Nat × Nat)) (hk : levelSpec k = some (base, conf))
    (T : MixedStrategy dA dB ao bo ai bi) :
    (∃ R : Nat → Nat → ℂ,
      (∀ c ∈ npaConstraints ao bo ai bi base conf,
        Sat (Matrix.of fun i j : Fin (genWords base conf ao ai bo bi).length => R i j).PosSemidef ao bo R T.K c) ∧
      (Matrix.of fun i j : Fin (genWords base conf ao ai bo bi).length => R i j).PosSemidef ∧
      (∀ a b x y, 0 ≤ T.K a b x y)) ∧
    ∀ (prob : Nat → Nat → ℝ) (pred : Nat → Nat → Nat → Nat → ℝ) (B : ℝ),
      (∀ (R : Nat → Nat → ℂ) (K : Nat → Nat → Nat → Nat → ℂ),
        (∀ c ∈ npaConstraints ao bo ai bi base conf,
          Sat (Matrix.of fun i j : Fin (genWords base conf ao ai bo bi).length => R i j).PosSemidef ao bo R K c) →
        objRe ao bo ai bi prob pred K ≤ B) →
      (sumN ai fun x => sumN bi fun y => sumN ao fun a => sumN bo fun b =>
        prob x y * pred a b x y * ((T.E x a ⊗ₖ T.F y b) * T.rho).trace.re) ≤ B := by
  obtain ⟨D, S, hS⟩ := T.exists_strategy hao hbo
  have h := npa_sound_quantum D ao bo ai bi hai hbi k hwf base conf hk S
  rw [hS] at h
  refine ⟨⟨S.R _, h⟩, fun prob pred B hB => ?_⟩
  rw [← T.objRe_eq prob pred]
  exact hB (S.R _) T.K h.1

end Povm

/-! ## `classical_value` with its multiprocessing branch, product games in total form, the BCS distribution

Model: `Toq/Model/GamesExtra.lean`, lemmas: `Toq/Proofs/GamesExtra.lean`. -/
section Extra

/-- **`process_iteration` enumerates every strategy exactly once**: decoding the counter `i < b ^ n` into its `n`
    base-`b` digits (`divmod` loop, most significant digit first) is a bijection from `{0, …, b^n − 1}` onto the answer
    functions `Fin n → Fin b` of the enumerated player, for every alphabet size `b ≥ 1` and number of questions `n`. -/
theorem strategy_enumeration_bijective (b n : Nat) (hb : 0 < b) : Function.Bijective (decStrategy b n hb) :=
  decStrategy_bijective b n hb

/-- **the multiprocessing branch computes what the loop computes**: `max(pool.starmap(process_iteration, [(i, …) for i
    in range(N)]))` equals the running maximum of the single-core loop, for every number of iterations `N` (both are
    `-inf`/error only for `N = 0`). -/
theorem pool_branch_eq_loop (N nbo nbi : Nat) (t : Pred) (nao nai : Nat) :
    classicalValuePool N nbo nbi t nao nai = classicalValueLoop N nbo nbi t nao nai :=
  classicalValuePool_eq_loop N nbo nbi t nao nai

/-- **`classical_value` as written — with the branch `if num_iterations > 1000: pool else: loop` — is the classical
    value**, for all numbers of answers (≥ 1) and questions, every distribution and predicate: the maximum winning
    probability over all pairs of deterministic answer functions. -/
theorem classicalValueCode_eq_maxDet (ao bo ai bi : Nat) [NeZero ao] [NeZero bo] (prob : Prob) (pred : Pred) :
    classicalValueCode ao bo ai bi prob pred = some (maxDetValue ao bo ai bi prob pred) :=
  Toq.Games.classicalValueCode_eq_maxDet ao bo ai bi prob pred

/-- both branches are reachable: 1024 strategies go through the pool, 512 through the loop -/
example : 2 ^ 10 > 1000 ∧ ¬ 2 ^ 9 > 1000 := by decide

/-- **Product game, predicate, EVERY entry**: for `r ≥ 1` repetitions and all indices `a < ao^r`, `b < bo^r`,
    `x < ai^r`, `y < bi^r` of the constructed tensor, the entry is the product over the rounds `k < r` of the base
    predicate at the `k`-th base-`ao`/`bo`/`ai`/`bi` digits (most significant first) of the indices: the constructed
    game is the `r`-fold product game in toqito's tensor layout. -/
theorem productGame_pred_total (ao bo ai bi r : Nat) (hr : 0 < r) (pred : Pred) (a b x y : Nat)
    (ha : a < ao ^ r) (hb : b < bo ^ r) (hx : x < ai ^ r) (hy : y < bi ^ r) :
    productPred ao bo ai bi r pred a b x y
      = prodFn r (fun k => pred (dec (fun _ => ao) r a k) (dec (fun _ => bo) r b k)
          (dec (fun _ => ai) r x k) (dec (fun _ => bi) r y k)) :=
  productPred_total ao bo ai bi r hr pred a b x y ha hb hx hy

/-- **Product game, distribution, EVERY entry** -/
theorem productGame_prob_total (ai bi r : Nat) (hr : 0 < r) (prob : Prob) (x y : Nat)
    (hx : x < ai ^ r) (hy : y < bi ^ r) :
    productProb ai bi r prob x y = prodFn r (fun k => prob (dec (fun _ => ai) r x k) (dec (fun _ => bi) r y k)) :=
  productProb_total ai bi r hr prob x y hx hy

/-- **The product game is a game**: if `prob` is a probability distribution and `pred` has entries in `[0, 1]`, the
    same holds for the tensors the `reps` constructor builds (on the product alphabets). -/
theorem productGame_wellformed (ao bo ai bi r : Nat) (hr : 0 < r) (prob : Prob) (pred : Pred)
    (hp : IsDistribution ai bi prob) (hv : PredIn01 ao bo ai bi pred) :
    IsDistribution (ai ^ r) (bi ^ r) (productProb ai bi r prob) ∧
      PredIn01 (ao ^ r) (bo ^ r) (ai ^ r) (bi ^ r) (productPred ao bo ai bi r pred) :=
  ⟨productProb_isDistribution ai bi r hr prob hp, productPred_in01 ao bo ai bi r hr pred hv⟩

/-- **Playing the rounds independently multiplies the winning probabilities**: the deterministic strategy of the
    `r`-fold game that answers round `k` with the base strategies `(f k, g k)` wins with probability
    `Π_k detValue (f k) (g k)`; consequently the classical value of the `r`-fold game is at least the `r`-th power of
    the classical value of the base game. -/
theorem productGame_strategy_value (ao bo ai bi r : Nat) [NeZero ao] [NeZero bo] (hr : 0 < r) (prob : Prob) (pred : Pred) :
    (∀ (f : Nat → Fin ai → Fin ao) (g : Nat → Fin bi → Fin bo),
      detValue (ao ^ r) (bo ^ r) (ai ^ r) (bi ^ r) (productProb ai bi r prob) (productPred ao bo ai bi r pred)
          (productStrategyFin ai ao r f) (productStrategyFin bi bo r g)
        = prodFn r (fun k => detValue ao bo ai bi prob pred (f k) (g k))) ∧
    (maxDetValue ao bo ai bi prob pred) ^ r
      ≤ maxDetValue (ao ^ r) (bo ^ r) (ai ^ r) (bi ^ r) (productProb ai bi r prob) (productPred ao bo ai bi r pred) :=
  ⟨fun f g => detValue_product ao bo ai bi r hr prob pred f g, (maxDetValue_product_ge ao bo ai bi r hr prob pred).2⟩

/-- **BCS game, question distribution**: with `m ≥ 1` constraints, the referee picks a constraint uniformly and then
    one of the variables it depends on uniformly: `prob_mat[j, i] = 1 / (m · #dep_j)` if constraint `j` depends on
    variable `i` and `0` otherwise (`#dep_j > 0` then); "depends" means that flipping variable `i` changes the value
    of the constraint for some assignment; and if every constraint depends on some variable this is a probability
    distribution. -/
theorem bcs_prob_spec (m n : Nat) (c : Nat → Nat → Int) (hm : 0 < m) :
    (∀ j i, i < n → bcsProb m n c j i
        = (if bcsDepends n c j i = true then 1 / ((m : ℚ) * (bcsDepCount n c j : ℚ)) else 0) ∧
      (bcsDepends n c j i = true → 0 < (m : ℚ) * (bcsDepCount n c j : ℚ))) ∧
    (∀ j i, i < n → (bcsDepends n c j i = true ↔
      ∃ s : Nat → Nat, (∀ k, k < n → s k < 2) ∧
        c j (enc (fun _ => 2) (flipAt s i) n) ≠ c j (enc (fun _ => 2) s n))) ∧
    ((∀ j, j < m → ∃ i, i < n ∧ bcsDepends n c j i = true) → IsDistribution m n (bcsProb m n c)) :=
  ⟨fun j i hi => bcsProb_eq m n c j i hm hi, fun j i hi => bcsDepends_iff n c j i hi,
    fun hdep => bcsProb_isDistribution m n c hm hdep⟩

end Extra

/-! ## The see-saw programs of `quantum_value_lower_bound` as data, and its outer loop

Model: `Toq/Model/GamesSeesaw.lean` (exact arithmetic over `ℚ[i]`), lemmas: `Toq/Proofs/GamesSeesaw.lean`. -/
section SeesawPrograms
open Toq.Seesaw

/-- **Both see-saw builders maximise the same bilinear form.**  The objective expression of `__optimize_alice`
    (`bob_povms[y,b].conj().T @ alice_povms[x,a]`, Bob's operators given as arrays in the first round and as solved cvxpy
    variables afterwards) and that of `__optimize_bob` (`bob_povms[y,b].H @ alice_povms[x,a].value`), accumulated in the
    code's loop order with `cvxpy.real` at the end, are the same function of the operators, namely
    `Σ_x Σ_y Σ_a Σ_b prob[x,y]·pred[a,b,x,y]·Re tr(B[y,b]ᴴ A[x,a])` — every term carries the predicate as a WEIGHT. -/
theorem seesaw_objectives_agree (d ao bo ai bi : Nat) (prob : Prob) (pred : Pred) (A B : Fam) :
    aliceObjective d ao bo ai bi prob pred A (fun y b => BobEntry.arr (B y b)) = bobObjective d ao bo ai bi prob pred A B ∧
    aliceObjective d ao bo ai bi prob pred A (fun y b => BobEntry.var (B y b)) = bobObjective d ao bo ai bi prob pred A B ∧
    bobObjective d ao bo ai bi prob pred A B = seesawWin d ao bo ai bi prob pred A B :=
  ⟨aliceObjective_arr_eq_bobObjective d ao bo ai bi prob pred A B,
    aliceObjective_var_eq_bobObjective d ao bo ai bi prob pred A B,
    bobObjective_eq_seesawWin d ao bo ai bi prob pred A B⟩

/-- **Every deterministic strategy is a feasible point of both see-saw programs with its classical winning
    probability.**  For answer functions `f`, `g` into the alphabets and any `τ` with `tr τ = 1`: the assemblage
    `A[x,a] = [a = f x]·τ` satisfies every equality constraint `__optimize_alice` emits (`Σ_a A[x,a] = τ`, `tr τ = 1`), the
    measurements `B[y,b] = [b = g y]·1` every equality constraint of `__optimize_bob` (`Σ_b B[y,b] = 1`), and both
    objectives evaluate to `Σ_{x,y} prob x y · pred (f x) (g y) x y`. -/
theorem seesaw_contains_det (d ao bo ai bi : Nat) (prob : Prob) (pred : Pred) (f g : Nat → Nat) (tau : CMat)
    (hf : ∀ x, x < ai → f x < ao) (hg : ∀ y, y < bi → g y < bo) (htr : trace d tau = 1) :
    (∀ c ∈ aliceConstraints ao ai, c.holdsEq d ao bo (detAlice f tau) (detBob g) tau = true) ∧
    (∀ c ∈ bobConstraints bo bi, c.holdsEq d ao bo (detAlice f tau) (detBob g) tau = true) ∧
    bobObjective d ao bo ai bi prob pred (detAlice f tau) (detBob g) = detValueN ai bi prob pred f g ∧
    aliceObjective d ao bo ai bi prob pred (detAlice f tau) (fun y b => BobEntry.arr (detBob g y b))
      = detValueN ai bi prob pred f g :=
  ⟨det_alice_feasible_eqs d ao bo ai f tau (detBob g) hf htr, det_bob_feasible_eqs d ao bo bi g (detAlice f tau) tau hg,
    bobObjective_det d ao bo ai bi prob pred f g tau hf hg htr, aliceObjective_det d ao bo ai bi prob pred f g tau hf hg htr⟩

/-- the hypotheses of `seesaw_contains_det` are satisfiable, and the programs have the sizes the code emits:
    `ai·(ao+1) + 2` constraints for Alice (`ai·ao + 1` of them `>> 0`), `bi·(bo+1)` for Bob -/
example : (aliceConstraints 2 3).length = 3 * (2 + 1) + 2 ∧ (bobConstraints 3 2).length = 2 * (3 + 1) :=
  ⟨aliceConstraints_length 2 3, bobConstraints_length 3 2⟩

/-- **What `quantum_value_lower_bound` returns.**  Given the values `vals i` returned by the successive solves of
    `__optimize_bob` in outer iteration `i` (inputs: the solver and the random start POVMs are not modelled), the loop
    `best_lower_bound = -inf; for _ in range(iters): it_diff = 1; prev_win = -1; best = -inf; while it_diff > tol: …`
    returns the **maximum of all values it consumed** (`none` = `-inf` iff it consumed none) — in particular one of them,
    i.e. the value of the programs at an actual feasible point ("an achieved value") — and it performs exactly two solves
    per consumed value. -/
theorem seesaw_loop_returns_max (tol : Rat) (vals : Nat → List Rat) (iters : Nat) :
    IsListMax (consumed tol vals iters) (seesawLoop tol vals iters).value ∧
    (seesawLoop tol vals iters).solves = 2 * (consumed tol vals iters).length :=
  ⟨seesawLoop_value_isMax tol vals iters, solves_eq tol vals iters⟩

/-- **When the inner loop stops.**  For `tol < 1` every inner loop runs at least one round (if the solver delivers a
    value), and if it terminates it does so at the first round whose increase `lower_bound − prev_win` (starting from
    `prev_win = −1`) is at most `tol`: all earlier increases exceed `tol`.  For `tol ≥ 1` no round runs at all and the
    function returns `-inf` without solving (documented corner outside the property's quantifier). -/
theorem seesaw_loop_stop_rule (tol : Rat) :
    (tol < 1 → ∀ vals : List Rat, (vals ≠ [] → 1 ≤ (innerLoop tol vals).steps) ∧
      ((innerLoop tol vals).terminated = true →
        (innerLoop tol vals).steps = lead tol (-1) vals + 1 ∧
        (∀ δ, (incrs (-1) vals)[lead tol (-1) vals]? = some δ → δ ≤ tol) ∧
        (∀ k δ, k < lead tol (-1) vals → (incrs (-1) vals)[k]? = some δ → δ > tol))) ∧
    (1 ≤ tol → ∀ (vals : Nat → List Rat) (n : Nat),
      (seesawLoop tol vals n).value = none ∧ (seesawLoop tol vals n).solves = 0) :=
  ⟨fun htol vals => ⟨fun hv => innerLoop_steps_pos tol vals htol hv, fun ht => innerLoop_stop_rule tol vals htol ht⟩,
    fun htol vals n => seesawLoop_of_one_le_tol tol vals htol n⟩

end SeesawPrograms

end Toq.C07
