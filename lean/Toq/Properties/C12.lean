import Toq.Proofs.PPTDisc
import Toq.Properties.C10
/-!
# C12 — discrimination with PPT measurements: ordering, duality, invariances, certificate checkers

Bipartite space `A ⊗ B` of dimensions `(dA, dB)`, composite index `i = a·dB + b` (toqito's Kronecker
convention).  `pTf sys X` is the partial transpose of `X : Matrix (Fin (dA*dB)) (Fin (dA*dB)) ℂ` on party
`sys` (`0` = first party, otherwise second party): `pTBf X [(a,b),(a',b')] = X [(a,b'),(a',b)]`.
`kronF A B` is the Kronecker product on composite indices.

`ppt_distinguishability(…, subsystems=[sys], dimensions=[dA,dB], strategy="min_error")` solves

* primal: maximise `successProb ρ p M = Σ_i p_i Re tr(ρ_i M_i)` over POVMs `M` with `T_sys(M_i) ⪰ 0`  (`IsPPTPOVM`);
* dual:   minimise `Re tr Y` subject to `Q_i ⪰ 0`, `Y − p_i ρ_i − T_sys(Q_i) ⪰ 0`                  (`PPTDualFeasible`).

`IsPOVM`, `successProb`, `MinErrDualFeasible` and the denotations `ensStates`, `ensProbs`, `mats` are those
of C10 (`Toq.Properties.C10`).
-/

open Matrix
open scoped ComplexOrder MatrixOrder

namespace Toq.C12
open Toq.Discrim Toq.PPTDisc Toq.C10

variable {dA dB k : Nat}

/-! ## The mathematical problems -/

/-- `M` is a measurement all of whose elements have a positive semidefinite partial transpose on party `sys` -/
def IsPPTPOVM (sys : Nat) (M : Fin k → Matrix (Fin (dA * dB)) (Fin (dA * dB)) ℂ) : Prop :=
  IsPOVM M ∧ ∀ i, (pTf sys (M i)).PosSemidef

/-- `(Y, Q)` is feasible for the dual of PPT minimum-error discrimination -/
def PPTDualFeasible (sys : Nat) (ρ : Fin k → Matrix (Fin (dA * dB)) (Fin (dA * dB)) ℂ) (p : Fin k → ℝ)
    (Y : Matrix (Fin (dA * dB)) (Fin (dA * dB)) ℂ) (Q : Fin k → Matrix (Fin (dA * dB)) (Fin (dA * dB)) ℂ) :
    Prop :=
  ∀ i, (Q i).PosSemidef ∧ (Y - (p i : ℂ) • ρ i - pTf sys (Q i)).PosSemidef

/-! ## Algebra of the partial transpose -/

/-- The executable partial transpose of the model denotes the mathematical partial transpose. -/
theorem pT_model_eq_spec (sys : Nat) (X : EMat (dA * dB) (dA * dB)) : (pT sys X).toM = pTf sys X.toM :=
  toM_pT sys X

/-- Entry formula: `T_B(X)[(a,b),(a',b')] = X[(a,b'),(a',b)]` with composite index `(a,b) ↦ a·dB + b`. -/
theorem pTB_entry (X : Matrix (Fin (dA * dB)) (Fin (dA * dB)) ℂ) (a a' : Fin dA) (b b' : Fin dB) :
    pTf 1 X (finProdFinEquiv (a, b)) (finProdFinEquiv (a', b'))
      = X (finProdFinEquiv (a, b')) (finProdFinEquiv (a', b)) := by
  simp [pTf, pTBf_apply]

/-- The partial transpose is additive. -/
theorem pT_add (sys : Nat) (X Y : Matrix (Fin (dA * dB)) (Fin (dA * dB)) ℂ) :
    pTf sys (X + Y) = pTf sys X + pTf sys Y := by
  unfold pTf; split <;> rfl

/-- The partial transpose commutes with scalar multiplication. -/
theorem pT_smul (sys : Nat) (c : ℂ) (X : Matrix (Fin (dA * dB)) (Fin (dA * dB)) ℂ) :
    pTf sys (c • X) = c • pTf sys X := by
  unfold pTf; split <;> rfl

/-- The partial transpose is an involution. -/
theorem pT_involutive (sys : Nat) (X : Matrix (Fin (dA * dB)) (Fin (dA * dB)) ℂ) :
    pTf sys (pTf sys X) = X := by
  unfold pTf
  split
  · rw [pTAf_eq_transpose, pTAf_eq_transpose]
    rw [show pTBf (pTBf X)ᵀ = (pTBf (pTBf X))ᵀ from rfl, pTBf_pTBf, Matrix.transpose_transpose]
  · exact pTBf_pTBf X

/-- The partial transpose preserves the trace. -/
theorem pT_trace (sys : Nat) (X : Matrix (Fin (dA * dB)) (Fin (dA * dB)) ℂ) :
    (pTf sys X).trace = X.trace := by
  unfold pTf
  split
  · rw [pTAf_eq_transpose, Matrix.trace_transpose, trace_pTBf]
  · exact trace_pTBf X

/-- The partial transpose is self-adjoint for the trace form: `tr(T(A)·B) = tr(A·T(B))`. -/
theorem pT_trace_adjoint (sys : Nat) (A B : Matrix (Fin (dA * dB)) (Fin (dA * dB)) ℂ) :
    (pTf sys A * B).trace = (A * pTf sys B).trace := by
  unfold pTf
  split
  · rw [pTAf_eq_transpose, pTAf_eq_transpose]
    have h1 : ((pTBf A)ᵀ * B).trace = (pTBf A * Bᵀ).trace := by
      rw [← Matrix.trace_transpose, Matrix.transpose_mul, Matrix.transpose_transpose, Matrix.trace_mul_comm]
    rw [h1, trace_pTBf_mul]
    rfl
  · exact trace_pTBf_mul A B

/-- Transposing the first party is transposing the second party followed by a full transpose. -/
theorem pTA_eq_transpose_pTB (X : Matrix (Fin (dA * dB)) (Fin (dA * dB)) ℂ) :
    pTf 0 X = (pTf 1 X)ᵀ := by
  simp [pTf, pTAf_eq_transpose]

/-- Which party is transposed is irrelevant for the PPT condition. -/
theorem ppt_party_irrelevant (s s' : Nat) (X : Matrix (Fin (dA * dB)) (Fin (dA * dB)) ℂ) :
    (pTf s X).PosSemidef ↔ (pTf s' X).PosSemidef := by
  have h : ∀ s, (pTf s X).PosSemidef ↔ (pTBf X).PosSemidef := by
    intro s
    unfold pTf
    split
    · rw [pTAf_eq_transpose, Matrix.posSemidef_transpose_iff]
    · rfl
  rw [h s, h s']

/-- Hence the feasible sets (and optimal values) of PPT discrimination do not depend on the party. -/
theorem isPPTPOVM_party_irrelevant (s s' : Nat) (M : Fin k → Matrix (Fin (dA * dB)) (Fin (dA * dB)) ℂ) :
    IsPPTPOVM s M ↔ IsPPTPOVM s' M := by
  unfold IsPPTPOVM
  exact and_congr Iff.rfl (forall_congr' fun i => ppt_party_irrelevant s s' (M i))

/-! ## Weak duality, ordering -/

/-- Weak duality: every PPT measurement succeeds with probability at most `Re tr Y` for dual-feasible `(Y, Q)`. -/
theorem ppt_weak_duality (sys : Nat) (ρ : Fin k → Matrix (Fin (dA * dB)) (Fin (dA * dB)) ℂ) (p : Fin k → ℝ)
    (M : Fin k → Matrix (Fin (dA * dB)) (Fin (dA * dB)) ℂ) (Y : Matrix (Fin (dA * dB)) (Fin (dA * dB)) ℂ)
    (Q : Fin k → Matrix (Fin (dA * dB)) (Fin (dA * dB)) ℂ)
    (hM : IsPPTPOVM sys M) (hYQ : PPTDualFeasible sys ρ p Y Q) :
    successProb ρ p M ≤ Y.trace.re :=
  ppt_weak_duality_gen (pTf sys) (pT_trace_adjoint sys) ρ p M Q Y hM.1.1 hM.1.2 hM.2
    (fun i => (hYQ i).1) (fun i => (hYQ i).2)

/-- PPT value ≤ global value: a PPT measurement is a measurement, so every bound `Re tr Y` from the dual of
unrestricted minimum-error discrimination (C10) bounds its success probability. -/
theorem ppt_le_global (sys : Nat) (ρ : Fin k → Matrix (Fin (dA * dB)) (Fin (dA * dB)) ℂ) (p : Fin k → ℝ)
    (M : Fin k → Matrix (Fin (dA * dB)) (Fin (dA * dB)) ℂ) (Y : Matrix (Fin (dA * dB)) (Fin (dA * dB)) ℂ)
    (hM : IsPPTPOVM sys M) (hY : MinErrDualFeasible ρ p Y) :
    successProb ρ p M ≤ Y.trace.re :=
  minErr_weak_duality ρ p M Y hM.1 hY

/-- Every feasible point of the global dual is a feasible point of the PPT dual (with `Q = 0`), so the
PPT dual optimum is at most the global dual optimum as well. -/
theorem global_dual_feasible_is_ppt_dual_feasible (sys : Nat)
    (ρ : Fin k → Matrix (Fin (dA * dB)) (Fin (dA * dB)) ℂ) (p : Fin k → ℝ)
    (Y : Matrix (Fin (dA * dB)) (Fin (dA * dB)) ℂ) (hY : MinErrDualFeasible ρ p Y) :
    PPTDualFeasible sys ρ p Y (fun _ => 0) := by
  intro i
  refine ⟨Matrix.PosSemidef.zero, ?_⟩
  have h0 : pTf sys (0 : Matrix (Fin (dA * dB)) (Fin (dA * dB)) ℂ) = 0 := by
    unfold pTf; split <;> rfl
  rw [h0, sub_zero]
  exact hY i

/-! ## Product (LOCC-type) measurements are PPT -/

/-- `T_B(A ⊗ B) = A ⊗ Bᵀ`. -/
theorem pTB_kron (A : Matrix (Fin dA) (Fin dA) ℂ) (B : Matrix (Fin dB) (Fin dB) ℂ) :
    pTf 1 (kronF A B) = kronF A Bᵀ := by
  simp [pTf, pTBf_kronF]

/-- A finite sum of Kronecker products of positive semidefinite matrices is positive semidefinite and has a
positive semidefinite partial transpose (on either party). -/
theorem product_meas_is_ppt {ι : Type*} [Fintype ι] (sys : Nat) (A : ι → Matrix (Fin dA) (Fin dA) ℂ)
    (B : ι → Matrix (Fin dB) (Fin dB) ℂ) (hA : ∀ j, (A j).PosSemidef) (hB : ∀ j, (B j).PosSemidef) :
    (∑ j, kronF (A j) (B j)).PosSemidef ∧ (pTf sys (∑ j, kronF (A j) (B j))).PosSemidef := by
  refine ⟨Matrix.posSemidef_sum _ fun j _ => kronF_posSemidef (hA j) (hB j), ?_⟩
  rw [ppt_party_irrelevant sys 1]
  have h1 : pTf 1 (∑ j, kronF (A j) (B j)) = ∑ j, kronF (A j) (B j)ᵀ := by
    simp only [pTf, one_ne_zero, if_false, pTBf_sum, pTBf_kronF]
  rw [h1]
  exact Matrix.posSemidef_sum _ fun j _ => kronF_posSemidef (hA j) (hB j).transpose

/-- A POVM whose elements are sums of products `A ⊗ B` of positive semidefinite matrices (every one-way
LOCC / separable measurement written in product form) is a PPT measurement. -/
theorem product_povm_is_ppt {ι : Type*} [Fintype ι] (sys : Nat)
    (A : Fin k → ι → Matrix (Fin dA) (Fin dA) ℂ) (B : Fin k → ι → Matrix (Fin dB) (Fin dB) ℂ)
    (hA : ∀ i j, (A i j).PosSemidef) (hB : ∀ i j, (B i j).PosSemidef)
    (hsum : ∑ i, ∑ j, kronF (A i j) (B i j) = 1) :
    IsPPTPOVM sys (fun i => ∑ j, kronF (A i j) (B i j)) :=
  ⟨⟨fun i => (product_meas_is_ppt sys (A i) (B i) (hA i) (hB i)).1, hsum⟩,
    fun i => (product_meas_is_ppt sys (A i) (B i) (hA i) (hB i)).2⟩

/-! ## Invariance under local unitaries -/

/-- `T_B((U ⊗ V) X (U ⊗ V)ᴴ) = (U ⊗ V̄) T_B(X) (U ⊗ V̄)ᴴ` where `V̄ = (Vᴴ)ᵀ` is the entrywise conjugate. -/
theorem pTB_conj_kron (U : Matrix (Fin dA) (Fin dA) ℂ) (V : Matrix (Fin dB) (Fin dB) ℂ)
    (X : Matrix (Fin (dA * dB)) (Fin (dA * dB)) ℂ) :
    pTf 1 (kronF U V * X * (kronF U V)ᴴ) = kronF U Vᴴᵀ * pTf 1 X * (kronF U Vᴴᵀ)ᴴ := by
  have h : (Vᴴᵀ)ᴴ = Vᵀ := by
    ext i j; simp [Matrix.conjTranspose_apply]
  simp only [pTf, one_ne_zero, if_false, kronF_conjTranspose, pTBf_kron_mul_kron, h]

/-- Conjugating states and measurement by a local unitary `U ⊗ V` maps PPT measurements to PPT
measurements and leaves the success probability unchanged; hence the PPT optimum is invariant. -/
theorem ppt_local_unitary_invariant (sys : Nat) (U : Matrix (Fin dA) (Fin dA) ℂ)
    (V : Matrix (Fin dB) (Fin dB) ℂ) (hU : Uᴴ * U = 1) (hV : Vᴴ * V = 1)
    (ρ : Fin k → Matrix (Fin (dA * dB)) (Fin (dA * dB)) ℂ) (p : Fin k → ℝ)
    (M : Fin k → Matrix (Fin (dA * dB)) (Fin (dA * dB)) ℂ) (hM : IsPPTPOVM sys M) :
    IsPPTPOVM sys (fun i => kronF U V * M i * (kronF U V)ᴴ) ∧
      successProb (fun i => kronF U V * ρ i * (kronF U V)ᴴ) p (fun i => kronF U V * M i * (kronF U V)ᴴ)
        = successProb ρ p M := by
  have hWl : (kronF U V)ᴴ * kronF U V = 1 := by
    rw [kronF_conjTranspose, kronF_mul, hU, hV, kronF_one]
  have hWr : kronF U V * (kronF U V)ᴴ = 1 := mul_eq_one_comm.mp hWl
  refine ⟨⟨⟨fun i => (hM.1.1 i).mul_mul_conjTranspose_same _, ?_⟩, fun i => ?_⟩, ?_⟩
  · rw [← Finset.sum_mul, ← Finset.mul_sum, hM.1.2, Matrix.mul_one, hWr]
  · rw [ppt_party_irrelevant sys 1, pTB_conj_kron]
    exact ((ppt_party_irrelevant sys 1 (M i)).mp (hM.2 i)).mul_mul_conjTranspose_same _
  · unfold successProb
    refine Finset.sum_congr rfl fun i _ => ?_
    have : kronF U V * ρ i * (kronF U V)ᴴ * (kronF U V * M i * (kronF U V)ᴴ)
        = kronF U V * (ρ i * M i) * (kronF U V)ᴴ := by
      calc kronF U V * ρ i * (kronF U V)ᴴ * (kronF U V * M i * (kronF U V)ᴴ)
          = kronF U V * ρ i * ((kronF U V)ᴴ * kronF U V) * M i * (kronF U V)ᴴ := by
            simp only [Matrix.mul_assoc]
        _ = kronF U V * (ρ i * M i) * (kronF U V)ᴴ := by
            rw [hWl, Matrix.mul_one]; simp only [Matrix.mul_assoc]
    rw [this, Matrix.trace_mul_comm, ← Matrix.mul_assoc, hWl, Matrix.one_mul]

/-! ## Soundness of the certificate checkers -/

/-- If the PPT primal checker accepts with value `lo`, the candidate is a PPT measurement (one element per
state) whose success probability is exactly `lo`; hence `lo` is a lower bound of the PPT optimum. -/
theorem checkPPTPrimal_sound (sys : Nat) (ens : Ensemble (dA * dB)) (M LM LT : List (EMat (dA * dB) (dA * dB)))
    (lo : Rat) (h : checkPPTPrimal sys ens M LM LT = some lo) :
    ens.probs.length = ens.size ∧ M.length = ens.size ∧
      IsPPTPOVM sys (mats ens.size M) ∧
      successProb (ensStates ens) (ensProbs ens) (mats ens.size M) = (lo : ℝ) := by
  unfold checkPPTPrimal at h
  split at h
  · next hl =>
    obtain ⟨h1, h2, -, -⟩ := (lens4Ok_iff _ _ _ _ _).mp hl
    obtain ⟨hp, hs, ht, hv⟩ := checkPPTPrimalFn_sound _ _ _ _ _ _ _ _ h
    exact ⟨h1, h2, ⟨⟨hp, hs⟩, ht⟩, hv⟩
  · exact absurd h (by simp)

/-- If the PPT dual checker accepts with value `hi`, every PPT measurement on the ensemble succeeds with
probability at most `hi`. -/
theorem checkPPTDual_sound (sys : Nat) (ens : Ensemble (dA * dB)) (Y : EMat (dA * dB) (dA * dB))
    (Q LQ LS : List (EMat (dA * dB) (dA * dB))) (hi : Rat)
    (h : checkPPTDual sys ens Y Q LQ LS = some hi) :
    ∀ M' : Fin ens.size → Matrix (Fin (dA * dB)) (Fin (dA * dB)) ℂ, IsPPTPOVM sys M' →
      successProb (ensStates ens) (ensProbs ens) M' ≤ (hi : ℝ) := by
  unfold checkPPTDual at h
  split at h
  · next hl =>
    obtain ⟨hq, hs, hv⟩ := checkPPTDualFn_sound _ _ _ _ _ _ _ _ _ h
    intro M' hM'
    rw [← hv]
    exact ppt_weak_duality sys (ensStates ens) (ensProbs ens) M' Y.toM (fun i => (matAt Q i).toM) hM'
      (fun i => ⟨hq i, hs i⟩)
  · exact absurd h (by simp)

/-- Accepted primal and dual certificates bracket the PPT optimum — also when the two certificates
transpose different parties. -/
theorem ppt_lo_le_hi (s s' : Nat) (ens : Ensemble (dA * dB)) (M LM LT : List (EMat (dA * dB) (dA * dB)))
    (Y : EMat (dA * dB) (dA * dB)) (Q LQ LS : List (EMat (dA * dB) (dA * dB))) (lo hi : Rat)
    (hlo : checkPPTPrimal s ens M LM LT = some lo) (hhi : checkPPTDual s' ens Y Q LQ LS = some hi) :
    (lo : ℝ) ≤ (hi : ℝ) := by
  obtain ⟨-, -, hM, hv⟩ := checkPPTPrimal_sound s ens M LM LT lo hlo
  rw [← hv]
  exact checkPPTDual_sound s' ens Y Q LQ LS hi hhi _ ((isPPTPOVM_party_irrelevant s s' _).mp hM)

/-- An accepted certificate for the *global* minimum-error dual (C10) bounds every PPT measurement:
certified PPT lower bounds never exceed certified global upper bounds. -/
theorem ppt_lo_le_global_hi (sys : Nat) (ens : Ensemble (dA * dB)) (M LM LT : List (EMat (dA * dB) (dA * dB)))
    (Y : EMat (dA * dB) (dA * dB)) (LY : List (EMat (dA * dB) (dA * dB))) (lo hi : Rat)
    (hlo : checkPPTPrimal sys ens M LM LT = some lo) (hhi : checkMinErrDual ens Y LY = some hi) :
    (lo : ℝ) ≤ (hi : ℝ) := by
  obtain ⟨-, -, hM, hv⟩ := checkPPTPrimal_sound sys ens M LM LT lo hlo
  rw [← hv]
  exact checkMinErrDual_sound ens Y LY hi hhi _ hM.1

/-- An accepted PPT dual certificate bounds the success probability of every product-form measurement
(`M_i = Σ_j A_ij ⊗ B_ij`, all factors positive semidefinite): PPT value ≥ value of any explicit product measurement. -/
theorem product_meas_le_ppt_bound {ι : Type*} [Fintype ι] (sys : Nat) (ens : Ensemble (dA * dB))
    (Y : EMat (dA * dB) (dA * dB)) (Q LQ LS : List (EMat (dA * dB) (dA * dB))) (hi : Rat)
    (h : checkPPTDual sys ens Y Q LQ LS = some hi)
    (A : Fin ens.size → ι → Matrix (Fin dA) (Fin dA) ℂ) (B : Fin ens.size → ι → Matrix (Fin dB) (Fin dB) ℂ)
    (hA : ∀ i j, (A i j).PosSemidef) (hB : ∀ i j, (B i j).PosSemidef)
    (hsum : ∑ i, ∑ j, kronF (A i j) (B i j) = 1) :
    successProb (ensStates ens) (ensProbs ens) (fun i => ∑ j, kronF (A i j) (B i j)) ≤ (hi : ℝ) :=
  checkPPTDual_sound sys ens Y Q LQ LS hi h _ (product_povm_is_ppt sys A B hA hB hsum)

/-! ## Symmetric-extension hierarchy: separable measurements are feasible at levels 1 and 2

Stated on index pairs `(x, y)` / triples `(x, y, y₂)` (toqito's composite index is `(x·dY + y)·dY + y₂`).
`SymExt2 M` collects the constraints `symmetric_extension_hierarchy(level=2)` imposes on one measurement
operator: an extension `X ⪰ 0` on `X ⊗ Y ⊗ Y₂` with `Tr_{Y₂} X = M`, `(1 ⊗ Π_sym) X (1 ⊗ Π_sym) = X`,
`T_X(X) ⪰ 0`, `T_{Y₂}(X) ⪰ 0`; level 1 imposes `M ⪰ 0`, `T_X(M) ⪰ 0`. -/

/-- Every operator of a separable measurement, `M = Σ_j A_j ⊗ b_j b_jᴴ` with `A_j ⪰ 0` and unit vectors `b_j`,
satisfies the constraints of level 1 (`M ⪰ 0`, `T_X(M) ⪰ 0`) and of level 2 (extension `Σ_j A_j ⊗ b_j b_jᴴ ⊗ b_j b_jᴴ`)
of the symmetric-extension hierarchy; so the hierarchy value at these levels is at least the value of any
explicit separable measurement. -/
theorem separable_meas_feasible {m n ι : Type*} [Fintype m] [Fintype n] [DecidableEq m] [DecidableEq n]
    [Fintype ι] (A : ι → Matrix m m ℂ) (b : ι → n → ℂ) (hA : ∀ j, (A j).PosSemidef)
    (hb : ∀ j, b j ⬝ᵥ star (b j) = 1) :
    (∑ j, kroneckerMap (· * ·) (A j) (vecMulVec (b j) (star (b j)))).PosSemidef ∧
      (pTAp (∑ j, kroneckerMap (· * ·) (A j) (vecMulVec (b j) (star (b j))))).PosSemidef ∧
      SymExt2 (∑ j, kroneckerMap (· * ·) (A j) (vecMulVec (b j) (star (b j)))) := by
  have hB : ∀ j, (vecMulVec (b j) (star (b j))).PosSemidef := fun j => Matrix.posSemidef_vecMulVec_self_star _
  refine ⟨Matrix.posSemidef_sum _ fun j _ => (hA j).kronecker (hB j), ?_,
    symExt2_sum _ _ fun j _ => symExt2_product (hA j) (b j) (hb j)⟩
  have h : pTAp (∑ j, kroneckerMap (· * ·) (A j) (vecMulVec (b j) (star (b j))))
      = ∑ j, kroneckerMap (· * ·) (A j)ᵀ (vecMulVec (b j) (star (b j))) := by
    ext x y
    simp only [pTAp, Matrix.sum_apply, Matrix.kroneckerMap_apply, Matrix.transpose_apply]
  rw [h]
  exact Matrix.posSemidef_sum _ fun j _ => (hA j).transpose.kronecker (hB j)

/-! ## The four Bell states: the PPT optimum is exactly 1/2

`bellEns` is the ensemble `toqito.states.bell(0..3)` = `Φ⁺, Φ⁻, Ψ⁺, Ψ⁻` with uniform priors.  Lower bound: the
product measurement `M₀ = |00⟩⟨00| + |11⟩⟨11|`, `M₂ = |01⟩⟨01| + |10⟩⟨10|`, `M₁ = M₃ = 0`.  Upper bound: `Y = 1/8`,
`Q_i = ¼·(Bell state whose partial transpose is ½ − ρ_i)`, for which every slack matrix vanishes. -/

section Bell

private def r4 (a : Array (Array Rat)) : EMat (2 * 2) (2 * 2) :=
  EMat.ofRows (a.map fun r => r.map QI.ofRat) (2 * 2) (2 * 2)

private def phiP (c : Rat) : EMat (2 * 2) (2 * 2) := r4 #[#[c, 0, 0, c], #[0, 0, 0, 0], #[0, 0, 0, 0], #[c, 0, 0, c]]
private def phiM (c : Rat) : EMat (2 * 2) (2 * 2) := r4 #[#[c, 0, 0, -c], #[0, 0, 0, 0], #[0, 0, 0, 0], #[-c, 0, 0, c]]
private def psiP (c : Rat) : EMat (2 * 2) (2 * 2) := r4 #[#[0, 0, 0, 0], #[0, c, c, 0], #[0, c, c, 0], #[0, 0, 0, 0]]
private def psiM (c : Rat) : EMat (2 * 2) (2 * 2) := r4 #[#[0, 0, 0, 0], #[0, c, -c, 0], #[0, -c, c, 0], #[0, 0, 0, 0]]
private def dg (a b c d : Rat) : EMat (2 * 2) (2 * 2) := r4 #[#[a, 0, 0, 0], #[0, b, 0, 0], #[0, 0, c, 0], #[0, 0, 0, d]]

/-- `bell(0), bell(1), bell(2), bell(3)` as density matrices, uniform priors -/
def bellEns : Ensemble (2 * 2) := ⟨[phiP (1/2), phiM (1/2), psiP (1/2), psiM (1/2)], [1/4, 1/4, 1/4, 1/4]⟩

private def bellM : List (EMat (2 * 2) (2 * 2)) := [dg 1 0 0 1, dg 0 0 0 0, dg 0 1 1 0, dg 0 0 0 0]
private def bellQ : List (EMat (2 * 2) (2 * 2)) := [psiM (1/8), psiP (1/8), phiM (1/8), phiP (1/8)]
private def bellLQ : List (EMat (2 * 2) (2 * 2)) := [psiM (1/4), psiP (1/4), phiM (1/4), phiP (1/4)]
private def zeros4 : List (EMat (2 * 2) (2 * 2)) := [dg 0 0 0 0, dg 0 0 0 0, dg 0 0 0 0, dg 0 0 0 0]

private theorem bell_primal_accept : checkPPTPrimal 1 bellEns bellM bellM bellM = some (1/2) := by
  decide +kernel

private theorem bell_dual_accept :
    checkPPTDual 1 bellEns (dg (1/8) (1/8) (1/8) (1/8)) bellQ bellLQ zeros4 = some (1/2) := by
  decide +kernel

/-- The optimal probability of discriminating the four Bell states (uniform priors) with PPT measurements
is exactly `1/2`, whichever party is transposed: a PPT measurement attains `1/2` and none exceeds it. -/
theorem bell_ppt_value_eq_half (sys : Nat) :
    (∃ M : Fin bellEns.size → Matrix (Fin (2 * 2)) (Fin (2 * 2)) ℂ, IsPPTPOVM sys M ∧
        successProb (ensStates bellEns) (ensProbs bellEns) M = 1 / 2) ∧
      ∀ M : Fin bellEns.size → Matrix (Fin (2 * 2)) (Fin (2 * 2)) ℂ, IsPPTPOVM sys M →
        successProb (ensStates bellEns) (ensProbs bellEns) M ≤ 1 / 2 := by
  constructor
  · obtain ⟨-, -, hM, hv⟩ := checkPPTPrimal_sound 1 bellEns bellM bellM bellM _ bell_primal_accept
    refine ⟨_, (isPPTPOVM_party_irrelevant 1 sys _).mp hM, ?_⟩
    rw [hv]; norm_num
  · intro M hM
    have := checkPPTDual_sound 1 bellEns _ bellQ bellLQ zeros4 _ bell_dual_accept M
      ((isPPTPOVM_party_irrelevant sys 1 _).mp hM)
    refine this.trans (le_of_eq ?_)
    norm_num

end Bell

/-! ## Concrete instances on `2 ⊗ 3`

The index convention on unequal dimensions (`X[i,j] = 6 i + j`: `T_B(X)[(0,1),(1,0)] = X[(0,0),(1,1)] = X[0,4]`,
`T_A(X)[(0,1),(1,0)] = X[(1,1),(0,0)] = X[4,0]`), and an ensemble of two diagonal states with unequal priors whose
optimum `15/16` is attained by both certificates (which transpose different parties). -/

section Example23

private def d6 (a : Array Rat) : EMat (2 * 3) (2 * 3) :=
  EMat.ofFn fun i j => if i = j then QI.ofRat a[i.val]! else 0

private def lab6 : EMat (2 * 3) (2 * 3) := EMat.ofFn fun i j => QI.ofRat ((6 * i.val + j.val : Nat) : Rat)

example : (pT 1 lab6).get ⟨1, by decide⟩ ⟨3, by decide⟩ = QI.ofRat 4 := by decide +kernel
example : (pT 0 lab6).get ⟨1, by decide⟩ ⟨3, by decide⟩ = QI.ofRat 24 := by decide +kernel

private def ens23 : Ensemble (2 * 3) := ⟨[d6 #[1/2, 1/2, 0, 0, 0, 0], d6 #[0, 1/4, 1/4, 1/4, 1/4, 0]], [3/4, 1/4]⟩

example : checkPPTPrimal 0 ens23 [d6 #[1, 1, 0, 0, 0, 0], d6 #[0, 0, 1, 1, 1, 1]]
    [d6 #[1, 1, 0, 0, 0, 0], d6 #[0, 0, 1, 1, 1, 1]] [d6 #[1, 1, 0, 0, 0, 0], d6 #[0, 0, 1, 1, 1, 1]]
    = some (15/16) := by decide +kernel

example : checkPPTDual 1 ens23 (d6 #[3/8, 3/8, 1/16, 1/16, 1/16, 0]) [d6 #[0, 0, 0, 0, 0, 0], d6 #[0, 0, 0, 0, 0, 0]]
    [d6 #[0, 0, 0, 0, 0, 0], d6 #[0, 0, 0, 0, 0, 0]] [d6 #[0, 0, 0, 0, 0, 0], d6 #[0, 1/4, 0, 0, 0, 0]]
    = some (15/16) := by decide +kernel

end Example23

end Toq.C12
