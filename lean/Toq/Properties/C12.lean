import Toq.Proofs.PPTDisc
import Toq.Proofs.PPTDiscHier
import Toq.Proofs.PPTDiscOpt
import Toq.Model.PPTDiscHier
import Toq.Properties.C10
/-!
# C12 — discrimination with PPT measurements: ordering, duality, invariances, certificate checkers

Bipartite space `A ⊗ B` of dimensions `(dA, dB)`, composite index `i = a·dB + b` (toqito's Kronecker
convention).  `pTf sys X` is the partial transpose of `X : Matrix (Fin (dA*dB)) (Fin (dA*dB)) ℂ` on party
`sys` (`0` = first party, otherwise second party): `pTBf X [(a,b),(a',b')] = X [(a,b'),(a',b)]`.
`kronF A B` is the Kronecker product on composite indices.

`ppt_distinguishability(…, subsystems=[sys], dimensions=[dA,dB], strategy="min_error")` solves

* primal: maximise `successProb ρ p M = Σ_i p_i Re tr(ρ_i M_i)` over POVMs `M` with `T_sys(M_i) ⪰ 0`  (`IsPPTPOVM`);
* dual:   minimise `Re tr Y` subject to `Q_i ⪰ 0`, `Y − p_i ρ_i − T_sys(Q_i) ⪰ 0`                  (`PPTDualFeasible`).

`IsPOVM`, `successProb`, `MinErrDualFeasible` and the denotations `ensStates`, `ensProbs`, `mats` are those
of C10 (`Toq.Properties.C10`).

Contents.  Algebra of the partial transpose; weak duality, PPT ≤ global; product, one-way LOCC and separable measurements are PPT
(`product_povm_is_ppt`, `one_way_locc_is_ppt`); local-unitary and party invariance; soundness of the certificate checkers
(`checkPPTPrimal_sound`, `checkPPTDual_sound`, `checkPPTUnambPrimal_sound`) and the programs they speak about
(`primal_program_feasible_iff`, `dual_program_feasible_iff`); the four Bell states (`bell_ppt_value_eq_half`, `bell_ppt_isGreatest`);
the PPT optimum is attained (`ppt_max_attained`), the duality gap and complementary slackness (`ppt_gap_eq`,
`ppt_primal_eq_dual_iff`, `ppt_optimal_of_slackness`); `strategy = "unambig"` (`ppt_unamb_le_min_error`).
The symmetric-extension hierarchy at EVERY level (`IsSymExtPOVM ℓ` = feasible set of level `ℓ + 1`): level one is the PPT program
(`symExt_level_one_iff_ppt`, `symExtValues_level_one`, `symExtValue_level_one`), the feasible sets and values are non-increasing in
the level (`symExt_level_succ`, `symExt_antitone`, `symExtValues_antitone`, `symExtValue_chain`), separable and one-way LOCC measurements
are feasible at every level (`separable_povm_symExt`, `one_way_locc_symExt`; `separable_meas_feasible` is the older statement for
levels 1 and 2 on index triples), every prior ≤ value ≤ PPT value ≤ 1 (`symExtValue_chain`), every PPT dual certificate bounds
every level (`symExt_le_checked_ppt_dual`).  Argument handling (`pptDispatch_cases`, `symExtDims_*`, `symExt_shape`).

Not proved (cited / certified per instance): strong duality of the PPT program for every ensemble (Slater: `M_i = 1/k` is strictly
feasible; per instance the harness certifies `hi − lo ≤ 10⁻⁴`, and `ppt_optimal_of_slackness` turns any exactly slack pair into a proof);
attainment of the hierarchy values for `ℓ ≥ 1` (the values are suprema); that the flattened-index expressions of the mirror model
`symExtExprs` are the index-tuple constraints `SymExtAt` (compared with the code's expressions on every run); PPT = separable on
`2 ⊗ 2`, `2 ⊗ 3` (Horodecki), used by the harness only for the one-sided check level 2 ≥ PPT value.
-/

open Matrix
open scoped ComplexOrder MatrixOrder

namespace Toq.C12
open Toq.Discrim Toq.PPTDisc Toq.C10

variable {dA dB k : Nat}

/-! ## The mathematical problems -/

/-- `M` is a measurement all of whose elements have a positive semidefinite partial transpose on party `sys` -/
def IsPPTPOVM (sys : Nat) (M : Fin k → Matrix (Fin (dA * dB)) (Fin (dA * dB)) ℂ) : Prop :=
  IsPOVM M ∧ ∀ i, (pTf sys (M i)).PosSemidef

/-- `(Y, Q)` is feasible for the dual of PPT minimum-error discrimination -/
def PPTDualFeasible (sys : Nat) (ρ : Fin k → Matrix (Fin (dA * dB)) (Fin (dA * dB)) ℂ) (p : Fin k → ℝ)
    (Y : Matrix (Fin (dA * dB)) (Fin (dA * dB)) ℂ) (Q : Fin k → Matrix (Fin (dA * dB)) (Fin (dA * dB)) ℂ) :
    Prop :=
  ∀ i, (Q i).PosSemidef ∧ (Y - (p i : ℂ) • ρ i - pTf sys (Q i)).PosSemidef

/-! ## Algebra of the partial transpose -/

/-- The executable partial transpose of the model denotes the mathematical partial transpose. -/
theorem pT_model_eq_spec (sys : Nat) (X : EMat (dA * dB) (dA * dB)) : (pT sys X).toM = pTf sys X.toM :=
  toM_pT sys X

/-- Entry formula: `T_B(X)[(a,b),(a',b')] = X[(a,b'),(a',b)]` with composite index `(a,b) ↦ a·dB + b`. -/
theorem pTB_entry (X : Matrix (Fin (dA * dB)) (Fin (dA * dB)) ℂ) (a a' : Fin dA) (b b' : Fin dB) :
    pTf 1 X (finProdFinEquiv (a, b)) (finProdFinEquiv (a', b'))
      = X (finProdFinEquiv (a, b')) (finProdFinEquiv (a', b)) := by
  simp [pTf, pTBf_apply]

/-- The partial transpose is additive. -/
theorem pT_add (sys : Nat) (X Y : Matrix (Fin (dA * dB)) (Fin (dA * dB)) ℂ) :
    pTf sys (X + Y) = pTf sys X + pTf sys Y := by
  unfold pTf; split <;> rfl

/-- The partial transpose commutes with scalar multiplication. -/
theorem pT_smul (sys : Nat) (c : ℂ) (X : Matrix (Fin (dA * dB)) (Fin (dA * dB)) ℂ) :
    pTf sys (c • X) = c • pTf sys X := by
  unfold pTf; split <;> rfl

/-- The partial transpose is an involution. -/
theorem pT_involutive (sys : Nat) (X : Matrix (Fin (dA * dB)) (Fin (dA * dB)) ℂ) :
    pTf sys (pTf sys X) = X := by
  unfold pTf
  split
  · rw [pTAf_eq_transpose, pTAf_eq_transpose]
    rw [show pTBf (pTBf X)ᵀ = (pTBf (pTBf X))ᵀ from rfl, pTBf_pTBf, Matrix.transpose_transpose]
  · exact pTBf_pTBf X

/-- The partial transpose preserves the trace. -/
theorem pT_trace (sys : Nat) (X : Matrix (Fin (dA * dB)) (Fin (dA * dB)) ℂ) :
    (pTf sys X).trace = X.trace := by
  unfold pTf
  split
  · rw [pTAf_eq_transpose, Matrix.trace_transpose, trace_pTBf]
  · exact trace_pTBf X

/-- The partial transpose is self-adjoint for the trace form: `tr(T(A)·B) = tr(A·T(B))`. -/
theorem pT_trace_adjoint (sys : Nat) (A B : Matrix (Fin (dA * dB)) (Fin (dA * dB)) ℂ) :
    (pTf sys A * B).trace = (A * pTf sys B).trace := by
  unfold pTf
  split
  · rw [pTAf_eq_transpose, pTAf_eq_transpose]
    have h1 : ((pTBf A)ᵀ * B).trace = (pTBf A * Bᵀ).trace := by
      rw [← Matrix.trace_transpose, Matrix.transpose_mul, Matrix.transpose_transpose, Matrix.trace_mul_comm]
    rw [h1, trace_pTBf_mul]
    rfl
  · exact trace_pTBf_mul A B

/-- Transposing the first party is transposing the second party followed by a full transpose. -/
theorem pTA_eq_transpose_pTB (X : Matrix (Fin (dA * dB)) (Fin (dA * dB)) ℂ) :
    pTf 0 X = (pTf 1 X)ᵀ := by
  simp [pTf, pTAf_eq_transpose]

/-- Which party is transposed is irrelevant for the PPT condition. -/
theorem ppt_party_irrelevant (s s' : Nat) (X : Matrix (Fin (dA * dB)) (Fin (dA * dB)) ℂ) :
    (pTf s X).PosSemidef ↔ (pTf s' X).PosSemidef := by
  have h : ∀ s, (pTf s X).PosSemidef ↔ (pTBf X).PosSemidef := by
    intro s
    unfold pTf
    split
    · rw [pTAf_eq_transpose, Matrix.posSemidef_transpose_iff]
    · rfl
  rw [h s, h s']

/-- Hence the feasible sets (and optimal values) of PPT discrimination do not depend on the party. -/
theorem isPPTPOVM_party_irrelevant (s s' : Nat) (M : Fin k → Matrix (Fin (dA * dB)) (Fin (dA * dB)) ℂ) :
    IsPPTPOVM s M ↔ IsPPTPOVM s' M := by
  unfold IsPPTPOVM
  exact and_congr Iff.rfl (forall_congr' fun i => ppt_party_irrelevant s s' (M i))

/-! ## Weak duality, ordering -/

/-- Weak duality: every PPT measurement succeeds with probability at most `Re tr Y` for dual-feasible `(Y, Q)`. -/
theorem ppt_weak_duality (sys : Nat) (ρ : Fin k → Matrix (Fin (dA * dB)) (Fin (dA * dB)) ℂ) (p : Fin k → ℝ)
    (M : Fin k → Matrix (Fin (dA * dB)) (Fin (dA * dB)) ℂ) (Y : Matrix (Fin (dA * dB)) (Fin (dA * dB)) ℂ)
    (Q : Fin k → Matrix (Fin (dA * dB)) (Fin (dA * dB)) ℂ)
    (hM : IsPPTPOVM sys M) (hYQ : PPTDualFeasible sys ρ p Y Q) :
    successProb ρ p M ≤ Y.trace.re :=
  ppt_weak_duality_gen (pTf sys) (pT_trace_adjoint sys) ρ p M Q Y hM.1.1 hM.1.2 hM.2
    (fun i => (hYQ i).1) (fun i => (hYQ i).2)

/-- PPT value ≤ global value: a PPT measurement is a measurement, so every bound `Re tr Y` from the dual of
unrestricted minimum-error discrimination (C10) bounds its success probability. -/
theorem ppt_le_global (sys : Nat) (ρ : Fin k → Matrix (Fin (dA * dB)) (Fin (dA * dB)) ℂ) (p : Fin k → ℝ)
    (M : Fin k → Matrix (Fin (dA * dB)) (Fin (dA * dB)) ℂ) (Y : Matrix (Fin (dA * dB)) (Fin (dA * dB)) ℂ)
    (hM : IsPPTPOVM sys M) (hY : MinErrDualFeasible ρ p Y) :
    successProb ρ p M ≤ Y.trace.re :=
  minErr_weak_duality ρ p M Y hM.1 hY

/-- Every feasible point of the global dual is a feasible point of the PPT dual (with `Q = 0`), so the
PPT dual optimum is at most the global dual optimum as well. -/
theorem global_dual_feasible_is_ppt_dual_feasible (sys : Nat)
    (ρ : Fin k → Matrix (Fin (dA * dB)) (Fin (dA * dB)) ℂ) (p : Fin k → ℝ)
    (Y : Matrix (Fin (dA * dB)) (Fin (dA * dB)) ℂ) (hY : MinErrDualFeasible ρ p Y) :
    PPTDualFeasible sys ρ p Y (fun _ => 0) := by
  intro i
  refine ⟨Matrix.PosSemidef.zero, ?_⟩
  have h0 : pTf sys (0 : Matrix (Fin (dA * dB)) (Fin (dA * dB)) ℂ) = 0 := by
    unfold pTf; split <;> rfl
  rw [h0, sub_zero]
  exact hY i

/-! ## Product (LOCC-type) measurements are PPT -/

/-- `T_B(A ⊗ B) = A ⊗ Bᵀ`. -/
theorem pTB_kron (A : Matrix (Fin dA) (Fin dA) ℂ) (B : Matrix (Fin dB) (Fin dB) ℂ) :
    pTf 1 (kronF A B) = kronF A Bᵀ := by
  simp [pTf, pTBf_kronF]

/-- A finite sum of Kronecker products of positive semidefinite matrices is positive semidefinite and has a
positive semidefinite partial transpose (on either party). -/
theorem product_meas_is_ppt {ι : Type*} [Fintype ι] (sys : Nat) (A : ι → Matrix (Fin dA) (Fin dA) ℂ)
    (B : ι → Matrix (Fin dB) (Fin dB) ℂ) (hA : ∀ j, (A j).PosSemidef) (hB : ∀ j, (B j).PosSemidef) :
    (∑ j, kronF (A j) (B j)).PosSemidef ∧ (pTf sys (∑ j, kronF (A j) (B j))).PosSemidef := by
  refine ⟨Matrix.posSemidef_sum _ fun j _ => kronF_posSemidef (hA j) (hB j), ?_⟩
  rw [ppt_party_irrelevant sys 1]
  have h1 : pTf 1 (∑ j, kronF (A j) (B j)) = ∑ j, kronF (A j) (B j)ᵀ := by
    simp only [pTf, one_ne_zero, if_false, pTBf_sum, pTBf_kronF]
  rw [h1]
  exact Matrix.posSemidef_sum _ fun j _ => kronF_posSemidef (hA j) (hB j).transpose

/-- A POVM whose elements are sums of products `A ⊗ B` of positive semidefinite matrices (every one-way
LOCC / separable measurement written in product form) is a PPT measurement. -/
theorem product_povm_is_ppt {ι : Type*} [Fintype ι] (sys : Nat)
    (A : Fin k → ι → Matrix (Fin dA) (Fin dA) ℂ) (B : Fin k → ι → Matrix (Fin dB) (Fin dB) ℂ)
    (hA : ∀ i j, (A i j).PosSemidef) (hB : ∀ i j, (B i j).PosSemidef)
    (hsum : ∑ i, ∑ j, kronF (A i j) (B i j) = 1) :
    IsPPTPOVM sys (fun i => ∑ j, kronF (A i j) (B i j)) :=
  ⟨⟨fun i => (product_meas_is_ppt sys (A i) (B i) (hA i) (hB i)).1, hsum⟩,
    fun i => (product_meas_is_ppt sys (A i) (B i) (hA i) (hB i)).2⟩

/-! ## Invariance under local unitaries -/

/-- `T_B((U ⊗ V) X (U ⊗ V)ᴴ) = (U ⊗ V̄) T_B(X) (U ⊗ V̄)ᴴ` where `V̄ = (Vᴴ)ᵀ` is the entrywise conjugate. -/
theorem pTB_conj_kron (U : Matrix (Fin dA) (Fin dA) ℂ) (V : Matrix (Fin dB) (Fin dB) ℂ)
    (X : Matrix (Fin (dA * dB)) (Fin (dA * dB)) ℂ) :
    pTf 1 (kronF U V * X * (kronF U V)ᴴ) = kronF U Vᴴᵀ * pTf 1 X * (kronF U Vᴴᵀ)ᴴ := by
  have h : (Vᴴᵀ)ᴴ = Vᵀ := by
    ext i j; simp [Matrix.conjTranspose_apply]
  simp only [pTf, one_ne_zero, if_false, kronF_conjTranspose, pTBf_kron_mul_kron, h]

/-- Conjugating states and measurement by a local unitary `U ⊗ V` maps PPT measurements to PPT
measurements and leaves the success probability unchanged; hence the PPT optimum is invariant. -/
theorem ppt_local_unitary_invariant (sys : Nat) (U : Matrix (Fin dA) (Fin dA) ℂ)
    (V : Matrix (Fin dB) (Fin dB) ℂ) (hU : Uᴴ * U = 1) (hV : Vᴴ * V = 1)
    (ρ : Fin k → Matrix (Fin (dA * dB)) (Fin (dA * dB)) ℂ) (p : Fin k → ℝ)
    (M : Fin k → Matrix (Fin (dA * dB)) (Fin (dA * dB)) ℂ) (hM : IsPPTPOVM sys M) :
    IsPPTPOVM sys (fun i => kronF U V * M i * (kronF U V)ᴴ) ∧
      successProb (fun i => kronF U V * ρ i * (kronF U V)ᴴ) p (fun i => kronF U V * M i * (kronF U V)ᴴ)
        = successProb ρ p M := by
  have hWl : (kronF U V)ᴴ * kronF U V = 1 := by
    rw [kronF_conjTranspose, kronF_mul, hU, hV, kronF_one]
  have hWr : kronF U V * (kronF U V)ᴴ = 1 := mul_eq_one_comm.mp hWl
  refine ⟨⟨⟨fun i => (hM.1.1 i).mul_mul_conjTranspose_same _, ?_⟩, fun i => ?_⟩, ?_⟩
  · rw [← Finset.sum_mul, ← Finset.mul_sum, hM.1.2, Matrix.mul_one, hWr]
  · rw [ppt_party_irrelevant sys 1, pTB_conj_kron]
    exact ((ppt_party_irrelevant sys 1 (M i)).mp (hM.2 i)).mul_mul_conjTranspose_same _
  · unfold successProb
    refine Finset.sum_congr rfl fun i _ => ?_
    have : kronF U V * ρ i * (kronF U V)ᴴ * (kronF U V * M i * (kronF U V)ᴴ)
        = kronF U V * (ρ i * M i) * (kronF U V)ᴴ := by
      calc kronF U V * ρ i * (kronF U V)ᴴ * (kronF U V * M i * (kronF U V)ᴴ)
          = kronF U V * ρ i * ((kronF U V)ᴴ * kronF U V) * M i * (kronF U V)ᴴ := by
            simp only [Matrix.mul_assoc]
        _ = kronF U V * (ρ i * M i) * (kronF U V)ᴴ := by
            rw [hWl, Matrix.mul_one]; simp only [Matrix.mul_assoc]
    rw [this, Matrix.trace_mul_comm, ← Matrix.mul_assoc, hWl, Matrix.one_mul]

/-! ## Soundness of the certificate checkers -/

/-- If the PPT primal checker accepts with value `lo`, the candidate is a PPT measurement (one element per
state) whose success probability is exactly `lo`; hence `lo` is a lower bound of the PPT optimum. -/
theorem checkPPTPrimal_sound (sys : Nat) (ens : Ensemble (dA * dB)) (M LM LT : List (EMat (dA * dB) (dA * dB)))
    (lo : Rat) (h : checkPPTPrimal sys ens M LM LT = some lo) :
    ens.probs.length = ens.size ∧ M.length = ens.size ∧
      IsPPTPOVM sys (mats ens.size M) ∧
      successProb (ensStates ens) (ensProbs ens) (mats ens.size M) = (lo : ℝ) := by
  unfold checkPPTPrimal at h
  split at h
  · next hl =>
    obtain ⟨h1, h2, -, -⟩ := (lens4Ok_iff _ _ _ _ _).mp hl
    obtain ⟨hp, hs, ht, hv⟩ := checkPPTPrimalFn_sound _ _ _ _ _ _ _ _ h
    exact ⟨h1, h2, ⟨⟨hp, hs⟩, ht⟩, hv⟩
  · exact absurd h (by simp)

/-- If the PPT dual checker accepts with value `hi`, every PPT measurement on the ensemble succeeds with
probability at most `hi`. -/
theorem checkPPTDual_sound (sys : Nat) (ens : Ensemble (dA * dB)) (Y : EMat (dA * dB) (dA * dB))
    (Q LQ LS : List (EMat (dA * dB) (dA * dB))) (hi : Rat)
    (h : checkPPTDual sys ens Y Q LQ LS = some hi) :
    ∀ M' : Fin ens.size → Matrix (Fin (dA * dB)) (Fin (dA * dB)) ℂ, IsPPTPOVM sys M' →
      successProb (ensStates ens) (ensProbs ens) M' ≤ (hi : ℝ) := by
  unfold checkPPTDual at h
  split at h
  · next hl =>
    obtain ⟨hq, hs, hv⟩ := checkPPTDualFn_sound _ _ _ _ _ _ _ _ _ h
    intro M' hM'
    rw [← hv]
    exact ppt_weak_duality sys (ensStates ens) (ensProbs ens) M' Y.toM (fun i => (matAt Q i).toM) hM'
      (fun i => ⟨hq i, hs i⟩)
  · exact absurd h (by simp)

/-- Accepted primal and dual certificates bracket the PPT optimum — also when the two certificates
transpose different parties. -/
theorem ppt_lo_le_hi (s s' : Nat) (ens : Ensemble (dA * dB)) (M LM LT : List (EMat (dA * dB) (dA * dB)))
    (Y : EMat (dA * dB) (dA * dB)) (Q LQ LS : List (EMat (dA * dB) (dA * dB))) (lo hi : Rat)
    (hlo : checkPPTPrimal s ens M LM LT = some lo) (hhi : checkPPTDual s' ens Y Q LQ LS = some hi) :
    (lo : ℝ) ≤ (hi : ℝ) := by
  obtain ⟨-, -, hM, hv⟩ := checkPPTPrimal_sound s ens M LM LT lo hlo
  rw [← hv]
  exact checkPPTDual_sound s' ens Y Q LQ LS hi hhi _ ((isPPTPOVM_party_irrelevant s s' _).mp hM)

/-- An accepted certificate for the *global* minimum-error dual (C10) bounds every PPT measurement:
certified PPT lower bounds never exceed certified global upper bounds. -/
theorem ppt_lo_le_global_hi (sys : Nat) (ens : Ensemble (dA * dB)) (M LM LT : List (EMat (dA * dB) (dA * dB)))
    (Y : EMat (dA * dB) (dA * dB)) (LY : List (EMat (dA * dB) (dA * dB))) (lo hi : Rat)
    (hlo : checkPPTPrimal sys ens M LM LT = some lo) (hhi : checkMinErrDual ens Y LY = some hi) :
    (lo : ℝ) ≤ (hi : ℝ) := by
  obtain ⟨-, -, hM, hv⟩ := checkPPTPrimal_sound sys ens M LM LT lo hlo
  rw [← hv]
  exact checkMinErrDual_sound ens Y LY hi hhi _ hM.1

/-- An accepted PPT dual certificate bounds the success probability of every product-form measurement
(`M_i = Σ_j A_ij ⊗ B_ij`, all factors positive semidefinite): PPT value ≥ value of any explicit product measurement. -/
theorem product_meas_le_ppt_bound {ι : Type*} [Fintype ι] (sys : Nat) (ens : Ensemble (dA * dB))
    (Y : EMat (dA * dB) (dA * dB)) (Q LQ LS : List (EMat (dA * dB) (dA * dB))) (hi : Rat)
    (h : checkPPTDual sys ens Y Q LQ LS = some hi)
    (A : Fin ens.size → ι → Matrix (Fin dA) (Fin dA) ℂ) (B : Fin ens.size → ι → Matrix (Fin dB) (Fin dB) ℂ)
    (hA : ∀ i j, (A i j).PosSemidef) (hB : ∀ i j, (B i j).PosSemidef)
    (hsum : ∑ i, ∑ j, kronF (A i j) (B i j) = 1) :
    successProb (ensStates ens) (ensProbs ens) (fun i => ∑ j, kronF (A i j) (B i j)) ≤ (hi : ℝ) :=
  checkPPTDual_sound sys ens Y Q LQ LS hi h _ (product_povm_is_ppt sys A B hA hB hsum)

/-! ## Symmetric-extension hierarchy: separable measurements are feasible at levels 1 and 2

Stated on index pairs `(x, y)` / triples `(x, y, y₂)` (toqito's composite index is `(x·dY + y)·dY + y₂`).
`SymExt2 M` collects the constraints `symmetric_extension_hierarchy(level=2)` imposes on one measurement
operator: an extension `X ⪰ 0` on `X ⊗ Y ⊗ Y₂` with `Tr_{Y₂} X = M`, `(1 ⊗ Π_sym) X (1 ⊗ Π_sym) = X`,
`T_X(X) ⪰ 0`, `T_{Y₂}(X) ⪰ 0`; level 1 imposes `M ⪰ 0`, `T_X(M) ⪰ 0`. -/

/-- Every operator of a separable measurement, `M = Σ_j A_j ⊗ b_j b_jᴴ` with `A_j ⪰ 0` and unit vectors `b_j`,
satisfies the constraints of level 1 (`M ⪰ 0`, `T_X(M) ⪰ 0`) and of level 2 (extension `Σ_j A_j ⊗ b_j b_jᴴ ⊗ b_j b_jᴴ`)
of the symmetric-extension hierarchy; so the hierarchy value at these levels is at least the value of any
explicit separable measurement. -/
theorem separable_meas_feasible {m n ι : Type*} [Fintype m] [Fintype n] [DecidableEq m] [DecidableEq n]
    [Fintype ι] (A : ι → Matrix m m ℂ) (b : ι → n → ℂ) (hA : ∀ j, (A j).PosSemidef)
    (hb : ∀ j, b j ⬝ᵥ star (b j) = 1) :
    (∑ j, kroneckerMap (· * ·) (A j) (vecMulVec (b j) (star (b j)))).PosSemidef ∧
      (pTAp (∑ j, kroneckerMap (· * ·) (A j) (vecMulVec (b j) (star (b j))))).PosSemidef ∧
      SymExt2 (∑ j, kroneckerMap (· * ·) (A j) (vecMulVec (b j) (star (b j)))) := by
  have hB : ∀ j, (vecMulVec (b j) (star (b j))).PosSemidef := fun j => Matrix.posSemidef_vecMulVec_self_star _
  refine ⟨Matrix.posSemidef_sum _ fun j _ => (hA j).kronecker (hB j), ?_,
    symExt2_sum _ _ fun j _ => symExt2_product (hA j) (b j) (hb j)⟩
  have h : pTAp (∑ j, kroneckerMap (· * ·) (A j) (vecMulVec (b j) (star (b j))))
      = ∑ j, kroneckerMap (· * ·) (A j)ᵀ (vecMulVec (b j) (star (b j))) := by
    ext x y
    simp only [pTAp, Matrix.sum_apply, Matrix.kroneckerMap_apply, Matrix.transpose_apply]
  rw [h]
  exact Matrix.posSemidef_sum _ fun j _ => (hA j).transpose.kronecker (hB j)

/-! ## The four Bell states: the PPT optimum is exactly 1/2

`bellEns` is the ensemble `toqito.states.bell(0..3)` = `Φ⁺, Φ⁻, Ψ⁺, Ψ⁻` with uniform priors.  Lower bound: the
product measurement `M₀ = |00⟩⟨00| + |11⟩⟨11|`, `M₂ = |01⟩⟨01| + |10⟩⟨10|`, `M₁ = M₃ = 0`.  Upper bound: `Y = 1/8`,
`Q_i = ¼·(Bell state whose partial transpose is ½ − ρ_i)`, for which every slack matrix vanishes. -/

section Bell

private def r4 (a : Array (Array Rat)) : EMat (2 * 2) (2 * 2) :=
  EMat.ofRows (a.map fun r => r.map QI.ofRat) (2 * 2) (2 * 2)

private def phiP (c : Rat) : EMat (2 * 2) (2 * 2) := r4 #[#[c, 0, 0, c], #[0, 0, 0, 0], #[0, 0, 0, 0], #[c, 0, 0, c]]
private def phiM (c : Rat) : EMat (2 * 2) (2 * 2) := r4 #[#[c, 0, 0, -c], #[0, 0, 0, 0], #[0, 0, 0, 0], #[-c, 0, 0, c]]
private def psiP (c : Rat) : EMat (2 * 2) (2 * 2) := r4 #[#[0, 0, 0, 0], #[0, c, c, 0], #[0, c, c, 0], #[0, 0, 0, 0]]
private def psiM (c : Rat) : EMat (2 * 2) (2 * 2) := r4 #[#[0, 0, 0, 0], #[0, c, -c, 0], #[0, -c, c, 0], #[0, 0, 0, 0]]
private def dg (a b c d : Rat) : EMat (2 * 2) (2 * 2) := r4 #[#[a, 0, 0, 0], #[0, b, 0, 0], #[0, 0, c, 0], #[0, 0, 0, d]]

/-- `bell(0), bell(1), bell(2), bell(3)` as density matrices, uniform priors -/
def bellEns : Ensemble (2 * 2) := ⟨[phiP (1/2), phiM (1/2), psiP (1/2), psiM (1/2)], [1/4, 1/4, 1/4, 1/4]⟩

private def bellM : List (EMat (2 * 2) (2 * 2)) := [dg 1 0 0 1, dg 0 0 0 0, dg 0 1 1 0, dg 0 0 0 0]
private def bellQ : List (EMat (2 * 2) (2 * 2)) := [psiM (1/8), psiP (1/8), phiM (1/8), phiP (1/8)]
private def bellLQ : List (EMat (2 * 2) (2 * 2)) := [psiM (1/4), psiP (1/4), phiM (1/4), phiP (1/4)]
private def zeros4 : List (EMat (2 * 2) (2 * 2)) := [dg 0 0 0 0, dg 0 0 0 0, dg 0 0 0 0, dg 0 0 0 0]

private theorem bell_primal_accept : checkPPTPrimal 1 bellEns bellM bellM bellM = some (1/2) := by
  decide +kernel

private theorem bell_dual_accept :
    checkPPTDual 1 bellEns (dg (1/8) (1/8) (1/8) (1/8)) bellQ bellLQ zeros4 = some (1/2) := by
  decide +kernel

/-- The optimal probability of discriminating the four Bell states (uniform priors) with PPT measurements
is exactly `1/2`, whichever party is transposed: a PPT measurement attains `1/2` and none exceeds it. -/
theorem bell_ppt_value_eq_half (sys : Nat) :
    (∃ M : Fin bellEns.size → Matrix (Fin (2 * 2)) (Fin (2 * 2)) ℂ, IsPPTPOVM sys M ∧
        successProb (ensStates bellEns) (ensProbs bellEns) M = 1 / 2) ∧
      ∀ M : Fin bellEns.size → Matrix (Fin (2 * 2)) (Fin (2 * 2)) ℂ, IsPPTPOVM sys M →
        successProb (ensStates bellEns) (ensProbs bellEns) M ≤ 1 / 2 := by
  constructor
  · obtain ⟨-, -, hM, hv⟩ := checkPPTPrimal_sound 1 bellEns bellM bellM bellM _ bell_primal_accept
    refine ⟨_, (isPPTPOVM_party_irrelevant 1 sys _).mp hM, ?_⟩
    rw [hv]; norm_num
  · intro M hM
    have := checkPPTDual_sound 1 bellEns _ bellQ bellLQ zeros4 _ bell_dual_accept M
      ((isPPTPOVM_party_irrelevant sys 1 _).mp hM)
    refine this.trans (le_of_eq ?_)
    norm_num

end Bell

/-! ## Concrete instances on `2 ⊗ 3`

The index convention on unequal dimensions (`X[i,j] = 6 i + j`: `T_B(X)[(0,1),(1,0)] = X[(0,0),(1,1)] = X[0,4]`,
`T_A(X)[(0,1),(1,0)] = X[(1,1),(0,0)] = X[4,0]`), and an ensemble of two diagonal states with unequal priors whose
optimum `15/16` is attained by both certificates (which transpose different parties). -/

section Example23

private def d6 (a : Array Rat) : EMat (2 * 3) (2 * 3) :=
  EMat.ofFn fun i j => if i = j then QI.ofRat a[i.val]! else 0

private def lab6 : EMat (2 * 3) (2 * 3) := EMat.ofFn fun i j => QI.ofRat ((6 * i.val + j.val : Nat) : Rat)

example : (pT 1 lab6).get ⟨1, by decide⟩ ⟨3, by decide⟩ = QI.ofRat 4 := by decide +kernel
example : (pT 0 lab6).get ⟨1, by decide⟩ ⟨3, by decide⟩ = QI.ofRat 24 := by decide +kernel

private def ens23 : Ensemble (2 * 3) := ⟨[d6 #[1/2, 1/2, 0, 0, 0, 0], d6 #[0, 1/4, 1/4, 1/4, 1/4, 0]], [3/4, 1/4]⟩

example : checkPPTPrimal 0 ens23 [d6 #[1, 1, 0, 0, 0, 0], d6 #[0, 0, 1, 1, 1, 1]]
    [d6 #[1, 1, 0, 0, 0, 0], d6 #[0, 0, 1, 1, 1, 1]] [d6 #[1, 1, 0, 0, 0, 0], d6 #[0, 0, 1, 1, 1, 1]]
    = some (15/16) := by decide +kernel

example : checkPPTDual 1 ens23 (d6 #[3/8, 3/8, 1/16, 1/16, 1/16, 0]) [d6 #[0, 0, 0, 0, 0, 0], d6 #[0, 0, 0, 0, 0, 0]]
    [d6 #[0, 0, 0, 0, 0, 0], d6 #[0, 0, 0, 0, 0, 0]] [d6 #[0, 0, 0, 0, 0, 0], d6 #[0, 1/4, 0, 0, 0, 0]]
    = some (15/16) := by decide +kernel

end Example23

/-! ## One-way LOCC measurements are PPT measurements

Alice measures a POVM `{A_a}`; Bob, told her outcome `a`, measures a POVM `{B_{b|a}}` that may depend on it; the pair
`(a, b)` is decoded to a guess `g(a, b)`.  The measurement operators are `M_i = Σ_{(a,b) : g(a,b) = i} A_a ⊗ B_{b|a}`. -/

/-- Every one-way LOCC measurement (any local POVM of the first party, any conditional POVMs of the second party, any
decoding of the outcome pairs) is a PPT measurement; product POVMs are the case where `B` does not depend on `a`. -/
theorem one_way_locc_is_ppt {α β : Type*} [Fintype α] [Fintype β] (sys : Nat)
    (A : α → Matrix (Fin dA) (Fin dA) ℂ) (B : α → β → Matrix (Fin dB) (Fin dB) ℂ)
    (hA : ∀ a, (A a).PosSemidef) (hAsum : ∑ a, A a = 1)
    (hB : ∀ a b, (B a b).PosSemidef) (hBsum : ∀ a, ∑ b, B a b = 1) (g : α × β → Fin k) :
    IsPPTPOVM sys (fun i => ∑ ab : α × β, kronF (if g ab = i then A ab.1 else 0) (B ab.1 ab.2)) := by
  refine product_povm_is_ppt sys (fun i ab => if g ab = i then A ab.1 else 0) (fun _ ab => B ab.1 ab.2)
    (fun i ab => ?_) (fun _ ab => hB ab.1 ab.2) ?_
  · split
    · exact hA ab.1
    · exact Matrix.PosSemidef.zero
  · rw [Finset.sum_comm]
    have h1 : ∀ ab : α × β, ∑ i : Fin k, kronF (if g ab = i then A ab.1 else 0) (B ab.1 ab.2)
        = kronF (A ab.1) (B ab.1 ab.2) := by
      intro ab
      rw [Finset.sum_eq_single (g ab)]
      · rw [if_pos rfl]
      · intro i _ hi
        rw [if_neg (Ne.symm hi), kronF_zero_left]
      · simp
    simp only [h1]
    rw [Fintype.sum_prod_type]
    simp only [← kronF_sum_right, hBsum]
    rw [← kronF_sum_left, hAsum, kronF_one]

/-- Hence every accepted PPT dual certificate bounds the success probability of every one-way LOCC measurement. -/
theorem one_way_locc_le_ppt_bound {α β : Type*} [Fintype α] [Fintype β] (sys : Nat) (ens : Ensemble (dA * dB))
    (Y : EMat (dA * dB) (dA * dB)) (Q LQ LS : List (EMat (dA * dB) (dA * dB))) (hi : Rat)
    (h : checkPPTDual sys ens Y Q LQ LS = some hi)
    (A : α → Matrix (Fin dA) (Fin dA) ℂ) (B : α → β → Matrix (Fin dB) (Fin dB) ℂ)
    (hA : ∀ a, (A a).PosSemidef) (hAsum : ∑ a, A a = 1)
    (hB : ∀ a b, (B a b).PosSemidef) (hBsum : ∀ a, ∑ b, B a b = 1) (g : α × β → Fin ens.size) :
    successProb (ensStates ens) (ensProbs ens)
      (fun i => ∑ ab : α × β, kronF (if g ab = i then A ab.1 else 0) (B ab.1 ab.2)) ≤ (hi : ℝ) :=
  checkPPTDual_sound sys ens Y Q LQ LS hi h _ (one_way_locc_is_ppt sys A B hA hAsum hB hBsum g)

/-! ## The PPT optimum: value set, bounds, attainment, complementary slackness -/

/-- the set of success probabilities attained by PPT measurements; the PPT value is its supremum (a maximum, see
`ppt_max_attained`) -/
def pptValues (sys : Nat) (ρ : Fin k → Matrix (Fin (dA * dB)) (Fin (dA * dB)) ℂ) (p : Fin k → ℝ) : Set ℝ :=
  {v | ∃ M : Fin k → Matrix (Fin (dA * dB)) (Fin (dA * dB)) ℂ, IsPPTPOVM sys M ∧ successProb ρ p M = v}

/-- The set of attainable values does not depend on the transposed party. -/
theorem pptValues_party_irrelevant (s s' : Nat) (ρ : Fin k → Matrix (Fin (dA * dB)) (Fin (dA * dB)) ℂ)
    (p : Fin k → ℝ) : pptValues s ρ p = pptValues s' ρ p := by
  ext v
  exact ⟨fun ⟨M, hM, hv⟩ => ⟨M, (isPPTPOVM_party_irrelevant s s' M).mp hM, hv⟩,
    fun ⟨M, hM, hv⟩ => ⟨M, (isPPTPOVM_party_irrelevant s s' M).mpr hM, hv⟩⟩

/-- Every value attained by a PPT measurement is attained by a measurement: PPT value ≤ global value as sets. -/
theorem pptValues_subset_global (sys : Nat) (ρ : Fin k → Matrix (Fin (dA * dB)) (Fin (dA * dB)) ℂ)
    (p : Fin k → ℝ) : pptValues sys ρ p ⊆ minErrValues ρ p :=
  fun _ ⟨M, hM, hv⟩ => ⟨M, hM.1, hv⟩

/-- The measurement "always answer `j`" is a PPT measurement. -/
theorem const_povm_is_ppt (sys : Nat) (j : Fin k) :
    IsPPTPOVM sys (meConstPovm (ι := Fin (dA * dB)) j) := by
  refine ⟨⟨meConstPovm_psd j, meConstPovm_sum j⟩, fun i => ?_⟩
  unfold meConstPovm
  split
  · rw [pTf_one]; exact Matrix.PosSemidef.one
  · rw [pTf_zero]; exact Matrix.PosSemidef.zero

/-- **At least every prior**: for a unit-trace state `ρ_j` the PPT measurement "always answer `j`" succeeds with
probability `p_j`. -/
theorem ppt_ge_prior (sys : Nat) (ρ : Fin k → Matrix (Fin (dA * dB)) (Fin (dA * dB)) ℂ) (p : Fin k → ℝ)
    (j : Fin k) (hj : (ρ j).trace = 1) : p j ∈ pptValues sys ρ p := by
  refine ⟨meConstPovm j, const_povm_is_ppt sys j, ?_⟩
  unfold successProb
  rw [meConstPovm_value, hj]
  simp

/-- **At most one** for density operators and a probability vector. -/
theorem ppt_le_one (sys : Nat) (ρ : Fin k → Matrix (Fin (dA * dB)) (Fin (dA * dB)) ℂ) (p : Fin k → ℝ)
    (hρ : ∀ i, (ρ i).PosSemidef) (htr : ∀ i, (ρ i).trace = 1) (hp : ∀ i, 0 ≤ p i) (hsum : ∑ i, p i = 1) :
    ∀ v ∈ pptValues sys ρ p, v ≤ 1 := by
  rintro v ⟨M, hM, rfl⟩
  exact minErr_le_one ρ p M hρ htr hp hsum hM.1

/-- **The PPT optimum is attained**: the PPT measurements form a compact set, so some PPT measurement succeeds with the
largest probability (for at least one state). -/
theorem ppt_max_attained (sys : Nat) (hk : 0 < k) (ρ : Fin k → Matrix (Fin (dA * dB)) (Fin (dA * dB)) ℂ)
    (p : Fin k → ℝ) :
    ∃ M : Fin k → Matrix (Fin (dA * dB)) (Fin (dA * dB)) ℂ, IsPPTPOVM sys M ∧
      IsGreatest (pptValues sys ρ p) (successProb ρ p M) := by
  have : Nonempty (Fin k) := ⟨⟨0, hk⟩⟩
  obtain ⟨M, ⟨h1, h2, h3⟩, hmax⟩ := ppt_max_attained_gen (pTf sys) (continuous_pTf sys)
    (by rw [pTf_zero]; exact Matrix.PosSemidef.zero) (by rw [pTf_one]; exact Matrix.PosSemidef.one) ρ p
  refine ⟨M, ⟨⟨h1, h2⟩, h3⟩, ⟨M, ⟨⟨h1, h2⟩, h3⟩, rfl⟩, ?_⟩
  rintro v ⟨M', hM', rfl⟩
  exact hmax M' hM'.1.1 hM'.1.2 hM'.2

/-- **Duality gap.**  For a measurement `M` and any `(Y, Q)`:
`Re tr Y − P_succ(M) = Σ_i Re tr((Y − p_i ρ_i − T(Q_i)) M_i) + Σ_i Re tr(Q_i T(M_i))`. -/
theorem ppt_gap_eq (sys : Nat) (ρ : Fin k → Matrix (Fin (dA * dB)) (Fin (dA * dB)) ℂ) (p : Fin k → ℝ)
    (M Q : Fin k → Matrix (Fin (dA * dB)) (Fin (dA * dB)) ℂ) (Y : Matrix (Fin (dA * dB)) (Fin (dA * dB)) ℂ)
    (hsum : ∑ i, M i = 1) :
    Y.trace.re - successProb ρ p M
      = ∑ i, ((Y - (p i : ℂ) • ρ i - pTf sys (Q i)) * M i).trace.re + ∑ i, (Q i * pTf sys (M i)).trace.re :=
  ppt_gap_gen (pTf sys) (pT_trace_adjoint sys) ρ p M Q Y hsum

/-- **Primal and dual agree exactly under complementary slackness.**  For a PPT measurement `M` and a dual-feasible
`(Y, Q)`: the success probability of `M` equals `Re tr Y` iff `(Y − p_i ρ_i − T(Q_i)) M_i = 0` and `Q_i T(M_i) = 0`
for every `i`. -/
theorem ppt_primal_eq_dual_iff (sys : Nat) (ρ : Fin k → Matrix (Fin (dA * dB)) (Fin (dA * dB)) ℂ)
    (p : Fin k → ℝ) (M Q : Fin k → Matrix (Fin (dA * dB)) (Fin (dA * dB)) ℂ)
    (Y : Matrix (Fin (dA * dB)) (Fin (dA * dB)) ℂ) (hM : IsPPTPOVM sys M) (hYQ : PPTDualFeasible sys ρ p Y Q) :
    successProb ρ p M = Y.trace.re ↔
      ∀ i, (Y - (p i : ℂ) • ρ i - pTf sys (Q i)) * M i = 0 ∧ Q i * pTf sys (M i) = 0 :=
  ppt_gap_zero_iff_gen (pTf sys) (pT_trace_adjoint sys) ρ p M Q Y hM.1.1 hM.1.2 hM.2
    (fun i => (hYQ i).1) (fun i => (hYQ i).2)

/-- **Optimality certificate.**  If a PPT measurement and a dual-feasible point satisfy complementary slackness, then
`Re tr Y` is the greatest attained PPT value (attained by `M`) and no dual-feasible point has a smaller trace: the primal
and the dual formulation have the same optimal value. -/
theorem ppt_optimal_of_slackness (sys : Nat) (ρ : Fin k → Matrix (Fin (dA * dB)) (Fin (dA * dB)) ℂ)
    (p : Fin k → ℝ) (M Q : Fin k → Matrix (Fin (dA * dB)) (Fin (dA * dB)) ℂ)
    (Y : Matrix (Fin (dA * dB)) (Fin (dA * dB)) ℂ) (hM : IsPPTPOVM sys M) (hYQ : PPTDualFeasible sys ρ p Y Q)
    (hs : ∀ i, (Y - (p i : ℂ) • ρ i - pTf sys (Q i)) * M i = 0 ∧ Q i * pTf sys (M i) = 0) :
    IsGreatest (pptValues sys ρ p) Y.trace.re ∧
      ∀ (Y' : Matrix (Fin (dA * dB)) (Fin (dA * dB)) ℂ) (Q' : Fin k → Matrix (Fin (dA * dB)) (Fin (dA * dB)) ℂ),
        PPTDualFeasible sys ρ p Y' Q' → Y.trace.re ≤ Y'.trace.re := by
  have hv := (ppt_primal_eq_dual_iff sys ρ p M Q Y hM hYQ).mpr hs
  refine ⟨⟨⟨M, hM, hv⟩, ?_⟩, fun Y' Q' h' => ?_⟩
  · rintro v ⟨M', hM', rfl⟩
    exact ppt_weak_duality sys ρ p M' Y Q hM' hYQ
  · rw [← hv]
    exact ppt_weak_duality sys ρ p M Y' Q' hM h'

/-- Restatement of `bell_ppt_value_eq_half`: `1/2` is the greatest value PPT measurements attain on the four Bell states. -/
theorem bell_ppt_isGreatest (sys : Nat) :
    IsGreatest (pptValues (dA := 2) (dB := 2) sys (ensStates bellEns) (ensProbs bellEns)) (1 / 2) := by
  obtain ⟨⟨M, hM, hv⟩, hle⟩ := bell_ppt_value_eq_half sys
  refine ⟨⟨M, hM, hv⟩, ?_⟩
  rintro v ⟨M', hM', rfl⟩
  exact hle M' hM'

/-! ## The symmetric-extension hierarchy at every level

`SymExtAt ℓ` (`Toq/Proofs/PPTDiscHier.lean`) is the constraint set `symmetric_extension_hierarchy(level = ℓ + 1, dim = [dA, dB])` puts on
one measurement operator, read on index pairs `(x, y)` through `toP` (composite index `x·dB + y`): an extension to
`X ⊗ Y^{⊗(ℓ+1)}` that is PSD, has the operator as its marginal on `X ⊗ Y` (all copies but the first traced out), is fixed by
the projector onto the symmetric subspace of the copies on both sides, and has PSD partial transposes on `X` and on each of the
copies `2 … ℓ + 1`. -/

/-- the feasible set of `symmetric_extension_hierarchy` at level `ℓ + 1` -/
def IsSymExtPOVM (ℓ : Nat) (M : Fin k → Matrix (Fin (dA * dB)) (Fin (dA * dB)) ℂ) : Prop :=
  IsPOVM M ∧ ∀ i, SymExtAt ℓ (toP (M i))

/-- the values attained at level `ℓ + 1`; the hierarchy value is the supremum -/
def symExtValues (ℓ : Nat) (ρ : Fin k → Matrix (Fin (dA * dB)) (Fin (dA * dB)) ℂ) (p : Fin k → ℝ) : Set ℝ :=
  {v | ∃ M : Fin k → Matrix (Fin (dA * dB)) (Fin (dA * dB)) ℂ, IsSymExtPOVM ℓ M ∧ successProb ρ p M = v}

/-- the PPT value -/
noncomputable def pptValue (sys : Nat) (ρ : Fin k → Matrix (Fin (dA * dB)) (Fin (dA * dB)) ℂ) (p : Fin k → ℝ) : ℝ :=
  sSup (pptValues sys ρ p)

/-- the value of the hierarchy at level `ℓ + 1` -/
noncomputable def symExtValue (ℓ : Nat) (ρ : Fin k → Matrix (Fin (dA * dB)) (Fin (dA * dB)) ℂ) (p : Fin k → ℝ) : ℝ :=
  sSup (symExtValues ℓ ρ p)

/-- The support constraint of the hierarchy uses the projector that C18 proves `symmetric_projection(dB, L)` to be. -/
theorem symExt_projector_is_C18 (d L : Nat) :
    symPC d L = (Toq.Combinat.Spec.symSpec d L).map (fun q : ℚ => (q : ℂ)) :=
  symPC_eq_symSpec d L

/-- **Level one is the PPT program**: the level-1 feasible set of the hierarchy is the set of PPT measurements
(whichever party the PPT program transposes). -/
theorem symExt_level_one_iff_ppt (sys : Nat) (M : Fin k → Matrix (Fin (dA * dB)) (Fin (dA * dB)) ℂ) :
    IsSymExtPOVM 0 M ↔ IsPPTPOVM sys M := by
  have key : ∀ X : Matrix (Fin (dA * dB)) (Fin (dA * dB)) ℂ,
      (pTf sys X).PosSemidef ↔ (pTAp (toP X)).PosSemidef := by
    intro X
    rw [ppt_party_irrelevant sys 0]
    have : pTf 0 X = ofP (pTAp (toP X)) := by simp [pTf, pTAf]
    rw [this, ofP_posSemidef]
  constructor
  · rintro ⟨hP, hS⟩
    exact ⟨hP, fun i => (key _).mpr ((symExtAt_zero_iff _).mp (hS i)).2⟩
  · rintro ⟨hP, hT⟩
    exact ⟨hP, fun i => (symExtAt_zero_iff _).mpr ⟨toP_posSemidef.mpr (hP.1 i), (key _).mp (hT i)⟩⟩

/-- **One level down**: every feasible point of level `ℓ + 2` (trace out the last copy of its extensions) is a feasible
point of level `ℓ + 1` with the same measurement, hence the same objective value. -/
theorem symExt_level_succ (ℓ : Nat) (M : Fin k → Matrix (Fin (dA * dB)) (Fin (dA * dB)) ℂ)
    (h : IsSymExtPOVM (ℓ + 1) M) : IsSymExtPOVM ℓ M :=
  ⟨h.1, fun i => (h.2 i).pred⟩

/-- The feasible sets shrink with the level. -/
theorem symExt_antitone {ℓ ℓ' : Nat} (hl : ℓ ≤ ℓ') (M : Fin k → Matrix (Fin (dA * dB)) (Fin (dA * dB)) ℂ)
    (h : IsSymExtPOVM ℓ' M) : IsSymExtPOVM ℓ M :=
  ⟨h.1, fun i => (h.2 i).of_le hl⟩

/-- Every measurement feasible at some level of the hierarchy is a PPT measurement. -/
theorem symExt_is_ppt (ℓ sys : Nat) (M : Fin k → Matrix (Fin (dA * dB)) (Fin (dA * dB)) ℂ)
    (h : IsSymExtPOVM ℓ M) : IsPPTPOVM sys M :=
  (symExt_level_one_iff_ppt sys M).mp (symExt_antitone (Nat.zero_le ℓ) M h)

/-- **Level-one value = PPT value** (equal sets of attained values, hence equal suprema). -/
theorem symExtValues_level_one (sys : Nat) (ρ : Fin k → Matrix (Fin (dA * dB)) (Fin (dA * dB)) ℂ)
    (p : Fin k → ℝ) : symExtValues 0 ρ p = pptValues sys ρ p := by
  ext v
  exact ⟨fun ⟨M, hM, hv⟩ => ⟨M, (symExt_level_one_iff_ppt sys M).mp hM, hv⟩,
    fun ⟨M, hM, hv⟩ => ⟨M, (symExt_level_one_iff_ppt sys M).mpr hM, hv⟩⟩

/-- The hierarchy value at level one is the PPT value. -/
theorem symExtValue_level_one (sys : Nat) (ρ : Fin k → Matrix (Fin (dA * dB)) (Fin (dA * dB)) ℂ)
    (p : Fin k → ℝ) : symExtValue 0 ρ p = pptValue sys ρ p := by
  unfold symExtValue pptValue
  rw [symExtValues_level_one sys]

/-- **Non-increasing in the level** (sets of attained values). -/
theorem symExtValues_antitone {ℓ ℓ' : Nat} (hl : ℓ ≤ ℓ') (ρ : Fin k → Matrix (Fin (dA * dB)) (Fin (dA * dB)) ℂ)
    (p : Fin k → ℝ) : symExtValues ℓ' ρ p ⊆ symExtValues ℓ ρ p :=
  fun _ ⟨M, hM, hv⟩ => ⟨M, symExt_antitone hl M hM, hv⟩

/-- **Separable measurements are feasible at every level**: a POVM whose elements are sums of products `A ⊗ B` of positive
semidefinite operators (all LOCC measurements are of this form) satisfies the constraints of every level. -/
theorem separable_povm_symExt {ι : Type*} [Fintype ι] (ℓ : Nat)
    (A : Fin k → ι → Matrix (Fin dA) (Fin dA) ℂ) (B : Fin k → ι → Matrix (Fin dB) (Fin dB) ℂ)
    (hA : ∀ i j, (A i j).PosSemidef) (hB : ∀ i j, (B i j).PosSemidef)
    (hsum : ∑ i, ∑ j, kronF (A i j) (B i j) = 1) :
    IsSymExtPOVM ℓ (fun i => ∑ j, kronF (A i j) (B i j)) := by
  refine ⟨(product_povm_is_ppt 0 A B hA hB hsum).1, fun i => ?_⟩
  rw [toP_sum]
  simp only [toP_kronF]
  exact symExtAt_sum _ _ fun j _ => symExtAt_kron ℓ (hA i j) (hB i j)

/-- Hence the value of every explicit separable measurement is attained at every level: hierarchy value ≥ separable value. -/
theorem separable_value_mem_symExtValues {ι : Type*} [Fintype ι] (ℓ : Nat)
    (ρ : Fin k → Matrix (Fin (dA * dB)) (Fin (dA * dB)) ℂ) (p : Fin k → ℝ)
    (A : Fin k → ι → Matrix (Fin dA) (Fin dA) ℂ) (B : Fin k → ι → Matrix (Fin dB) (Fin dB) ℂ)
    (hA : ∀ i j, (A i j).PosSemidef) (hB : ∀ i j, (B i j).PosSemidef)
    (hsum : ∑ i, ∑ j, kronF (A i j) (B i j) = 1) :
    successProb ρ p (fun i => ∑ j, kronF (A i j) (B i j)) ∈ symExtValues ℓ ρ p :=
  ⟨_, separable_povm_symExt ℓ A B hA hB hsum, rfl⟩

/-- One-way LOCC measurements are feasible at every level of the hierarchy. -/
theorem one_way_locc_symExt {α β : Type*} [Fintype α] [Fintype β] (ℓ : Nat)
    (A : α → Matrix (Fin dA) (Fin dA) ℂ) (B : α → β → Matrix (Fin dB) (Fin dB) ℂ)
    (hA : ∀ a, (A a).PosSemidef) (hAsum : ∑ a, A a = 1)
    (hB : ∀ a b, (B a b).PosSemidef) (hBsum : ∀ a, ∑ b, B a b = 1) (g : α × β → Fin k) :
    IsSymExtPOVM ℓ (fun i => ∑ ab : α × β, kronF (if g ab = i then A ab.1 else 0) (B ab.1 ab.2)) := by
  refine separable_povm_symExt ℓ (fun i ab => if g ab = i then A ab.1 else 0) (fun _ ab => B ab.1 ab.2)
    (fun i ab => ?_) (fun _ ab => hB ab.1 ab.2)
    (one_way_locc_is_ppt 0 A B hA hAsum hB hBsum g).1.2
  split
  · exact hA ab.1
  · exact Matrix.PosSemidef.zero

/-- The measurement "always answer `j`" is feasible at every level. -/
theorem const_povm_symExt (ℓ : Nat) (j : Fin k) : IsSymExtPOVM ℓ (meConstPovm (ι := Fin (dA * dB)) j) := by
  refine ⟨⟨meConstPovm_psd j, meConstPovm_sum j⟩, fun i => ?_⟩
  unfold meConstPovm
  split
  · rw [← kronF_one, toP_kronF]
    exact symExtAt_kron ℓ Matrix.PosSemidef.one Matrix.PosSemidef.one
  · have : toP (0 : Matrix (Fin (dA * dB)) (Fin (dA * dB)) ℂ) = 0 := rfl
    rw [this]; exact symExtAt_zero' ℓ

/-- **At least every prior, at every level.** -/
theorem symExt_ge_prior (ℓ : Nat) (ρ : Fin k → Matrix (Fin (dA * dB)) (Fin (dA * dB)) ℂ) (p : Fin k → ℝ)
    (j : Fin k) (hj : (ρ j).trace = 1) : p j ∈ symExtValues ℓ ρ p := by
  refine ⟨meConstPovm j, const_povm_symExt ℓ j, ?_⟩
  unfold successProb
  rw [meConstPovm_value, hj]
  simp

/-- Every PPT dual point bounds every level of the hierarchy (weak duality through level one). -/
theorem symExt_le_ppt_dual (ℓ sys : Nat) (ρ : Fin k → Matrix (Fin (dA * dB)) (Fin (dA * dB)) ℂ) (p : Fin k → ℝ)
    (M : Fin k → Matrix (Fin (dA * dB)) (Fin (dA * dB)) ℂ) (Y : Matrix (Fin (dA * dB)) (Fin (dA * dB)) ℂ)
    (Q : Fin k → Matrix (Fin (dA * dB)) (Fin (dA * dB)) ℂ)
    (hM : IsSymExtPOVM ℓ M) (hYQ : PPTDualFeasible sys ρ p Y Q) : successProb ρ p M ≤ Y.trace.re :=
  ppt_weak_duality sys ρ p M Y Q (symExt_is_ppt ℓ sys M hM) hYQ

/-- An accepted PPT dual certificate bounds the hierarchy at every level (this is what the harness uses for level 2). -/
theorem symExt_le_checked_ppt_dual (ℓ sys : Nat) (ens : Ensemble (dA * dB)) (Y : EMat (dA * dB) (dA * dB))
    (Q LQ LS : List (EMat (dA * dB) (dA * dB))) (hi : Rat) (h : checkPPTDual sys ens Y Q LQ LS = some hi)
    (M : Fin ens.size → Matrix (Fin (dA * dB)) (Fin (dA * dB)) ℂ) (hM : IsSymExtPOVM ℓ M) :
    successProb (ensStates ens) (ensProbs ens) M ≤ (hi : ℝ) :=
  checkPPTDual_sound sys ens Y Q LQ LS hi h M (symExt_is_ppt ℓ sys M hM)

/-- For density operators and a probability vector: every prior `≤` hierarchy value at level `ℓ' + 1` `≤` hierarchy value
at level `ℓ + 1` (`ℓ ≤ ℓ'`) `≤` PPT value `≤ 1`. -/
theorem symExtValue_chain {ℓ ℓ' : Nat} (hl : ℓ ≤ ℓ') (sys : Nat)
    (ρ : Fin k → Matrix (Fin (dA * dB)) (Fin (dA * dB)) ℂ) (p : Fin k → ℝ)
    (hρ : ∀ i, (ρ i).PosSemidef) (htr : ∀ i, (ρ i).trace = 1) (hp : ∀ i, 0 ≤ p i) (hsum : ∑ i, p i = 1)
    (j : Fin k) :
    p j ≤ symExtValue ℓ' ρ p ∧ symExtValue ℓ' ρ p ≤ symExtValue ℓ ρ p ∧
      symExtValue ℓ ρ p ≤ pptValue sys ρ p ∧ pptValue sys ρ p ≤ 1 := by
  have hb0 : BddAbove (pptValues sys ρ p) := ⟨1, ppt_le_one sys ρ p hρ htr hp hsum⟩
  have hsub : ∀ n, symExtValues n ρ p ⊆ pptValues sys ρ p := by
    intro n
    rw [← symExtValues_level_one sys]
    exact symExtValues_antitone (Nat.zero_le n) ρ p
  have hb : ∀ n, BddAbove (symExtValues n ρ p) := fun n => hb0.mono (hsub n)
  have hne : ∀ n, (symExtValues n ρ p).Nonempty := fun n => ⟨p j, symExt_ge_prior n ρ p j (htr j)⟩
  refine ⟨le_csSup (hb ℓ') (symExt_ge_prior ℓ' ρ p j (htr j)),
    csSup_le_csSup (hb ℓ) (hne ℓ') (symExtValues_antitone hl ρ p),
    csSup_le_csSup hb0 (hne ℓ) (hsub ℓ), csSup_le (⟨p j, ppt_ge_prior sys ρ p j (htr j)⟩) ?_⟩
  exact ppt_le_one sys ρ p hρ htr hp hsum

/-- The PPT value is at most the global minimum-error value (suprema of the attained values). -/
theorem pptValue_le_global (sys : Nat) (ρ : Fin k → Matrix (Fin (dA * dB)) (Fin (dA * dB)) ℂ) (p : Fin k → ℝ)
    (hρ : ∀ i, (ρ i).PosSemidef) (htr : ∀ i, (ρ i).trace = 1) (hp : ∀ i, 0 ≤ p i) (hsum : ∑ i, p i = 1)
    (hk : 0 < k) : pptValue sys ρ p ≤ sSup (minErrValues ρ p) := by
  refine csSup_le_csSup ⟨1, ?_⟩ ⟨p ⟨0, hk⟩, ppt_ge_prior sys ρ p _ (htr _)⟩ (pptValues_subset_global sys ρ p)
  rintro v ⟨M, hM, rfl⟩
  exact minErr_le_one ρ p M hρ htr hp hsum hM

/-- Hypotheses of the hierarchy theorems are satisfiable on a non-trivial instance: the computational-basis measurement of two
qubits (a product measurement) is feasible at level 3. -/
example : IsSymExtPOVM (dA := 2) (dB := 2) (k := 2) 2
    (fun i => ∑ j : Fin 2, kronF (Matrix.diagonal fun a => if a = i then 1 else 0)
      (Matrix.diagonal fun b => if b = j then 1 else 0)) := by
  refine separable_povm_symExt 2 _ _ (fun i j => ?_) (fun i j => ?_) ?_
  · exact Matrix.PosSemidef.diagonal fun a => by split <;> simp
  · exact Matrix.PosSemidef.diagonal fun a => by split <;> simp
  · simp only [← kronF_sum_right, ← kronF_sum_left]
    have h1 : ∑ j : Fin 2, Matrix.diagonal (fun b : Fin 2 => if b = j then (1 : ℂ) else 0) = 1 := by
      ext a b; fin_cases a <;> fin_cases b <;> simp [Matrix.sum_apply, Matrix.diagonal]
    rw [h1, kronF_one]

/-! ## The programs the code hands to the solver (`Toq.PPTDisc.primalPsdExprs`, `primalEqResidual`, `dualPsdExprs`)

The driver operation `c12_ppt_program` evaluates these expression lists at exact points; the harness compares them with the
constraint expressions of the picos programs `ppt_distinguishability` builds (captured at `Problem.solve`). -/

/-- The constraint expressions of the modelled primal program describe exactly the PPT measurements: every operator of
`primalPsdExprs` is positive semidefinite and `primalEqResidual` vanishes iff `M` is a PPT measurement. -/
theorem primal_program_feasible_iff (sys : Nat) (M : Fin k → EMat (dA * dB) (dA * dB)) :
    ((∀ E ∈ primalPsdExprs sys k M, E.toM.PosSemidef) ∧ (primalEqResidual k M).toM = 0) ↔
      IsPPTPOVM sys (fun i => (M i).toM) := by
  unfold primalPsdExprs primalEqResidual IsPPTPOVM IsPOVM
  rw [EMat.toM_sub, toM_sumMats, EMat.toM_one, sub_eq_zero]
  constructor
  · rintro ⟨h, hs⟩
    refine ⟨⟨fun i => h _ (List.mem_append_left _ (List.mem_map.mpr ⟨i, List.mem_finRange i, rfl⟩)), hs⟩, fun i => ?_⟩
    rw [← toM_pT]
    exact h _ (List.mem_append_right _ (List.mem_map.mpr ⟨i, List.mem_finRange i, rfl⟩))
  · rintro ⟨⟨h1, hs⟩, h2⟩
    refine ⟨fun E hE => ?_, hs⟩
    rcases List.mem_append.mp hE with hE | hE
    · obtain ⟨i, -, rfl⟩ := List.mem_map.mp hE
      exact h1 i
    · obtain ⟨i, -, rfl⟩ := List.mem_map.mp hE
      rw [toM_pT]; exact h2 i

/-- The constraint expressions of the modelled dual program describe exactly the dual-feasible points. -/
theorem dual_program_feasible_iff (sys : Nat) (ρ : Fin k → EMat (dA * dB) (dA * dB)) (p : Fin k → Rat)
    (Y : EMat (dA * dB) (dA * dB)) (Q : Fin k → EMat (dA * dB) (dA * dB)) :
    (∀ E ∈ dualPsdExprs sys k ρ p Y Q, E.toM.PosSemidef) ↔
      PPTDualFeasible sys (fun i => (ρ i).toM) (fun i => ((p i : Rat) : ℝ)) Y.toM (fun i => (Q i).toM) := by
  unfold dualPsdExprs PPTDualFeasible
  have hs : ∀ i, (dualSlack sys k ρ p Y Q i).toM
      = Y.toM - ((((p i : Rat) : ℝ)) : ℂ) • (ρ i).toM - pTf sys (Q i).toM := by
    intro i
    rw [dualSlack, EMat.toM_sub, EMat.toM_sub, EMat.toM_smul, toM_pT]
  constructor
  · intro h i
    refine ⟨h _ (List.mem_append_right _ (List.mem_map.mpr ⟨i, List.mem_finRange i, rfl⟩)), ?_⟩
    rw [← hs]
    exact h _ (List.mem_append_left _ (List.mem_map.mpr ⟨i, List.mem_finRange i, rfl⟩))
  · intro h E hE
    rcases List.mem_append.mp hE with hE | hE
    · obtain ⟨i, -, rfl⟩ := List.mem_map.mp hE
      rw [hs]; exact (h i).2
    · obtain ⟨i, -, rfl⟩ := List.mem_map.mp hE
      exact (h i).1

/-! ## `strategy = "unambig"`: unambiguous discrimination with PPT measurements (primal form) -/

/-- `M_0 … M_{k-1}, M_k` is a PPT measurement that never names a wrong state: `tr(p_j ρ_j M_i) = 0` for `i ≠ j` -/
def IsPPTUnambPOVM (sys : Nat) (ρ : Fin k → Matrix (Fin (dA * dB)) (Fin (dA * dB)) ℂ) (p : Fin k → ℝ)
    (M : Fin (k + 1) → Matrix (Fin (dA * dB)) (Fin (dA * dB)) ℂ) : Prop :=
  IsPPTPOVM sys M ∧ ∀ i j : Fin k, i ≠ j → (((p j : ℂ) • ρ j) * M i.castSucc).trace = 0

/-- the probability of a conclusive (and then correct) answer -/
noncomputable def unambSuccessProb (ρ : Fin k → Matrix (Fin (dA * dB)) (Fin (dA * dB)) ℂ) (p : Fin k → ℝ)
    (M : Fin (k + 1) → Matrix (Fin (dA * dB)) (Fin (dA * dB)) ℂ) : ℝ :=
  ∑ i : Fin k, p i * (ρ i * M i.castSucc).trace.re

/-- If the unambiguous PPT checker accepts with value `lo`, the candidate is a feasible point of the program
`ppt_distinguishability(strategy="unambig", primal_dual="primal")` builds and `lo` is exactly its objective value. -/
theorem checkPPTUnambPrimal_sound (sys : Nat) (ens : Ensemble (dA * dB)) (M LM LT : List (EMat (dA * dB) (dA * dB)))
    (lo : Rat) (h : checkPPTUnambPrimal sys ens M LM LT = some lo) :
    M.length = ens.size + 1 ∧
      IsPPTUnambPOVM sys (ensStates ens) (ensProbs ens) (mats (ens.size + 1) M) ∧
      unambSuccessProb (ensStates ens) (ensProbs ens) (mats (ens.size + 1) M) = (lo : ℝ) := by
  unfold checkPPTUnambPrimal at h
  split at h
  · next hl =>
    simp only [Bool.and_eq_true, beq_iff_eq] at hl
    obtain ⟨h1, -, -⟩ := (lens3Ok_iff _ _ _ _).mp hl.2
    obtain ⟨hp, hs, ht, hz, hv⟩ := checkPPTUnambPrimalFn_sound _ _ _ _ _ _ _ _ h
    exact ⟨h1, ⟨⟨⟨hp, hs⟩, ht⟩, hz⟩, hv⟩
  · exact absurd h (by simp)

/-- **The unambiguous PPT value is at most the minimum-error PPT value**: merging the inconclusive outcome into outcome `0`
turns every feasible point of the unambiguous program into a PPT measurement that succeeds at least as often. -/
theorem ppt_unamb_le_min_error (sys : Nat) (hk : 0 < k) (ρ : Fin k → Matrix (Fin (dA * dB)) (Fin (dA * dB)) ℂ)
    (p : Fin k → ℝ) (hρ : ∀ i, (ρ i).PosSemidef) (hp : ∀ i, 0 ≤ p i)
    (M : Fin (k + 1) → Matrix (Fin (dA * dB)) (Fin (dA * dB)) ℂ) (hM : IsPPTUnambPOVM sys ρ p M) :
    ∃ M' : Fin k → Matrix (Fin (dA * dB)) (Fin (dA * dB)) ℂ, IsPPTPOVM sys M' ∧
      unambSuccessProb ρ p M ≤ successProb ρ p M' := by
  obtain ⟨M', h1, h2, h3, h4⟩ := unamb_merge hk (pTf sys) (pT_add sys) ρ p (hρ _) (hp _) M hM.1.1.1 hM.1.1.2 hM.1.2
  exact ⟨M', ⟨⟨h1, h2⟩, h3⟩, h4⟩

/-- Hence every accepted PPT dual certificate also bounds the unambiguous value. -/
theorem ppt_unamb_le_checked_dual (sys : Nat) (ens : Ensemble (dA * dB)) (Y : EMat (dA * dB) (dA * dB))
    (Q LQ LS : List (EMat (dA * dB) (dA * dB))) (hi : Rat) (h : checkPPTDual sys ens Y Q LQ LS = some hi)
    (hk : 0 < ens.size) (hρ : ∀ i, (ensStates ens i).PosSemidef) (hp : ∀ i, 0 ≤ ensProbs ens i)
    (M : Fin (ens.size + 1) → Matrix (Fin (dA * dB)) (Fin (dA * dB)) ℂ)
    (hM : IsPPTUnambPOVM sys (ensStates ens) (ensProbs ens) M) :
    unambSuccessProb (ensStates ens) (ensProbs ens) M ≤ (hi : ℝ) := by
  obtain ⟨M', hM', hle⟩ := ppt_unamb_le_min_error sys hk _ _ hρ hp M hM
  exact hle.trans (checkPPTDual_sound sys ens Y Q LQ LS hi h M' hM')

/-- The unambiguous checker accepts a non-trivial exact point: for `|00⟩` (prior `3/4`) and `|+1⟩` (prior `1/4`) on two qubits the
product operators `M_0 = |0⟩⟨0| ⊗ |0⟩⟨0|`, `M_1 = 1 ⊗ |1⟩⟨1|`, `M_2 = |1⟩⟨1| ⊗ |0⟩⟨0|` identify the states without error with
probability `3/4 + 1/4 = 1`. -/
example : checkPPTUnambPrimal 1
    (⟨[EMat.ofFn fun i j => if i.val = 0 ∧ j.val = 0 then 1 else 0,
       EMat.ofFn fun i j => if i.val % 2 = 1 ∧ j.val % 2 = 1 then QI.ofRat (1/2) else 0], [3/4, 1/4]⟩ : Ensemble (2 * 2))
    [EMat.ofFn fun i j => if i.val = 0 ∧ j.val = 0 then 1 else 0,
     EMat.ofFn fun i j => if i = j ∧ i.val % 2 = 1 then 1 else 0,
     EMat.ofFn fun i j => if i.val = 2 ∧ j.val = 2 then 1 else 0]
    [EMat.ofFn fun i j => if i.val = 0 ∧ j.val = 0 then 1 else 0,
     EMat.ofFn fun i j => if i = j ∧ i.val % 2 = 1 then 1 else 0,
     EMat.ofFn fun i j => if i.val = 2 ∧ j.val = 2 then 1 else 0]
    [EMat.ofFn fun i j => if i.val = 0 ∧ j.val = 0 then 1 else 0,
     EMat.ofFn fun i j => if i = j ∧ i.val % 2 = 1 then 1 else 0,
     EMat.ofFn fun i j => if i.val = 2 ∧ j.val = 2 then 1 else 0] = some 1 := by decide +kernel

/-! ## Argument handling -/

/-- `ppt_distinguishability` builds the primal program iff `primal_dual == "primal"`; the primal program has one more operator
iff `strategy != "min_error"` and the zero-overlap constraints iff `strategy == "unambig"`; every other value of `primal_dual`
selects the dual program, which rejects every strategy but `"min_error"`. -/
theorem pptDispatch_cases :
    pptDispatch "primal" "min_error" = .ok (.primal false false) ∧
      pptDispatch "primal" "unambig" = .ok (.primal true true) ∧
      pptDispatch "dual" "min_error" = .ok .dual ∧
      pptDispatch "dual" "unambig" = .error "ValueError" := by
  decide

/-- A list `dim = [dA, dB]` is taken as it is. -/
theorem symExtDims_pair (D a b : Nat) : symExtDims D (.pair a b) = .ok (a, b) := rfl

/-- A scalar `dim = d` that divides `dim_xy` denotes the cut `[d, dim_xy / d]` (also for unequal dimensions), whose product is
`dim_xy`. -/
theorem symExtDims_scalar (D d : Nat) (hd : 0 < d) (hdiv : d ∣ D) :
    symExtDims D (.scalar d) = .ok (d, D / d) ∧ d * (D / d) = D := by
  refine ⟨?_, Nat.mul_div_cancel' hdiv⟩
  simp [symExtDims, scalarDims, Nat.ne_of_gt hd, Nat.mod_eq_zero_of_dvd hdiv]

/-- A scalar `dim` that does not divide `dim_xy` is rejected (`ValueError`). -/
theorem symExtDims_scalar_rejects (D d : Nat) (hd : 0 < d) (hdiv : ¬ d ∣ D) :
    symExtDims D (.scalar d) = .error "ValueError" := by
  have : D % d ≠ 0 := fun h => hdiv (Nat.dvd_of_mod_eq_zero h)
  simp [symExtDims, scalarDims, Nat.ne_of_gt hd, this]

/-- An omitted `dim` on a square system `dim_xy = r²` denotes the cut `[r, r]`. -/
theorem symExtDims_omitted_square (r : Nat) (hr : 0 < r) : symExtDims (r * r) .omitted = .ok (r, r) := by
  have h1 : roundSqrtN (r * r) = r := by
    simp [roundSqrtN, Nat.sqrt_eq]
  simp [symExtDims, h1, scalarDims, Nat.ne_of_gt hr, Nat.mul_div_cancel _ hr]

/-- The extension variables have size `dX · dY^level`, the traced-out copies are `2 … level`, and the transposed subsystems are
`0` and `2 … level`. -/
theorem symExt_shape (dx dy level : Nat) :
    symExtSize dx dy level = dx * dy ^ level ∧ (symExtDimList dx dy level).length = level + 1 ∧
      (∀ t, t ∈ symExtSysList level ↔ 2 ≤ t ∧ t ≤ level) ∧
      (∀ t, t ∈ symExtPTList level ↔ t = 0 ∨ (2 ≤ t ∧ t ≤ level)) := by
  refine ⟨?_, by simp [symExtDimList], fun t => ?_, fun t => ?_⟩
  · unfold symExtSize symExtDimList
    have : ∀ (l : Nat) (a : Nat), (List.replicate l dy).foldl (· * ·) a = a * dy ^ l := by
      intro l
      induction l with
      | zero => intro a; simp
      | succ l ih =>
        intro a
        rw [List.replicate_succ, List.foldl_cons, ih, pow_succ]
        ring
    rw [List.foldl_cons, this, Nat.one_mul]
  · simp only [symExtSysList, List.mem_range'_1]
    omega
  · simp only [symExtPTList, List.mem_cons, List.mem_map, List.mem_range]
    constructor
    · rintro (h | ⟨s, hs, rfl⟩)
      · exact Or.inl h
      · exact Or.inr ⟨by omega, by omega⟩
    · rintro (h | ⟨h1, h2⟩)
      · exact Or.inl h
      · exact Or.inr ⟨t - 2, by omega, by omega⟩

/-! ## The mirror model of the hierarchy's constraint expressions (`Toq.PPTDisc.symExtExprs`)

`symExtExprs` composes the mirror models of `partial_trace` (C02), `partial_transpose` (C03) and `symmetric_projection` (C18) exactly as
`symmetric_extension_hierarchy` composes the library calls; the harness compares its values with the values of the captured cvxpy
expressions at generic integer points on every run.  Not proved: that these flattened-index expressions are the index-tuple
constraints of `SymExtAt` (each library call is proved equal to its own specification by the property that owns it). -/

/-- One partial-transpose constraint per transposed subsystem: `level` of them (`X`, and the copies `2 … level`). -/
theorem symExtExprs_pts_length (dx dy level : Nat) (hl : 1 ≤ level) (meas x : Nat → Nat → Int) :
    (symExtExprs dx dy level meas x).pts.length = level := by
  simp only [symExtExprs, symExtPTList, List.length_map, List.length_cons, List.length_range]
  omega

/-- `1 ⊗ (1 + SWAP)` on `2 ⊗ 2 ⊗ 2` (twice the projector onto `X ⊗ Sym²(Y)`) -/
private def xSym : Nat → Nat → Int := kronIdLeft 4 (Toq.Combinat.symProjN 2 2)
private def m3 : Nat → Nat → Int := fun i j => if i = j then 3 else 0

/-- At level 2 on two qubits the point `x = 1 ⊗ (1 + SWAP)`, `meas = 3·1` satisfies both equality constraints of the mirror model
exactly: the partial trace over the second copy is `3·1`, and `x` is fixed by the symmetric projector on both sides. -/
example : ((List.range 4).all fun i => (List.range 4).all fun j => (symExtExprs 2 2 2 m3 xSym).traceRes i j == 0) = true ∧
    ((List.range 8).all fun i => (List.range 8).all fun j => (symExtExprs 2 2 2 m3 xSym).symRes i j == 0) = true := by
  constructor <;> decide +kernel

end Toq.C12
