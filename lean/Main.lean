import Toq.Driver.C01
import Toq.Driver.C02
import Toq.Driver.C04
import Toq.Driver.C05
import Toq.Driver.C06
import Toq.Driver.C07
import Toq.Driver.C08
import Toq.Driver.C09
import Toq.Driver.C10
import Toq.Driver.C11
import Toq.Driver.C12
import Toq.Driver.C13
import Toq.Driver.C14
import Toq.Driver.C15
import Toq.Driver.C16
import Toq.Driver.C17
import Toq.Driver.C18
import Toq.Driver.C19
import Toq.Driver.C20
/-! Line-protocol driver: `<op> <json>` per input line, one JSON (or `bad-op` / `error:…`) per output line. -/
open Lean Toq.Driver

def allHandlers : List (String × Handler) :=
  C01.handlers ++ C02.handlers ++ C04.handlers ++ C05.handlers ++ C06.handlers ++ C07.handlers ++ C08.handlers ++ C09.handlers ++ C10.handlers ++ C11.handlers ++ C12.handlers ++ C13.handlers ++ C14.handlers ++ C15.handlers ++ C16.handlers ++ C17.handlers ++ C18.handlers ++ C19.handlers ++ C20.handlers

def respond (line : String) : String :=
  let line := line.trimAscii.toString
  match line.splitOn " " with
  | [] => "bad-op"
  | op :: rest =>
    match allHandlers.lookup op with
    | none => "bad-op"
    | some h =>
      match Json.parse (" ".intercalate rest) with
      | .error e => s!"error:json:{e}"
      | .ok j =>
        match h j with
        | .ok r => r.compress
        | .error e => s!"error:{e}"

partial def loop (hin : IO.FS.Stream) (hout : IO.FS.Stream) : IO Unit := do
  let line ← hin.getLine
  if line.isEmpty then return ()
  hout.putStrLn (respond line)
  hout.flush
  loop hin hout

def main : IO Unit := do
  let hin ← IO.getStdin
  let hout ← IO.getStdout
  loop hin hout
  hout.flush
