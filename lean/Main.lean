import Toq.Driver.C01
import Toq.Driver.C02
/-! Line-protocol driver: `<op> <json>` per input line, one JSON (or `bad-op` / `error:…`) per output line. -/
open Lean Toq.Driver

def allHandlers : List (String × Handler) :=
  C01.handlers ++ C02.handlers

def respond (line : String) : String :=
  let line := line.trimAscii.toString
  match line.splitOn " " with
  | [] => "bad-op"
  | op :: rest =>
    match allHandlers.lookup op with
    | none => "bad-op"
    | some h =>
      match Json.parse (" ".intercalate rest) with
      | .error e => s!"error:json:{e}"
      | .ok j =>
        match h j with
        | .ok r => r.compress
        | .error e => s!"error:{e}"

partial def loop (hin : IO.FS.Stream) (hout : IO.FS.Stream) : IO Unit := do
  let line ← hin.getLine
  if line.isEmpty then return ()
  hout.putStrLn (respond line)
  hout.flush
  loop hin hout

def main : IO Unit := do
  let hin ← IO.getStdin
  let hout ← IO.getStdout
  loop hin hout
  hout.flush
