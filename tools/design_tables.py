#!/usr/bin/env python3
"""Regenerate the machine-written tables of DESIGN.md (between the BEGIN/END markers): defects found (from
KNOWN_FINDINGS.jsonl) and the kill matrix of seeded changes (from seeded/*/meta.json)."""
import glob, json, os, re
HERE = os.path.dirname(os.path.dirname(os.path.abspath(__file__)))

def findings():
    rows = ["| property | kind | commit / matcher | what failed |", "|---|---|---|---|"]
    for l in open(os.path.join(HERE, "KNOWN_FINDINGS.jsonl")):
        l = l.strip()
        if not l or l.startswith("#"):
            continue
        r = json.loads(l)
        if r["kind"] == "fixed":
            txt = re.sub(r"^fixed: property=\S+ \S+ ", "", r["text"])
            rows.append(f"| {r['property']} | fixed | `{r['commit']}` | {txt} |")
        else:
            rows.append(f"| {r['property']} | **finding** | matcher `{r['matcher']}` | {r['what_fails']} |")
    return "\n".join(rows)

def kills():
    rows = ["| seeded change | property | what it does / what it needs | detected by `./check` quick | first violation line |", "|---|---|---|---|---|"]
    for d in sorted(glob.glob(os.path.join(HERE, "seeded", "*"))):
        mp = os.path.join(d, "meta.json")
        if not os.path.exists(mp):
            continue
        m = json.load(open(mp))
        c = m.get("confirmed", {})
        summ = (m.get("summary", "") or "")[:260].replace("|", "/").replace("\n", " ")
        needs = (m.get("needs", "") or "")[:200].replace("|", "/").replace("\n", " ")
        det = "yes" if m.get("detected_by_check") else "**no**"
        if m.get("detected_note"):
            det += " (" + m["detected_note"] + ")"
        rows.append(f"| `{os.path.basename(d)}` | {m.get('property')} | {summ} — needs: {needs} | {det} | {c.get('first_violation','').strip()[:150].replace('|','/')} |")
    return "\n".join(rows)

def status():
    man = json.load(open(os.path.join(HERE, "MANIFEST.json")))
    rows = ["| id | theorems (audited) | correspondence cases (quick) | non-trivial distinct | technique |", "|---|---|---|---|---|"]
    for c in man["checks"]:
        pid = c["property_id"]
        try:
            ev = json.load(open(os.path.join(HERE, c["evidence_file"])))
            cov = ev["coverage"]
            th = f"{cov.get('discharged')}/{cov.get('obligations')}"
            n, d = cov.get("evaluations"), cov.get("distinct_nontrivial")
        except Exception:
            th, n, d = "?", "?", "?"
        rows.append(f"| {pid} | {th} | {n} | {d} | {c.get('technique','')[:230]} |")
    return "\n".join(rows)


def main():
    p = os.path.join(HERE, "DESIGN.md")
    s = open(p).read()
    for name, body in (("FINDINGS", findings()), ("KILLS", kills()), ("STATUS", status())):
        b, e = f"<!-- BEGIN {name} -->", f"<!-- END {name} -->"
        if b in s:
            s = s[: s.index(b) + len(b)] + "\n" + body + "\n" + s[s.index(e):]
    open(p, "w").write(s)

if __name__ == "__main__":
    main()
