#!/usr/bin/env python3
"""Regenerate MANIFEST.json from the table below (keeps it valid at all times)."""
import json, os
HERE = os.path.dirname(os.path.dirname(os.path.abspath(__file__)))
ALL = [f"C{i:02d}" for i in range(1, 21)]

# id -> (technique, level text, level note)
CLAIMED = {
 "C01": ("Lean 4 refinement theorem (mirror model = tensor-factor relabelling spec) + exact correspondence on labelled inputs",
         "Kernel-checked theorems (37) about the mirror model of permute_systems/swap/permutation_operator/swap_operator for every n, dimension vector and permutation: mirror = relabelling spec (vectors, rectangular matrices, row-only, inverse flag), product vectors and product operators are relabelled factor-wise, "
         "composition law, inverse undoes forward (vectors and matrices), row-only = multiplication by the permutation operator, which is a 0/1 matrix with one 1 per row and column and P P^T = P^T P = 1, swap = transposition and an involution, swap operator = permutation operator of the transposition, exact integer root for the omitted-dim form; "
         "the model is tied to /repo on every run by exact (tolerance 0) comparison of the real functions with the compiled Lean model on arange-labelled inputs, "
         "where one case settles a whole configuration for every entry value.",
         "Trusted: Lean kernel; axioms propext/Classical.choice/Quot.sound; the hand-written model; the Python harness; NumPy dtype-parametricity of data movement. "
         "The tie model<->code is sampled over configurations (exhaustive for small ones in the thorough tier)."),
 "C02": ("Lean 4 refinement theorem (mirror model of partial_trace = index contraction spec) + laws (linearity, trace, product, composition, order) + exact correspondence on integer inputs",
         "Kernel-checked: ptrace_eq_spec for every n, dimension vector (entries 1 allowed), duplicate-free S in any listing order; linearity, trace preservation, Tr_S of product operators, "
         "composition and listing-order independence. Tie to /repo: exact equality of partial_trace with the compiled model on random (Gaussian/big) integer matrices, all argument forms, numeric and cvxpy-Variable inputs.",
         "Trusted: Lean kernel + standard axioms; hand-written model/spec; Python harness; Schwartz-Zippel argument for linear maps on random integer points (thorough tier adds full E_ij bases)."),
 "C03": ("Lean 4 refinement theorems (mirror models of partial_transpose / realignment = index-exchange specs) + involution/complement/product laws + exact correspondence on labelled inputs",
         "Kernel-checked: pT_eq_spec for every n, rectangular row/column dims and subset S; involution, full transpose, complement, product operators; realignment formula, R(A (x) B) = vec(A) vec(B)^T and entry bijection "
         "(hence Frobenius norm). Tie to /repo: exact equality on arange-labelled inputs for all argument forms, numeric and cvxpy-Variable inputs.",
         "Trusted: Lean kernel + standard axioms; hand-written model/spec; Python harness; NumPy dtype-parametricity of data movement."),
 "C10": ("Lean 4 weak-duality theorems + verified certificate checker (exact rational PSD certificates) bounding the optimum per instance; toqito's value must lie in the certified interval",
         "Kernel-checked for all instances: min-error and unambiguous (Gram form) weak duality; soundness of the executable checkers (an accepted primal certificate is a feasible point with that value, an accepted dual certificate bounds "
         "every POVM). Per run: for each generated ensemble the Lean checker certifies [lo, hi] (width < 1e-4) for the exact image of the inputs and state_distinguishability (4 strategy/form combinations) must return a value inside it within the "
         "declared solver tolerance; returned measurements are checked to be POVMs attaining the value; Helstrom / orthogonal / prior bounds and invariances are checked on the certified interval.",
         "Trusted: Lean kernel + standard axioms; Mathlib's PosSemidef; the checker's executable = its verified definition; Python harness. Certificates themselves are untrusted. Strong duality is established per instance (narrow interval), "
         "not as a theorem. Solver breakdowns (ArithmeticError from CVXOPT) are counted, not judged."),
 "C18": ("Lean 4 theorems on mirror models of perm_sign / unique_perms / perfect_matchings / (anti)symmetric projections for all d, p + exact correspondence",
         "Kernel-checked: perm_sign = (-1)^inversions and multiplicative; enumerators complete, duplicate-free with the right counts; projector models = group-average spec for all d, p; Hermitian, idempotent, permutation (sign) action, "
         "orthogonality, p=2 resolution of identity for all d; ranks for the property's finite table by kernel evaluation. Tie to /repo: exact equality for all permutations <= 6, multisets <= 6, matchings n <= 10, all (d,p) of the table; isometry forms by exact relation residuals.",
         "Trusted: Lean kernel + standard axioms; hand-written model/spec; Python harness. partial=True (LAPACK orth) is checked through its defining relations, not modelled."),
 "C17": ("Lean 4 theorems on exact closed-form models of the state/matrix constructors (all d, all n) + exact/1e-12 correspondence with the constructors",
         "Kernel-checked (75 theorems): Weyl relation, Fourier intertwining and unitarity, generalised-Pauli / Pauli-string / (generalised) Gell-Mann trace-orthogonality, Hadamard orthogonality for every n, Bell / generalised Bell orthonormality and maximally "
         "mixed marginals, GHZ / W / Dicke support, symmetry and norm, Werner U(x)U and isotropic U(x)conj(U) invariance, PPT and PSD thresholds of Werner and isotropic states as iff-theorems over ordered fields, list form = scalar form of the bipartite Werner state. "
         "Tie to /repo: every exported constructor compared with the model (exact for integer-valued numerators, zero pattern + 1e-12 otherwise) over dims 2..5, qubit counts 1..5, parameter grids incl. end points; identities re-checked on toqito's arrays with exact rational unitaries.",
         "Trusted: Lean kernel + standard axioms; hand-written models; Python harness. Not proved in Lean (harness only): Horodecki PPT for all a (exact LDL certificates at Pythagorean parameters), MUB unbiasedness (primes 2,3,5), constructors without a model (bb84, trine, gisin, breuer, chessboard, brauer, PBR) checked against identities."),
 "C04": ("Lean 4 refinement theorems (mirror models of apply_channel / kraus_to_choi / partial_channel / natural_representation / channel_dim = Kraus-sum and Choi specs) + exact correspondence on Gaussian-integer inputs",
         "Kernel-checked over any commutative star-semiring, any rank and any unequal/rectangular dimensions: every accepted list form denotes the stated Kraus family and evaluates to sum_k A_k X B_k^H; Kraus-to-Choi = sum_ij E_ij (x) Phi(E_ij); "
         "the Choi branch applied to J(Phi) returns Phi(X); any family with sum vec(A_k)vec(B_k)^H = J acts as J (the contract of choi_to_kraus); partial_channel = id (x) Phi (x) id in Kraus and Choi form; natural representation. "
         "Tie to /repo: exact equality with the compiled model and with an independent integer oracle on complex non-symmetric Gaussian integers for every (d_in, d_out, rank) grid point and form; choi_to_kraus through its exact defining residual (<= 1e-8 scale).",
         "Trusted: Lean kernel + standard axioms; hand-written model/spec; Python harness. Not generated (outside the quantifier, see DESIGN.md 11): vector-shaped Choi matrices, Hermitian J on a non-square operator space, flat CP lists with rectangular 2xn dim."),
 "C05": ("Lean 4 theorems on mirror models of dual_channel / complementary_channel (adjoint identity, double dual, unital iff dual TP, complementary entries, trace, spectrum on pure inputs) + exact correspondence",
         "Kernel-checked for all dims and list/Choi forms: <Y,Phi(X)> = <Phi*(Y),X>; the Choi-form dual of J(Phi) is J(Phi*); dual of dual; unital iff dual trace-preserving; complementary-channel entries tr(K_i rho K_j^H), trace preservation, and equality of "
         "characteristic polynomials up to a power of X for Phi(psi psi^H) and its complement. Tie to /repo: exact equality on complex non-symmetric Gaussian integers incl. unequal dims; adjoint identity evaluated exactly on the implementation's outputs; complementary channel on exact rational isometries.",
         "Trusted: Lean kernel + standard axioms; hand-written model/spec; Python harness."),
 "C16": ("Lean 4 theorems on mirror models of vec/unvec/tensor/Gram/majorisation/commutant + verified exact deciders and certificate checkers for the predicates + exact correspondence on inputs built to satisfy/violate each predicate by a margin",
         "Kernel-checked: vec/unvec inverses, vec(AXB) = (B^T (x) A) vec X, tensor associativity and power recursion = iterate, Gram relations, majorisation by partial sums, meaning of every exact decider (yes iff the defining equation holds), soundness of PSD / not-PSD / "
         "linear (in)dependence / rank certificates, invariance lemmas used by the generators. Tie to /repo: every listed predicate and helper on matrices of size 1..6 built exactly (Gaussian integers, exact rational unitaries) and perturbed by a margin >= 1e-3; verdicts must agree with the Lean decider; "
         "helper identities by exact equality or exact residuals.",
         "Trusted: Lean kernel + standard axioms; hand-written deciders as the reading of each documented definition (doc/code disagreements listed in DESIGN.md); Python harness. The exact rank routine is proved correct (= Matrix.rank), hence linear independence, spark (spark_spec), the UPB rank tests and the commutant dimension are backed by theorems; still executable-only: exact determinants of total-positivity minors, the signature inverse, the exact LDL definiteness deciders (the PSD verdicts are additionally certified per run)."),
 "C19": ("Lean 4 state machine for the seeding discipline (induction over call histories) + post-processing theorems over complex matrices + PGM/PBM/measure algebra; histories and exact relation residuals as correspondence",
         "Kernel-checked: a seeded call's output is a function of (generator, arguments, seed) only, in every history and world; seeded and unseeded toqito calls never disturb the global NumPy stream; each generator's post-processing yields the advertised kind "
         "(unit-trace PSD of rank <= k, unitary/orthogonal after the QR phase fix, PSD, POVM, Schmidt rank <= k via the mirrored swap/max-entangled construction, circulant PSD Gram); PGM/PBM are POVMs; Born rule, normalised post-states, probabilities sum to one. "
         "Tie to /repo: random histories of seeded/unseeded/global operations compared with the model's predicted equality pattern and global-stream invariance; every generator x option x dims 1..6 checked through exact relation residuals; PGM within [P_opt^2, P_opt].",
         "Trusted: Lean kernel + standard axioms; the discipline model; Python harness. Runtime behaviour the model cannot exhibit: PCG64 bit streams, LAPACK QR/SVD/eigh (checked through defining relations), 'different seeds differ' (checked, probabilistic), Barnum-Knill bound (cited)."),
 "C20": ("Lean 4 weak-duality theorems (cb trace norm, channel fidelity) + verified certificate checkers bracketing the optimum per instance; toqito's value must lie in the certified interval",
         "Kernel-checked for all dimensions: partial-trace adjointness, weak duality of Watrous' cb-norm SDP and of the channel-fidelity SDP, finiteness, absolute homogeneity, symmetry, zero on equal channels, cb norm = 1 for channels, = lambda_max(Tr_Y J) for CP maps, <= 2 for channel differences, "
         "Choi lower bound, unitary invariance, channel fidelity symmetric / 1 on equal channels / <= any Choi-state fidelity dual bound; soundness of the four executable checkers (lo <= value <= hi). Per run: qubit/qutrit channel pairs from exact data, certificates from an independent solve repaired exactly, "
         "toqito's cb trace norm, diamond distance, cb spectral norm, channel fidelity inside [lo - tau, hi + tau]; closed forms and invariances on outputs.",
         "Trusted: Lean kernel + standard axioms; Mathlib PosSemidef; Python harness; tau = 2e-5 (CVXOPT) / 1e-3 (channel_fidelity: SCS stops inaccurate). Cited: two-unitary closed form, equality of Choi-state fidelity with its SDP. Known finding: CP shortcut of completely_bounded_trace_norm."),
 "C06": ("Lean 4 characterisation theorems (TP/unital/HP/CP via the Choi matrix, Choi's theorem on CP, positivity) + verified exact deciders + closed-form constructor theorems; exact verdict tables and constructor grids as correspondence",
         "Kernel-checked (97 theorems): the Choi matrix determines the map; TP iff Tr_out J = 1; unital iff Tr_in J = 1; HP iff J Hermitian; CP (all amplifications positive) iff J PSD iff a Kraus family exists; CP implies positive; unitary channels; "
         "exact deciders correct end to end (yes/no with margin); every built-in constructor (depolarizing, dephasing, amplitude/phase damping, bit flip, Pauli channel for every qubit count, reduction, Choi map) acts by its textbook formula and has its textbook properties for all dimensions and parameters in range. "
         "Tie to /repo: ground-truth maps (Stinespring isometries from exact rational unitaries, mixtures, transposition-type maps, margin perturbations) asked of every predicate in every documented form; constructors on parameter grids incl. end points and just-outside values.",
         "Trusted: Lean kernel + standard axioms; hand-written deciders/closed forms; Python harness. Cited, not proved: Choi's extremality theorem (only the decision procedure is modelled). The exact rank / pivot-column routine is proved correct (rankQ = Matrix.rank; pivot columns are a basis of the column space). Known finding: is_extremal on linearly dependent Kraus lists."),
 "C12": ("Lean 4 theorems on the partial transpose and PPT weak duality + verified certificate checkers; toqito's PPT / symmetric-extension values must lie in or be ordered against the certified intervals; call purity by history comparison",
         "Kernel-checked: partial transpose entry formula, linear, involutive, trace-preserving, self-adjoint for the trace form; T_A = (T_B)^T so the PPT set does not depend on the party; PPT weak duality; PPT value <= global optimum; product measurements are PPT; local-unitary invariance; "
         "separable measurements satisfy the level-1 and level-2 symmetric-extension constraints; checker soundness; the Bell ensemble has PPT value exactly 1/2 (both certificates by kernel evaluation). Per run: 2..4 states on 2x2 and 2x3, both forms, either party inside certified intervals; hierarchy level 1 = PPT, "
         "level 2 <= level 1, >= product-measurement value; caller's list unchanged.",
         "Trusted: Lean kernel + standard axioms; Python harness; tau 2e-5 (CVXOPT) / 1e-3 (SCS hierarchy). Cited: PPT = separable on 2x2 and 2x3 (used for one ordering check). CVXOPT breaks down (ArithmeticError) on about half of the primal PPT programs: counted, not judged."),
 "C09": ("Lean 4 theorems (unentangled value = max over answer functions of lambda_max; hedging/cloning weak duality incl. two repetitions; deterministic strategies embed in the non-signalling program) + verified lambda_max and hedging certificate checkers",
         "Kernel-checked: a bound holds for every deterministic strategy and referee state iff it dominates the averaged operator of every pair of answer functions; lambda_max enclosure by certificates; partial-trace adjointness; weak duality of the hedging max/min programs and of cloning for any arrangement of tensor factors "
         "(covers toqito's n = 2 ordering, whose reindexings are proved to be permutations); min <= max; checker soundness. Per run: random asymmetric extended games (referee dim 2-3, alphabets 1..3, real/complex) with the unentangled value inside the certified interval of the best function pair; ordering "
         "unentangled <= NPA(1,2) <= non-signalling and see-saw <= NPA on returned floats; all four hedging programs and both cloning programs inside certified intervals for n = 1, 2; closed forms 3/4, 9/16, cos^2(pi/8), 0.",
         "Trusted: Lean kernel + standard axioms; Python harness; tau 1e-3 (SCS). Not modelled: the NPA relaxation itself (ordering checked numerically); non-signalling value not certified by duality; convexity reduction of randomised strategies cited."),
 "C13": ("Lean 4 theorems on variational definitions (trace norm, fidelity SDP pair, Matsumoto restriction) incl. metric laws + verified certificate checkers and exact evaluators; toqito's values must lie in certified enclosures",
         "Kernel-checked: trace-norm weak duality and both checker soundness theorems; trace distance symmetric, unitarily invariant, triangle inequality, zero iff equal (so a metric), <= 1, = 1 on orthogonal supports; Helstrom-Holevo in [1/2, 1]; fidelity weak duality, symmetry, unitary invariance, F(rho,rho) = tr rho, "
         "0 <= F <= 1, = 0 on orthogonal supports; Matsumoto <= F; exact Hilbert-Schmidt / inner product / sub-fidelity radicand evaluators bridged to Mathlib traces. Per run: rational density pairs/triples (dim 2-6, every rank, real/complex, pure/commuting/orthogonal/nearly equal) with certified intervals of width ~1e-9; "
         "every metric function within 1e-8 of its enclosure; inequalities and invariances on outputs; rejection of non-density inputs; fidelity of separability of pure product states = 1.",
         "Trusted: Lean kernel + standard axioms; Python harness (mpmath for certificate candidates, untrusted). Cited: SDP optimum = tr sqrt(sqrt rho sigma sqrt rho); Fuchs-van de Graaf; E <= F^2; Bures closed forms as monotone functions of F. Known finding: hilbert_schmidt returns the squared spectral norm."),
 "C07": ("Lean 4 refinement theorem (mirror of classical_value = max over all pairs of answer functions), product-game / BCS tensor theorems, purity state machine, model of the NPA constraint generator with soundness for deterministic AND commuting-operator quantum strategies, level monotonicity, NPA within non-signalling <= 1 + exact correspondence and feasibility embedding into the captured cvxpy problems",
         "Kernel-checked: classical_value's (repaired) enumeration equals the maximum over all deterministic strategy pairs for all alphabet sizes; the pre-fix enumeration is incomplete exactly when the enumerated player has more answers (concrete counterexample); update_odometer, the reps product game and the BCS predicate; value methods are pure, hence order independence. "
         "NPA: mirror of _reduce/_parse/_gen_words and of the constraint list emitted by npa_constraints; _reduce preserves the value of every word; every deterministic strategy (R = z z^T, K) and every commuting projective quantum strategy in any finite dimension satisfies every emitted constraint at every well-formed level with objective = its winning probability (so classical and quantum values are <= every NPA bound); "
         "a feasible point of a higher level restricts to the lower level (words of 1 within '1+ab' within 2), so the bound is non-increasing; the assemblage constraints are exactly the non-signalling polytope and its objective is <= 1. Tie to /repo: classical_value vs brute-force spec (exact), tensors entry by entry, histories; words and reductions symbol for symbol; the cvxpy problems "
         "built by commuting_measurement_value_upper_bound(k) and nonsignaling_value are captured in-process and every constraint is evaluated at the embedded strategies (residual <= 1e-12, objective = exact winning probability); ordering chain on returned floats.",
         "Trusted: Lean kernel + standard axioms; Python harness; tau 1e-3 (SCS) for the ordering on returned floats. A model constraint missing in the code is not detectable by embedding (only noted via counts); see-saw POVMs are not projective (Naimark dilation not formalised); the extended-game NPA caller is not modelled (C09 checks it numerically)."),
 "C08": ("Lean 4 theorems (Tsirelson weak duality for Gram matrices, vector families and genuine quantum strategies; level-1 moment program = Tsirelson program; classical value = sign maximum; conversion; non-signalling value 1; Bell bounds) + verified certificate checkers",
         "Kernel-checked for all finite question sets: weak duality of the Tsirelson program incl. actual quantum strategies via their moment matrices; sign assignments are feasible (classical <= quantum); the converted general game has the same deterministic winning probabilities; value formula and reps power; "
         "an XOR game's non-signalling value is exactly the total probability (PR-box-like behaviour); Bell inequality: dual bound valid for all quantum strategies with marginal terms, explicit-strategy lower bound, deterministic maximum attained, affine change of outcome labels; checker soundness. "
         "Per run: random rectangular games incl. degenerate rows, tol given/defaulted, reps 1-3: quantum_value inside the certified interval, classical_value exactly the sign maximum, converted game equal, NPA level 1 inside the same interval, non-signalling values 1, Grothendieck bound; bell_inequality_max between verified strategy value and certified dual.",
         "Trusted: Lean kernel + standard axioms; Python harness; tau 1e-3 (SCS). Cited: Tsirelson's realisation theorem (Gram => strategy), strong duality, Grothendieck's inequality (K < 1.7823), perfect parallel repetition. With marginal terms the certified Bell upper bound is the level-1 bound (may exceed the quantum maximum)."),
 "C11": ("Lean 4 theorems (exclusion weak duality, bounds, invariance, antidistinguishable iff value 0) + verified certificate checkers; toqito's value must lie in the certified interval",
         "Kernel-checked for all ensembles: weak duality of min-error exclusion; every POVM's value >= 0; a POVM with value p_j exists (so the optimum <= min prior); homogeneity in the priors; unitary invariance as a bijection of feasible sets; value 0 iff tr(rho_i M_i) = 0 for all i with p_i > 0 (antidistinguishability); "
         "a positive accepted dual refutes antidistinguishability; weak duality of the unambiguous pair; checker soundness; exact zero witnesses for rational antidistinguishable sets and BB84 by kernel evaluation. Per run: ensembles 2..5 states, dim 2..4, real/complex, all forms, primal and dual inside certified intervals, "
         "returned POVMs attain the value; trine / BB84 / PBR families at, above and below the threshold: value 0 (hi <= 1e-7) exactly when antidistinguishable, lo > 1e-3 otherwise; is_antidistinguishable and common_quantum_overlap agree with the interval.",
         "Trusted: Lean kernel + standard axioms; Python harness; tau 2e-5 (CVXOPT). The unambiguous variant has only the weak-duality theorem and a numeric primal/dual agreement check, as the property asks. CVXOPT breakdowns on the unambiguous programs are counted (retried once with the tolerance the docstring recommends)."),
 "C15": ("Lean 4 theorems (Peres: mixtures of product states have PSD partial transpose; party irrelevance; closure of the separable class under local unitaries and swap; Gurvits-Barnum ball as an exact rational inequality) + verified lambda_min certificates and exact deciders",
         "Kernel-checked (34): soundness of the necessary criteria behind is_separable's 'entangled' verdicts for all local dimensions -- PPT (peres), realignment/CCNR (sum of singular values of R(rho) <= tr rho), the Zhang et al. bound, the positive-map criterion with its instances transposition, reduction and Breuer-Hall (positivity of the map proved); the Ha-Kye branch given positivity of the maps (cited); peres for all local dimensions and either party; executable partial transpose / local conjugation / swap equal their specs; lambda_min lower and upper certificates sound, so the PPT verdict is decided exactly whenever the certified interval is clear of -tol; a certified negative Rayleigh quotient of the partial transpose excludes separability; "
         "the separable class is closed under (U (x) V) and party exchange (so invariance of a correct verdict is meaningful); in_separable_ball's mirror equals (n-1)||M||_F^2 <= (tr M)^2. Per run: is_ppt / is_npt on states with exact structure vs certified lambda_min of the exact partial transpose; is_separable never rejects exact mixtures of rational product states, never accepts "
         "certified NPT states, agrees with PPT for dA dB <= 6, invariant under local rational unitaries and swap, with the deciding return statement traced (sys.monitoring) for branch coverage; in_separable_ball vs the exact decision; has_symmetric_extension accepts separable constructions.",
         "Trusted: Lean kernel + standard axioms; Python harness. Cited: soundness of toqito's sufficient separability criteria, PPT sufficiency for dA dB <= 6. Known findings: has_symmetric_extension's SDP branch is constantly False; is_separable's late stages (Breuer-Hall / final symmetric-extension stage) reject separable states or raise."),
 "C14": ("Lean 4 theorems on exact models of Schmidt rank / product test / purity / partial transpose / realignment and the closed forms for planted Schmidt data (negativity via the trace norm of the partial transpose, entropy additivity, concurrence) + verified rank certificates; exact ground-truth constructions as correspondence",
         "Kernel-checked: the reshape of schmidt_rank is the amplitude matrix (and the pre-fix reshape is not, with the concrete counterexample); (U (x) V) psi has amplitude matrix U A V^T so Schmidt rank and operator Schmidt rank are local invariants; planted states have rank = number of non-zero s_i; a vector/operator is a product iff all 2x2 minors vanish; "
         "purity and the characteristic polynomial are unitarily invariant; entropy is additive on products; partial transpose is covariant under local unitaries; for every pure state the partial transpose has (rho^T_B)^H rho^T_B = (A A^H) (x) (A^H A), hence ||rho^T_B||_1 = (sum s_i)^2 for planted Schmidt coefficients (negativity / log-negativity closed form); "
         "concurrence 2|det A| and its planted value; S(k) vector norm as sum of the k largest squares; rank certificates sound. Tie to /repo: states built as (U (x) V) sum s_i |ii> with rational s and exact rational unitaries, unequal local dims, all dim forms; every function compared with the closed form (1e-9 scale; exact for ranks and verdicts); local-unitary invariance on mixed states.",
         "Trusted: Lean kernel + standard axioms; Python harness. The exact rank elimination is proved correct (rankQ = Matrix.rank; Schmidt rank mirror = rank of the amplitude / realigned matrix). Partial (stated in evidence): S(k) operator norm and is_block_positive are only bracketed one-sidedly outside closed-form families; Eckart-Young (S(k) vector norm = max overlap) not proved; trace norm = numpy nuclear norm assumed."),
}
PENDING_REASON = "check not built yet in this round (work in progress; see DESIGN.md section 7 for the plan)"

def main():
    checks = []
    for pid in ALL:
        if pid in CLAIMED:
            tech, text, note = CLAIMED[pid]
            checks.append({
                "property_id": pid,
                "quick_cmd": f"./check {pid} quick",
                "thorough_cmd": f"./check {pid} thorough",
                "evidence_file": f"evidence/{pid}.json",
                "replay_cmd_template": f"./check {pid} quick --replay {{path}}",
                "engine": "lean4-model+correspondence",
                "level_claimed": {"category": "proof", "text": text, "design_ref": f"DESIGN.md section 7, {pid}"},
                "level_note": note,
                "technique": tech,
            })
    man = {
        "version": 1,
        "setup_cmd": "./setup.sh",
        "hooks": {
            "guard": "TOQITO_VERIF",
            "enable": "no source hooks are needed: the harness imports /repo in-process (PYTHONPATH=/repo) and captures cvxpy/picos problems by monkey-patching inside the harness process",
            "baseline_off_cmd": "cd /repo && /venv/bin/python -m pytest -ra -q -p no:cacheprovider --timeout=900 --continue-on-collection-errors",
            "source_commits": [],
            "add_only": True,
        },
        "engines": [{
            "name": "lean4-model+correspondence",
            "path": "lean/ (Lean 4 model, specs, theorems, compiled driver) + harness/ (Python correspondence)",
            "serves_properties": sorted(CLAIMED),
            "kind_free_text": "machine-checked proof in Lean 4 about a hand-written executable model; model tied to the code by a differential correspondence check through a line protocol",
        }],
        "checks": checks,
        "notes": "fix: commits in /repo are recorded in KNOWN_FINDINGS.jsonl (kind=fixed); findings recorded there (kind=finding) are printed as KNOWN-FINDING lines.",
        "not_applicable": [{"property_id": p, "reason": PENDING_REASON} for p in ALL if p not in CLAIMED],
    }
    json.dump(man, open(os.path.join(HERE, "MANIFEST.json"), "w"), indent=1)
    print("claimed", sorted(CLAIMED))

if __name__ == "__main__":
    main()
