#!/usr/bin/env python3
"""Regenerate MANIFEST.json from the table below (keeps it valid at all times)."""
import json, os
HERE = os.path.dirname(os.path.dirname(os.path.abspath(__file__)))
ALL = [f"C{i:02d}" for i in range(1, 21)]

# id -> (technique, level text, level note)
CLAIMED = {
 "C01": ("Lean 4 refinement theorem (mirror model = tensor-factor relabelling spec) + exact correspondence on labelled inputs",
         "Kernel-checked theorems about the mirror model of permute_systems/swap/permutation_operator for every n, dimension vector and permutation; "
         "the model is tied to /repo on every run by exact (tolerance 0) comparison of the real functions with the compiled Lean model on arange-labelled inputs, "
         "where one case settles a whole configuration for every entry value.",
         "Trusted: Lean kernel; axioms propext/Classical.choice/Quot.sound; the hand-written model; the Python harness; NumPy dtype-parametricity of data movement. "
         "The tie model<->code is sampled over configurations (exhaustive for small ones in the thorough tier)."),
}
PENDING_REASON = "check not built yet in this round (work in progress; see DESIGN.md section 7 for the plan)"

def main():
    checks = []
    for pid in ALL:
        if pid in CLAIMED:
            tech, text, note = CLAIMED[pid]
            checks.append({
                "property_id": pid,
                "quick_cmd": f"./check {pid} quick",
                "thorough_cmd": f"./check {pid} thorough",
                "evidence_file": f"evidence/{pid}.json",
                "replay_cmd_template": f"./check {pid} quick --replay {{path}}",
                "engine": "lean4-model+correspondence",
                "level_claimed": {"category": "proof", "text": text, "design_ref": f"DESIGN.md section 7, {pid}"},
                "level_note": note,
                "technique": tech,
            })
    man = {
        "version": 1,
        "setup_cmd": "cd lean && lake build Toq toqdriver",
        "hooks": {
            "guard": "TOQITO_VERIF",
            "enable": "no source hooks are needed: the harness imports /repo in-process (PYTHONPATH=/repo) and captures cvxpy/picos problems by monkey-patching inside the harness process",
            "baseline_off_cmd": "cd /repo && /venv/bin/python -m pytest -ra -q -p no:cacheprovider --timeout=900 --continue-on-collection-errors",
            "source_commits": [],
            "add_only": True,
        },
        "engines": [{
            "name": "lean4-model+correspondence",
            "path": "lean/ (Lean 4 model, specs, theorems, compiled driver) + harness/ (Python correspondence)",
            "serves_properties": sorted(CLAIMED),
            "kind_free_text": "machine-checked proof in Lean 4 about a hand-written executable model; model tied to the code by a differential correspondence check through a line protocol",
        }],
        "checks": checks,
        "notes": "fix: commits in /repo are recorded in KNOWN_FINDINGS.jsonl (kind=fixed); findings recorded there (kind=finding) are printed as KNOWN-FINDING lines.",
        "not_applicable": [{"property_id": p, "reason": PENDING_REASON} for p in ALL if p not in CLAIMED],
    }
    json.dump(man, open(os.path.join(HERE, "MANIFEST.json"), "w"), indent=1)
    print("claimed", sorted(CLAIMED))

if __name__ == "__main__":
    main()
