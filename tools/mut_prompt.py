#!/usr/bin/env python3
"""tools/mut_prompt.py <Cxx> <worktree> <n>: the complete instructions given to a fresh mutation sub-agent (property text only)."""
import json, sys, os
HERE = os.path.dirname(os.path.dirname(os.path.abspath(__file__)))
props = {json.loads(l)['id']: json.loads(l) for l in open(os.path.join(HERE, 'properties.jsonl'))}
pid, wt, n = sys.argv[1], sys.argv[2], sys.argv[3]
WAVE = sys.argv[4] if len(sys.argv) > 4 else "1"
TAG = pid.lower() + ("w" + WAVE if WAVE != "1" else "")
p = props[pid]
EXTRA = "" if WAVE == "1" else " This is a second round: an earlier round already produced the obvious candidates (wrong index/order convention, missing conjugate, dropped constraint, wrong subsystem). Prefer OTHER kinds of regressions, each of the three of a different kind, e.g.: behaviour that depends on which of several documented ARGUMENT FORMS is used (scalar / list / ndarray / omitted / tuple; int vs float scalar; 1-D vs column vector); on the dtype or memory layout of an input or on the FIRST element of a list deciding something for all elements; on exact BOUNDARY values (0, 1, equal versus unequal dimensions, a single element, an empty remainder, the last index); on the ORDER in which elements of a set are listed; on repeated calls or call order (state or caller data modified in place, caching); on a tolerance used with the wrong sign/scale or applied to the wrong quantity; on an early-exit shortcut that is valid only in a special case."
print(f"""You are testing how well a verification effort detects realistic regressions in the open-source Python library toqito (quantum information toolkit). You work ONLY inside your own scratch git worktree of the repository at {wt} (a checkout of the current HEAD). Do not read, list or touch /verif or /repo or any other worktree under /tmp/wt; do not use any information other than the property text below and the source code in your worktree.

Property (must hold for toqito):
TITLE: {p['title']}
STATEMENT: {p['statement']}
QUANTIFIED OVER: {p['quantifier']['text']}
Relevant files: {', '.join(p['anchors']['files'])}

Task: produce {n} DIFFERENT, independent changes to the toqito source (each on its own, starting from the clean HEAD), each of which BREAKS the property above while the code still imports/compiles and the repository's EXISTING test suite still passes unchanged. I want realistic bugs of the kind a maintainer could introduce during a refactoring or an "optimisation" — and specifically ones that need something particular to manifest: an unusual but legitimate input (unequal local dimensions, non-involutive permutation, rectangular or complex non-symmetric data, a particular argument form such as an omitted/scalar/list argument, a particular size, a sparse input, a particular listing order), or two cooperating sites that each look fine alone, or a multi-step sequence — NOT ones that ordinary use or the existing tests would expose at once, and NOT crude sabotage (no `if input == special: return garbage`, no random behaviour). Each change should be small (a few lines).{EXTRA}

For each change k = 1..{n}, deliver in the directory {wt}/_mut/{TAG}_k/ :
  * patch.diff — `git diff` of the change against HEAD (source files under toqito/ only; do not edit or add tests in the patch);
  * demo.py — a small standalone program (run as `cd {wt} && PYTHONPATH={wt} /venv/bin/python _mut/{TAG}_k/demo.py`) that exits 0 on the clean HEAD and exits 1 (printing what is wrong) with the patch applied, demonstrating the violation of the property on a concrete input;
  * meta.json — {{"property": "{pid}", "summary": one sentence, "needs": what particular input/sequence/configuration is needed for the bug to manifest, "files": [changed files], "tests_run": the exact test command(s) you ran with the patch applied and their result}}.
How to run things: Python is /venv/bin/python; always set PYTHONPATH={wt} and run from {wt} so that `import toqito` resolves to your worktree (check with `PYTHONPATH={wt} /venv/bin/python -c "import toqito.perms as p; print(p.__file__)"`). Existing tests: `cd {wt} && PYTHONPATH={wt} /venv/bin/python -m pytest -q -p no:cacheprovider <test dirs>`; you must at least run the test directories of every module you touched and of modules that call the touched function (grep for callers), with the patch applied, and they must all pass. (The whole suite takes ~15 minutes; running it completely is welcome but optional; never edit tests.) Procedure per change: apply the edit, run demo (must fail), run tests (must pass), save `git diff > _mut/.../patch.diff`, then `git checkout -- toqito` to return to the clean HEAD and verify demo passes on the clean tree. Leave the worktree clean (only the untracked _mut/ directory) at the end. Keep every scratch file inside your worktree (nothing in /tmp outside it). No network is available.

Report: for each change, one paragraph (what, why the tests miss it, what input triggers it) and the confirmation lines (demo clean: exit 0; demo patched: exit 1; tests patched: N passed).""")
