#!/bin/bash
# tools/check_seeded_apply.sh : every stored seeded change must still apply to /repo's HEAD (a later fix: commit can touch the same lines;
# such a change is then rebased by hand and re-confirmed with tools/confirm_seed.sh)
V="$(cd "$(dirname "$0")/.." && pwd)"; bad=0
for d in "$V"/seeded/*/; do git -C /repo apply --check "$d/patch.diff" 2>/dev/null || { echo "does not apply: $(basename "$d")"; bad=1; }; done
[ $bad = 0 ] && echo "all $(ls -d "$V"/seeded/*/ | wc -l) seeded changes apply to $(git -C /repo log --format=%h -1)"
exit $bad
