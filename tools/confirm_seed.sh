#!/bin/bash
# tools/confirm_seed.sh <mutdir> <id> <Cxx> "<pytest targets>" : confirm a seeded change in a fresh scratch worktree of /repo HEAD
# (demo passes clean, fails patched, listed existing tests pass patched), run the check against it, and store it as /verif/seeded/<id>/
set -u
MUT="$(readlink -f "$1")"; ID="$2"; PID="$3"; TESTS="$4"
V="$(cd "$(dirname "$0")/.." && pwd)"
WT="$(mktemp -d /tmp/wt_seed.XXXXXX)"
git -C /repo worktree add -q --detach "$WT" HEAD || exit 2
cd "$WT"
run_demo() { PYTHONPATH="$WT" timeout 600 /venv/bin/python "$MUT/demo.py" >/dev/null 2>&1; echo $?; }
d0=$(run_demo)
if ! git apply "$MUT/patch.diff" 2>/dev/null; then
  if ! git apply --3way "$MUT/patch.diff" 2>/dev/null; then echo "$ID: patch does not apply to HEAD"; git -C /repo worktree remove --force "$WT"; exit 2; fi
fi
git diff HEAD > "$WT/_patch_head.diff"
d1=$(run_demo)
tres=$(PYTHONPATH="$WT" timeout 3000 /venv/bin/python -m pytest -q -p no:cacheprovider $TESTS 2>&1 | tail -1)
VERIF_REPO="$WT" VERIF_EVIDENCE_DIR="$WT/_ev" VERIF_REPLAY_DIR="$WT/_rp" VERIF_SEED="${VERIF_SEED:-0}" "$V/check" "$PID" quick > "$WT/_out.txt" 2>&1
rc=$?
viol=$(grep -c '^VIOLATION' "$WT/_out.txt")
first=$(grep '^VIOLATION' -A1 "$WT/_out.txt" | sed -n 2p | cut -c1-200)
echo "$ID: demo clean=$d0 patched=$d1 | tests: $tres | check $PID exit=$rc violations=$viol | $first"
if [ "$d0" = "0" ] && [ "$d1" != "0" ]; then
  mkdir -p "$V/seeded/$ID"
  cp "$WT/_patch_head.diff" "$V/seeded/$ID/patch.diff"; cp "$MUT/demo.py" "$V/seeded/$ID/demo.py"
  python3 - "$MUT/meta.json" "$V/seeded/$ID/meta.json" "$PID" "$d0" "$d1" "$tres" "$rc" "$viol" "$first" "$TESTS" <<'PY'
import json, sys
src, dst, pid, d0, d1, tres, rc, viol, first, tests = sys.argv[1:]
try: m = json.load(open(src))
except Exception: m = {}
m.update({"property": pid, "confirmed": {"repo_head": "see git log", "demo_clean_exit": int(d0), "demo_patched_exit": int(d1),
          "existing_tests_patched": tests + " -> " + tres, "check_quick_exit": int(rc), "check_violation_lines": int(viol), "first_violation": first},
          "detected_by_check": int(rc) == 1})
json.dump(m, open(dst, "w"), indent=1)
PY
fi
git -C /repo worktree remove --force "$WT"
