#!/bin/bash
# tools/try_seeded.sh <patch.diff> <Cxx> [more Cxx...] : run quick checks against a scratch worktree with the patch applied
# (development aid for the kill matrix; never touches /repo itself so concurrent work is not disturbed)
set -u
PATCH="$(readlink -f "$1")"; shift
WT="$(mktemp -d /tmp/wt_kill.XXXXXX)"
git -C /repo worktree add -q --detach "$WT" HEAD || exit 2
( cd "$WT" && git apply "$PATCH" ) || { echo "patch does not apply"; git -C /repo worktree remove --force "$WT"; exit 2; }
rc=0
for pid in "$@"; do
  VERIF_REPO="$WT" VERIF_EVIDENCE_DIR="$WT/_ev" VERIF_REPLAY_DIR="$WT/_rp" VERIF_SEED="${VERIF_SEED:-0}" "$(dirname "$0")/../check" "$pid" quick > "$WT/out_$pid.txt" 2>&1
  r=$?
  echo "== $pid exit=$r $(grep -c '^VIOLATION' "$WT/out_$pid.txt") violation lines; $(grep '^VIOLATION' -A1 "$WT/out_$pid.txt" | sed -n 2p | cut -c1-160)"
  [ $r -ne 0 ] && rc=1
done
git -C /repo worktree remove --force "$WT"
exit $rc
