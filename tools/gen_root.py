#!/usr/bin/env python3
"""Regenerate lean/Toq.lean so that the default target builds every module present."""
import os
HERE = os.path.dirname(os.path.dirname(os.path.abspath(__file__)))
root = os.path.join(HERE, "lean", "Toq")
mods = []
for d, _, names in os.walk(root):
    for n in sorted(names):
        if n.endswith(".lean"):
            rel = os.path.relpath(os.path.join(d, n), os.path.join(HERE, "lean"))[:-5].replace(os.sep, ".")
            mods.append(rel)
open(os.path.join(HERE, "lean", "Toq.lean"), "w").write("".join(f"import {m}\n" for m in sorted(mods)))
print(len(mods), "modules")
