#!/usr/bin/env python3
"""Regenerate lean/Toq.lean: the default target builds the property modules of every claimed check."""
import json, os
HERE = os.path.dirname(os.path.dirname(os.path.abspath(__file__)))
man = json.load(open(os.path.join(HERE, "MANIFEST.json")))
pids = sorted(c["property_id"] for c in man["checks"])
mods = [f"Toq.Properties.{p}" for p in pids if os.path.exists(os.path.join(HERE, "lean", "Toq", "Properties", f"{p}.lean"))]
open(os.path.join(HERE, "lean", "Toq.lean"), "w").write("".join(f"import {m}\n" for m in mods))
print(mods)
